#!/usr/bin/env python3
"""Create scratch worktrees + TASK.md files for a round of seeded-change agents.

usage: tools/seed_tasks.py <rounddir> [PID ...]
Each agent gets only /tmp/<rounddir>/<PID>/TASK.md (property text + what was
already delivered in earlier rounds), nothing from /verif.
"""
import json, glob, os, subprocess, sys
V = '/verif'
rd = sys.argv[1]
only = set(sys.argv[2:])
taken = {}
for mp in sorted(glob.glob(V + '/seeded/*/meta.json')):
    m = json.load(open(mp))
    pid = m['property']
    nt = m.get('needs_to_manifest', '')
    first = ''
    for line in nt.splitlines():
        line = line.strip(' -*#')
        if len(line) > 30:
            first = line
            break
    taken.setdefault(pid, []).append(first[:300])
taken.setdefault('C04', []).append("skip creating the local file when nothing is left to receive (size 0)")
taken.setdefault('C05', []).append("manage_transfers skips an upload whose task handle is not None (stale handle of a finished task) -> retry wakeup lost")
os.makedirs(rd, exist_ok=True)
for l in open(V + '/properties.jsonl'):
    p = json.loads(l)
    pid = p['id']
    if only and pid not in only:
        continue
    wt = f'{rd}/{pid}'
    if not os.path.exists(wt):
        subprocess.run(['git', '-C', '/repo', 'worktree', 'add', '--detach', '-q', wt, 'HEAD'], check=True)
    t = open(f'{V}/tools/seedprompts/{pid}.txt').read().replace(f'/tmp/seed/{pid}', wt)
    extra = ("\n\nALREADY TAKEN (other engineers delivered these ideas before; yours must differ from them in code site AND mechanism — do not re-use them or close variants):\n"
             + "\n".join(f"  - {x}" for x in taken.get(pid, []))
             + "\nAlso avoid trivial variants of reverting a recent 'fix:' commit of this checkout (see `git log --oneline | head -45`); look for NEW ways to break the property, preferably in code paths and scenarios that the quantifier mentions but that are rarely exercised (other carriers, other states, other timings, other field kinds, limits, error paths), and in source files named by the code anchors that none of the taken ideas touches. Never use `git stash`.\n" + (os.environ.get('SEED_EXTRA', '') and ('\n' + os.environ['SEED_EXTRA'] + '\n')))
    open(wt + '/TASK.md', 'w').write(t + extra)
    print(wt)
