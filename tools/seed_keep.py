#!/usr/bin/env python3
"""usage: tools/seed_keep.py <PID> <seeddir> <id> -- verify a seeded change and keep it under seeded/<id>/ with meta.json"""
import json, os, shutil, subprocess, sys, tempfile
pid, sd, sid = sys.argv[1], os.path.realpath(sys.argv[2]), sys.argv[3]
V = os.path.dirname(os.path.dirname(os.path.abspath(__file__)))
wt = tempfile.mkdtemp(prefix='vfw-seed.'); out = tempfile.mkdtemp(prefix='vfw-seedout.')
repo = os.path.join(wt, 'repo')
subprocess.run(['git', '-C', '/repo', 'worktree', 'add', '--detach', '-q', repo, 'HEAD'], check=True)
meta = {'property': pid, 'id': sid, 'repo_head': subprocess.run(['git', '-C', '/repo', 'rev-parse', '--short', 'HEAD'], capture_output=True, text=True).stdout.strip()}
try:
    env = dict(os.environ, PYTHONPATH=os.path.join(repo, 'src'))
    os.makedirs(os.path.join(repo, 'seedx'))
    shutil.copy(os.path.join(sd, 'demo.py'), os.path.join(repo, 'seedx', 'demo.py'))
    def demo():
        try:
            return subprocess.run(['/venv/bin/python', 'seedx/demo.py'], cwd=repo, env=env, capture_output=True, timeout=180).returncode
        except subprocess.TimeoutExpired:
            return 'timeout'
    meta['demo_exit_clean'] = demo()
    ap = subprocess.run(['git', 'apply', os.path.join(sd, 'patch.diff')], cwd=repo)
    meta['patch_applies'] = ap.returncode == 0
    meta['demo_exit_patched'] = demo()
    ut = subprocess.run(['/venv/bin/python', '-m', 'pytest', '-q', '-p', 'no:cacheprovider', 'tests/unit'], cwd=repo, env=env, capture_output=True, text=True)
    meta['unit_tests'] = 'exit %d: %s' % (ut.returncode, (ut.stdout.strip().splitlines() or [''])[-1][:120])
    meta['unit_tests_pass'] = ut.returncode == 0
    env2 = dict(os.environ, VFW_REPO=repo, VFW_OUT=out)
    env2.pop('PYTHONPATH', None)
    ck = subprocess.run(['./check', pid, 'quick'], cwd=V, env=env2, capture_output=True, text=True)
    meta['check_cmd'] = f'VFW_REPO=<patched worktree> ./check {pid} quick'
    meta['check_exit'] = ck.returncode
    meta['check_kinds'] = [l.strip()[:300] for l in ck.stdout.splitlines() if l.strip().startswith('kind=')][:6]
    meta['caught'] = ck.returncode == 1
    notes = open(os.path.join(sd, 'notes.md')).read() if os.path.exists(os.path.join(sd, 'notes.md')) else ''
    meta['needs_to_manifest'] = notes[:3000]
    meta['ran'] = ['demo.py on clean HEAD worktree', 'git apply patch.diff', 'demo.py on patched worktree', 'pytest tests/unit on patched worktree', meta['check_cmd']]
    ok = meta['demo_exit_clean'] == 0 and meta['patch_applies'] and meta['demo_exit_patched'] not in (0,) and meta['unit_tests_pass']
    meta['confirmed'] = bool(ok)
    dst = os.path.join(V, 'seeded', sid)
    if ok:
        os.makedirs(dst, exist_ok=True)
        for f in ('patch.diff', 'demo.py', 'notes.md'):
            if os.path.exists(os.path.join(sd, f)) and os.path.realpath(os.path.join(sd, f)) != os.path.realpath(os.path.join(dst, f)):
                shutil.copy(os.path.join(sd, f), os.path.join(dst, f))
        json.dump(meta, open(os.path.join(dst, 'meta.json'), 'w'), indent=1)
    print(json.dumps({k: meta[k] for k in ('id', 'confirmed', 'demo_exit_clean', 'demo_exit_patched', 'unit_tests', 'check_exit', 'caught')}), flush=True)
    for k in meta['check_kinds'][:3]:
        print('   ', k[:200])
finally:
    subprocess.run(['git', '-C', '/repo', 'worktree', 'remove', '--force', repo], capture_output=True)
    shutil.rmtree(wt, ignore_errors=True); shutil.rmtree(out, ignore_errors=True)
