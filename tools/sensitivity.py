#!/usr/bin/env python3
"""Run every hand-written mutant (mutants/<ID>/*.diff, mutants/<ID>/after-fixes/*.diff) and every kept seeded change
(seeded/<id>/patch.diff) against the quick check of its property in a scratch worktree of /repo HEAD.
Writes sensitivity/results.json (committed) -- usage: tools/sensitivity.py [--part NAME] [ID ...]   (parallel runs write sensitivity/part-NAME.json)
       tools/sensitivity.py --merge"""
import glob, json, os, shutil, subprocess, sys, tempfile, time
V = os.path.dirname(os.path.dirname(os.path.abspath(__file__)))
args = sys.argv[1:]
out_path = os.path.join(V, 'sensitivity', 'results.json')
if args and args[0] == '--merge':
    # merge the part files written by parallel runs (--part NAME) into results.json, dropping entries whose patch
    # file no longer exists
    results = json.load(open(out_path)) if os.path.exists(out_path) else {}
    for part in sorted(glob.glob(os.path.join(V, 'sensitivity', 'part-*.json'))):
        results.update(json.load(open(part)))
        os.remove(part)
    results = {k: v for k, v in results.items() if os.path.exists(os.path.join(V, k))}
    json.dump(results, open(out_path, 'w'), indent=1, sort_keys=True)
    print(len(results), 'entries;', sum(1 for v in results.values() if v.get('status') != 'caught'), 'not caught')
    sys.exit(0)
if args and args[0] == '--part':
    out_path = os.path.join(V, 'sensitivity', 'part-%s.json' % args[1])
    args = args[2:]
only = set(a.upper() for a in args)
os.makedirs(os.path.dirname(out_path), exist_ok=True)
results = json.load(open(out_path)) if os.path.exists(out_path) else {}
head = subprocess.run(['git', '-C', '/repo', 'rev-parse', '--short', 'HEAD'], capture_output=True, text=True).stdout.strip()
items = []
for path in sorted(glob.glob(os.path.join(V, 'mutants', 'C*', '*.diff')) + glob.glob(os.path.join(V, 'mutants', 'C*', '*', '*.diff'))):
    pid = path.split('/mutants/')[1].split('/')[0]
    items.append((pid, os.path.relpath(path, V)))
for path in sorted(glob.glob(os.path.join(V, 'seeded', '*', 'patch.diff'))):
    sid = os.path.basename(os.path.dirname(path))
    items.append((sid.split('-')[0], os.path.relpath(path, V)))
for pid, rel in items:
    if only and pid not in only:
        continue
    wt = tempfile.mkdtemp(prefix='vfw-sens.'); out = tempfile.mkdtemp(prefix='vfw-sensout.')
    repo = os.path.join(wt, 'repo')
    subprocess.run(['git', '-C', '/repo', 'worktree', 'add', '--detach', '-q', repo, 'HEAD'], check=True)
    rec = {'property': pid, 'repo_head': head}
    try:
        ap = subprocess.run(['git', 'apply', os.path.join(V, rel)], cwd=repo, capture_output=True, text=True)
        if ap.returncode != 0:
            rec['status'] = 'does-not-apply-to-head'
        else:
            t0 = time.time()
            env = dict(os.environ, VFW_REPO=repo, VFW_OUT=out)
            ck = subprocess.run(['./check', pid, 'quick'], cwd=V, env=env, capture_output=True, text=True)
            rec['exit'] = ck.returncode
            rec['wall_s'] = round(time.time() - t0, 1)
            rec['kinds'] = [l.strip()[5:].split(' detail=')[0] for l in ck.stdout.splitlines() if l.strip().startswith('kind=')][:5]
            rec['status'] = {0: 'MISSED', 1: 'caught', 2: 'harness-error'}.get(ck.returncode, 'other')
    finally:
        subprocess.run(['git', '-C', '/repo', 'worktree', 'remove', '--force', repo], capture_output=True)
        shutil.rmtree(wt, ignore_errors=True); shutil.rmtree(out, ignore_errors=True)
    results[rel] = rec
    print(pid, rel, rec.get('status'), rec.get('kinds', [])[:2], flush=True)
    json.dump(results, open(out_path, 'w'), indent=1, sort_keys=True)
