#!/usr/bin/env python3
"""Print DESIGN.md §11 (fix table, known findings, seeded changes, mutant sensitivity) from KNOWN_FINDINGS.txt,
seeded/*/meta.json and sensitivity/results.json."""
import glob, json, os, re
V = os.path.dirname(os.path.dirname(os.path.abspath(__file__)))
def esc(t, n): return t.replace('|', '\\|')[:n]
kf = open(os.path.join(V, 'KNOWN_FINDINGS.txt')).read().splitlines()
rows = sorted(re.match(r'fixed: property=(C\d+) (\w+) (.*)', l).groups() for l in kf if l.startswith('fixed:'))
known = [re.match(r'known: property=(C\d+) kind=(\S+) (.*)', l).groups() for l in kf if l.startswith('known:')]
o = []
o.append(open(os.path.join(V, 'tools', 'design11_head.md')).read().replace('NFIX', str(len(rows))))
for p, c, t in rows:
    o.append('| %s | `%s` | %s |\n' % (p, c, esc(t, 420)))
o.append(open(os.path.join(V, 'tools', 'design11_known.md')).read())
for p, k, t in known:
    o.append('| %s | `%s` | %s |\n' % (p, k, esc(t, 700)))
o.append(open(os.path.join(V, 'tools', 'design11_obs.md')).read())
# seeded
notes = json.load(open(os.path.join(V, 'seeded', 'NOTES.json'))) if os.path.exists(os.path.join(V, 'seeded', 'NOTES.json')) else {}
o.append('| id | change (one line) | caught by (first kinds) | remark |\n|---|---|---|---|\n')
for mp in sorted(glob.glob(os.path.join(V, 'seeded', '*', 'meta.json'))):
    m = json.load(open(mp))
    first = ''
    nt = m.get('needs_to_manifest', '')
    for line in nt.splitlines():
        line = line.strip(' -*#')
        if len(line) > 30:
            first = line
            break
    kinds = '; '.join(k.split(' detail=')[0].replace('kind=', '') for k in m.get('check_kinds', [])[:2])
    o.append('| %s | %s | %s | %s |\n' % (m['id'], esc(first, 230), esc(kinds or ('MISSED' if not m.get('caught') else ''), 200),
                                     esc(notes.get(m['id'], ''), 300)))
# mutants
sp = os.path.join(V, 'sensitivity', 'results.json')
if os.path.exists(sp):
    res = json.load(open(sp))
    o.append('\n### 11.5 Hand-written mutants (sensitivity corpus, `sensitivity/results.json`)\n\n')
    byp = {}
    for rel, r in res.items():
        if rel.startswith('mutants/'):
            byp.setdefault(r['property'], []).append((rel, r))
    o.append('| Property | mutants | caught | missed | stale (no longer applies to HEAD) |\n|---|---|---|---|---|\n')
    for p in sorted(byp):
        items = byp[p]
        c = [os.path.basename(rel)[:-5] for rel, r in items if r['status'] == 'caught']
        mi = [os.path.basename(rel)[:-5] for rel, r in items if r['status'] == 'MISSED']
        st = [os.path.basename(rel)[:-5] for rel, r in items if r['status'] not in ('caught', 'MISSED')]
        o.append('| %s | %d | %d | %s | %s |\n' % (p, len(items), len(c), ', '.join(mi) or '–', ', '.join(st) or '–'))
o.append(open(os.path.join(V, 'tools', 'design11_impl.md')).read())
print(''.join(o))
