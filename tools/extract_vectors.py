"""One-off: pull the hand-written byte vectors out of the unit tests into
pinned/vectors.json (message key, JSON value, hex).  Not run at check time."""
import ast, json, sys
sys.path.insert(0, '/repo/src'); sys.path.insert(0, '/verif'); sys.path.insert(0, '/repo')
import importlib
from vfw import msgbridge
mod = importlib.import_module('tests.unit.protocol.test_messages')
src = open(mod.__file__).read()
tree = ast.parse(src)
out = []
skipped = 0
for cls in [n for n in tree.body if isinstance(n, ast.ClassDef)]:
    for fn in [n for n in cls.body if isinstance(n, ast.FunctionDef)]:
        msg_expr = None; hexes = []
        for node in ast.walk(fn):
            if isinstance(node, ast.Call) and isinstance(node.func, ast.Attribute):
                if node.func.attr in ('Request', 'Response') and msg_expr is None:
                    msg_expr = node
                if node.func.attr == 'fromhex' and node.args and isinstance(node.args[0], ast.Constant):
                    hexes.append(node.args[0].value)
        if msg_expr is None or len(hexes) != 1:
            skipped += 1; continue
        try:
            obj = eval(compile(ast.Expression(msg_expr), '<v>', 'eval'), vars(mod))
            key, values = msgbridge.from_obj(obj)
        except Exception as e:
            print('skip', fn.name, e); skipped += 1; continue
        out.append({'test': fn.name, 'key': key, 'values': values, 'hex': hexes[0].replace(' ', ''),
                    'direction': 'serialize' if 'serialize' in fn.name and 'deserialize' not in fn.name else 'deserialize'})
json.dump(out, open('/verif/pinned/vectors.json', 'w'), indent=0, sort_keys=True)
print(len(out), 'vectors', skipped, 'skipped')
