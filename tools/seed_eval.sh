#!/bin/sh
# usage: tools/seed_eval.sh <PID> <seeddir>   -- verify a seeded change independently, then run our check against it
# 1. unit tests pass with the patch  2. demo fails with / passes without  3. ./check <PID> quick catches it
PID=$1; SD=$(realpath "$2")
WT=$(mktemp -d /tmp/vfw-seed.XXXXXX); OUT=$(mktemp -d /tmp/vfw-seedout.XXXXXX)
git -C /repo worktree add --detach -q "$WT/repo" HEAD || exit 2
trap 'git -C /repo worktree remove --force "$WT/repo" >/dev/null 2>&1; rm -rf "$WT" "$OUT"' EXIT
cd "$WT/repo"
export PYTHONPATH="$WT/repo/src"
mkdir -p seedx && cp "$SD/demo.py" seedx/demo.py
timeout 120 /venv/bin/python seedx/demo.py >/dev/null 2>&1; echo "demo on clean HEAD: exit=$? (expect 0)"
git apply "$SD/patch.diff" || { echo "patch does not apply"; exit 2; }
timeout 120 /venv/bin/python seedx/demo.py >/dev/null 2>&1; echo "demo with patch:    exit=$? (expect !=0)"
/venv/bin/python -m pytest -q -p no:cacheprovider tests/unit -q 2>&1 | tail -1
unset PYTHONPATH
cd /verif
VFW_REPO="$WT/repo" VFW_OUT="$OUT" ./check "$PID" quick 2>&1 | grep -a -E "kind=|^C[0-9]+ quick|HARNESS" | cut -c1-260 | head -8
echo "check exit: see kinds above"
