"""One-off extraction of the protocol layout from the snapshot (NOT run at
check time).  Output: pinned/layout.json.  The table is reviewed against
docs/source/deprecated/MESSAGES.rst and the unit-test vectors before commit."""
import dataclasses
import inspect
import json
import sys

sys.path.insert(0, '/repo/src')
from aioslsk.protocol import messages as M, primitives as P

PRIMS = {P.uint8: 'uint8', P.uint16: 'uint16', P.uint32: 'uint32', P.uint64: 'uint64', P.int32: 'int32',
         P.boolean: 'boolean', P.string: 'string', P.bytearr: 'bytearr', P.ipaddr: 'ipaddr', P.array: 'array'}
records = {}


def tname(t):
    if t in PRIMS:
        return PRIMS[t]
    if t.__name__ == '_PeerInitTicket':
        return 'peer_init_ticket'
    if dataclasses.is_dataclass(t):
        if t.__name__ not in records:
            records[t.__name__] = None
            records[t.__name__] = fields_of(t)
        return 'record:' + t.__name__
    raise SystemExit(f'unknown type {t}')


def fields_of(cls):
    out = []
    for f in dataclasses.fields(cls):
        md = f.metadata
        d = {'name': f.name, 'type': tname(md['type'])}
        if 'subtype' in md:
            d['subtype'] = tname(md['subtype'])
        for k in ('if_true', 'if_false'):
            if k in md:
                d[k] = md[k]
        if md.get('optional'):
            d['optional'] = True
        if f.default is not dataclasses.MISSING:
            d['default'] = f.default
        elif f.default_factory is not dataclasses.MISSING:
            d['default'] = f.default_factory()
        out.append(d)
    return out


groups = {'server': M.ServerMessage, 'peer_init': M.PeerInitializationMessage,
          'peer': M.PeerMessage, 'distributed': M.DistributedMessage}
msgs = []
for gname, base in groups.items():
    for sub in base.__subclasses__():
        for kind in ('Request', 'Response'):
            cls = getattr(sub, kind, None)
            if cls is None:
                continue
            compressed = 'compress' in inspect.signature(cls.serialize).parameters and \
                inspect.signature(cls.serialize).parameters['compress'].default is True
            msgs.append({
                'group': gname, 'name': sub.__name__, 'kind': kind,
                'code': int(cls.MESSAGE_ID),
                'code_width': 1 if type(cls.MESSAGE_ID) is P.uint8 else 4,
                'compressed': compressed,
                'fields': fields_of(cls),
            })
json.dump({'records': records, 'messages': msgs}, open('/verif/pinned/layout.json', 'w'), indent=1, sort_keys=True)
print(len(msgs), 'messages', len(records), 'records')
