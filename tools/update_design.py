#!/usr/bin/env python3
"""Replace everything from the '## 11.' heading of DESIGN.md with the generated tables (tools/design_tables.py)."""
import os, subprocess
V = os.path.dirname(os.path.dirname(os.path.abspath(__file__)))
p = os.path.join(V, 'DESIGN.md')
s = open(p).read()
gen = subprocess.run(['python3', os.path.join(V, 'tools', 'design_tables.py')], capture_output=True, text=True, check=True).stdout
marker = '\n---------------------------------------------------------------------------\n\n## 11. '
i = s.find(marker)
if i >= 0:
    s = s[:i]
s = s.rstrip('\n') + '\n' + gen
open(p, 'w').write(s)
print(len(s))
