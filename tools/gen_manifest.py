"""Regenerate MANIFEST.json from checks/*.py metadata (MANIFEST_ENTRY dicts) + properties.jsonl."""
import importlib, json, os, sys
V = os.path.dirname(os.path.dirname(os.path.abspath(__file__)))
sys.path.insert(0, V); sys.path.insert(0, '/repo/src')
props = [json.loads(l)['id'] for l in open(os.path.join(V, 'properties.jsonl'))]
checks, na = [], []
for pid in props:
    path = os.path.join(V, 'checks', pid.lower() + '.py')
    ready = open(os.path.join(V, 'checks', 'ready.txt')).read().split()
    if not os.path.exists(path) or pid not in ready:
        na.append({'property_id': pid, 'reason': 'check not built yet (work in progress; the design in DESIGN.md §3 applies)'})
        continue
    mod = importlib.import_module('checks.' + pid.lower())
    e = mod.MANIFEST_ENTRY
    checks.append({
        'property_id': pid,
        'quick_cmd': f'./check {pid} quick',
        'thorough_cmd': f'./check {pid} thorough',
        'evidence_file': f'evidence/{pid}.json',
        'replay_cmd_template': f'./check replay {pid} {{path}}',
        'engine': 'vfw',
        'level_claimed': {'category': mod.LEVEL, 'text': e['level_text'], 'design_ref': f'DESIGN.md §3 {pid}'},
        'level_note': e['level_note'],
        'technique': e['technique'],
    })
manifest = {
    'version': 1,
    'setup_cmd': './setup.sh',
    'hooks': {
        'guard': 'AIOSLSK_VERIF',
        'enable': 'no source hooks: checks import /repo/src (or $VFW_REPO/src) directly and substitute module globals '
                  '(asyncio in aioslsk.network.connection, time in a few modules) from the harness side',
        'baseline_off_cmd': 'cd /repo && /venv/bin/python -m pytest -ra -q -p no:cacheprovider --timeout=900 --continue-on-collection-errors',
        'source_commits': [],
        'add_only': True,
    },
    'engines': [{
        'name': 'vfw', 'path': 'vfw/',
        'serves_properties': [c['property_id'] for c in checks],
        'kind_free_text': 'Hypothesis-driven generated-case search (JSON cases, model/differential oracles) on a '
                          'deterministic virtual-time asyncio loop with an in-memory TCP layer; atheris for raw frames',
    }],
    'checks': checks,
    'not_applicable': na,
    'notes': 'Every check: ./check <ID> <quick|thorough>; replay: ./check replay <ID> <file>. Known findings: KNOWN_FINDINGS.txt.',
}
json.dump(manifest, open(os.path.join(V, 'MANIFEST.json'), 'w'), indent=1)
print(len(checks), 'checks', len(na), 'not applicable')
