#!/bin/sh
# usage: tools/mutant_run.sh <patch.diff> <ID> [tier]   -- run a check against a patched scratch worktree of /repo
set -e
PATCH=$(realpath "$1"); ID=$2; TIER=${3:-quick}
WT=$(mktemp -d /tmp/vfw-wt.XXXXXX); OUT=$(mktemp -d /tmp/vfw-out.XXXXXX)
git -C /repo worktree add --detach -q "$WT/repo" HEAD
trap 'git -C /repo worktree remove --force "$WT/repo" >/dev/null 2>&1; rm -rf "$WT" "$OUT"' EXIT
git -C "$WT/repo" apply "$PATCH"
set +e
VFW_REPO="$WT/repo" VFW_OUT="$OUT" /verif/check "$ID" "$TIER"
RC=$?
echo "mutant_run: exit=$RC"
for f in "$OUT"/replays/"$ID"/*.json; do [ -f "$f" ] && { echo "--- $f"; head -c 1500 "$f"; echo; }; done
exit $RC
