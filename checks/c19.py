"""C19 — room and user views equal the fold of what the server announced (DESIGN §3 C19, Appendix A)."""
from __future__ import annotations

import asyncio
import sys

from hypothesis import strategies as st

from vfw import simworld
from vfw.runner import CaseResult

PROPERTY = 'C19'
LEVEL = 'exploration'
RULE = (
    "Case = block flags for the 3 users (settings.users.blocked, BlockingFlag bits) + a sequence (<=12) of server "
    "notifications over rooms {r0,r1} and users {me (logged in),u1,u2}: RoomList, JoinRoom reply (public / private "
    "with owner+operators), LeaveRoom reply, UserJoinedRoom, UserLeftRoom, PrivateRoomMembers, PrivateRoomOperators, "
    "PrivateRoomGrant/RevokeMembership, PrivateRoomMembershipGranted/Revoked, PrivateRoomGrant/RevokeOperator, "
    "PrivateRoomOperatorGranted/Revoked, RoomTickers, RoomTickerAdded/Removed, GetUserStatus, GetUserStats, "
    "AddUser reply (exists / not), AddPrivilegedUser, PrivilegedUsers, CheckPrivileges, RoomChatMessage, "
    "PublicChatMessage, PrivateChatMessage; plus run-time changes of settings.users.blocked between messages "
    "(in-place set / change of flags / delete as USAGE.rst documents, and assignment of a whole new dict), so that a "
    "sender is blocked / unblocked for a kind AFTER messages of that sender and kind were already filtered; the "
    "oracle uses the block list as it is when the message is processed; and run-time edits of "
    "settings.credentials.username (to the name of another user of the history or a foreign name) - the fold keeps "
    "the name the client logged in with for everything 'about us'; and (at most twice per case) 'relogin': the "
    "simulated server resets the connection, the harness waits 20 ms, connects (Network.connect_server) and logs in "
    "again as 'me' - the fold restarts from the login baseline (no rooms, users unknown / not privileged, own user "
    "as after the first login), i.e. the views are compared with the fold of the NEW session's notifications only. "
    "Case field hold_users (about 1/3 of the cases): the event recorder additionally keeps every User object it is "
    "handed in events for the whole case, like an application roster (otherwise it keeps names only). Every stats carrier (JoinRoom user data, UserJoinedRoom, GetUserStats, "
    "AddUser) draws each of the four counters from {0 (weight 1/3), two small values, a medium one, one near the "
    "uint32 limit}, so a counter first reported as 0 and a counter dropping to 0 for a known user are common. "
    "Each is sent as a real frame by the simulated server to ONE real logged-in SoulSeekClient (virtual loop, "
    "in-memory TCP), one at a time, 5 ms of virtual time apart. Generation is 'swarm' style: a case draws a subset "
    "of message kinds (random 2..7 kinds, all kinds, a 'user life cycle' subset or a 'private-room roles' subset), "
    "optionally a preferred room and user, and then the messages, so grant/revoke/list compositions on the same "
    "room and user are frequent. Oracle: a hand-written replica fold (join adds, leave removes, grant adds, revoke "
    "removes, lists replace incl. the user list of a join reply, room list prunes; Appendix A) compared AFTER EVERY "
    "MESSAGE with RoomManager.rooms (joined, user-name list, owner, members, operators, tickers, private; an absent "
    "room equals a room in its initial state) and with status / stats / slots / country / privileged of every "
    "referenced user (me + every user object found in a room's user list, read both through the room and through "
    "UserManager.users; the harness holds no User object across steps, the event recorder stores names only). "
    "Events recorded on client.events for the Room*/User*/chat/privilege event classes must be exactly the expected "
    "one per message (optional when the message is a no-op on the replica), carrying the announced room name, user "
    "name and payload; no chat event for a sender blocked for that kind. A diverging field is reported once "
    "(kind = view:field:message kind after which it appeared; a `privileged` flag that is wrong on a user object "
    "created by the current message is attributed to the message kind that announced it) and the replica is "
    "re-synchronised with the client for that field, so one case can report several independent root causes. Exceptions logged by EventBus.emit "
    "and loop errors are violations. Non-trivial = some (room|user, field) is written by >=2 different message "
    "kinds in the sequence (granted then revoked / listed, joined then left, ...); distinct = distinct sequence of "
    "(message kind, room)."
)
ASSUMPTIONS = [
    "messages are processed strictly in arrival order and 5 ms of virtual time is enough to process one message",
    "status values are the three server values 0..2; names are ASCII; one ticker per user in a RoomTickers list "
    "(duplicates: last wins)",
    "RoomList pruning / 'me' clean-up and the `private` flag follow DESIGN Appendix A (private = not in the public "
    "list; a room first mentioned by a PrivateRoom* message starts private)",
    "user privileges fold: PrivilegedUsers replaces, AddPrivilegedUser adds, GetUserStatus sets the announced flag; "
    "the announcement is expected to survive the (documented) weak holding of User objects because the library "
    "keeps UserManager.privileged_users for exactly that purpose",
    "status/stats/slots/country of users that are not referenced are not compared (objects are weakly held); they "
    "are re-announced by the join message that makes the user referenced",
    "settings.users.blocked may be changed while the client runs, in place or by assignment (USAGE.rst: 'changes to "
    "this list will automatically be picked up'); the change is effective for the next message (5 ms later)",
    "the logged-in user is the session user ('me') until the next login: editing settings.credentials.username while "
    "logged in does not change who own membership / operator notifications and RoomList are about",
    "server-derived state does not survive the session (C16): after a connection loss + re-login rooms are empty and "
    "per-user status / stats / privileges are unknown / False again, also for User objects the application still "
    "holds from the old session (pinned on HEAD: the managers hand out fresh objects after the loss); block list and "
    "other settings persist; the re-login is always made as 'me' (credentials.username is set back first)",
    "statistics fold: the last announced value of each counter wins, 0 included (0 files / 0 uploads are real "
    "values; `None` only means never announced); an unsolicited AddUser reply is folded like the solicited one "
    "(status, stats, country when the user exists; nothing otherwise) and emits no public Room*/User* event",
    "GetUserPrivileges has no notification handler in the library (command reply only) and is not generated",
    "user_count of RoomList and ticker order are not part of the property",
    "an event for a message that changes nothing in the replica (e.g. ticker removal of an absent user) may or "
    "may not be emitted; if emitted it must carry the announced names",
]
BUDGET_S = {'quick': 120, 'thorough': 1500}

ROOMS = ['r0', 'r1']
USERS = ['me', 'u1', 'u2']
COUNTRIES = ['BE', 'US', 'DE']
TEXTS = ['hi', 'yo', 'zz', '']
STATUS = ['OFFLINE', 'AWAY', 'ONLINE']
F_PRIVATE, F_ROOM = 1, 2      # BlockingFlag.PRIVATE_MESSAGES / ROOM_MESSAGES

ROOM_OPS = ['leave', 'member_granted', 'member_revoked', 'op_granted', 'op_revoked']
ROOM_USER_OPS = ['user_left', 'grant_member', 'revoke_member', 'grant_op', 'revoke_op', 'ticker_removed']
ROOM_USERS_OPS = ['members', 'operators']
CHAT_ROOM_OPS = ['room_msg', 'public_msg']
CHAT_OPS = CHAT_ROOM_OPS + ['private_msg']
# not server messages: the application changes settings.users.blocked while the client runs (USAGE.rst "Blocking
# Users": in place; also by assigning a whole new dict)
BLOCK_OPS = ['block_set', 'block_del', 'block_assign']
# also not a server message: the application edits settings.credentials.username while logged in (e.g. to prepare
# the next login); the logged-in user stays 'me' until the next login, which is what the fold keeps using
CRED_NAMES = ['me', 'u1', 'u2', 'zz']
SETTINGS_OPS = BLOCK_OPS + ['cred_name']
# the server connection is lost (reset) and the application connects and logs in again (as 'me'): everything the
# server announced in the old session is gone, the fold restarts from the login baseline (at most 2 per case)
RELOGIN = 'relogin'
FLAG_CHOICES = [0, F_PRIVATE, F_PRIVATE, F_ROOM, F_ROOM, 3, 4, 60, 63]
OPS = (['room_list', 'join', 'user_joined', 'tickers', 'ticker_added', 'status', 'stats', 'add_user', 'add_priv',
        'priv_users',
        'check_priv', 'private_msg'] + ROOM_OPS + ROOM_USER_OPS + ROOM_USERS_OPS + CHAT_ROOM_OPS + SETTINGS_OPS + [RELOGIN])

EVENT_CLASSES = [
    'RoomListEvent', 'RoomMessageEvent', 'PublicMessageEvent', 'PrivateMessageEvent', 'RoomTickersEvent',
    'RoomTickerAddedEvent', 'RoomTickerRemovedEvent', 'RoomJoinedEvent', 'RoomLeftEvent',
    'RoomMembershipGrantedEvent', 'RoomMembershipRevokedEvent', 'RoomOperatorGrantedEvent',
    'RoomOperatorRevokedEvent', 'RoomOperatorsEvent', 'RoomMembersEvent', 'UserStatusUpdateEvent',
    'UserStatsUpdateEvent', 'PrivilegedUsersEvent', 'PrivilegedUserAddedEvent', 'PrivilegesUpdateEvent',
]


# ---------------------------------------------------------------------------
# strategies (only JSON documents leave this section)

_room = st.integers(0, 1)
_user = st.integers(0, 2)
_users = st.lists(_user, max_size=3, unique=True)
_text = st.integers(0, len(TEXTS) - 1)
# one digit per counter (avg_speed, uploads, files, folders); digit 0 IS the value 0 (see STAT_VALUES)
_stat = st.lists(st.sampled_from([0, 0, 1, 2, 3, 4]), min_size=4, max_size=4)


@st.composite
def _user_entry(draw, u=None):
    return {'u': draw(_user) if u is None else u, 'st': draw(st.integers(0, 2)), 's': draw(_stat),
            'sl': draw(st.integers(0, 3)), 'c': draw(st.integers(0, 2))}


@st.composite
def _op(draw, kind, room_bias, user_bias=None):
    r = room_bias if (room_bias is not None and draw(st.integers(0, 3)) > 0) else draw(_room)
    _user = st.integers(0, 2) if user_bias is None else st.sampled_from([user_bias, user_bias, 0, 1, 2])
    _users = st.lists(_user, max_size=3, unique=True)
    if kind == 'room_list':
        cats = [draw(st.sampled_from(['absent', 'public', 'public', 'owned', 'member', 'member+op', 'owned+op',
                                      'op-only'])) for _ in ROOMS]
        return {'op': kind,
                'public': [i for i, c in enumerate(cats) if c == 'public'],
                'owned': [i for i, c in enumerate(cats) if c.startswith('owned')],
                'member': [i for i, c in enumerate(cats) if c.startswith('member')],
                'operated': [i for i, c in enumerate(cats) if c.endswith('op') or c == 'op-only']}
    if kind == 'join':
        us = draw(_users)
        private = draw(st.booleans())
        return {'op': kind, 'r': r, 'users': [draw(_user_entry(u)) for u in us],
                'owner': draw(_user) if private else None, 'operators': draw(_users) if private else []}
    if kind == 'user_joined':
        e = draw(_user_entry(draw(_user)))
        e.update({'op': kind, 'r': r})
        return e
    if kind in ROOM_OPS:
        return {'op': kind, 'r': r}
    if kind in ROOM_USER_OPS:
        return {'op': kind, 'r': r, 'u': draw(_user)}
    if kind in ROOM_USERS_OPS:
        return {'op': kind, 'r': r, 'us': draw(_users)}
    if kind == 'tickers':
        return {'op': kind, 'r': r, 'ts': [[u, draw(_text)] for u in draw(_users)]}
    if kind == 'ticker_added':
        return {'op': kind, 'r': r, 'u': draw(_user), 't': draw(_text)}
    if kind in CHAT_ROOM_OPS:
        return {'op': kind, 'r': r, 'u': draw(_user), 't': draw(_text)}
    if kind == 'private_msg':
        return {'op': kind, 'u': draw(_user), 't': draw(_text), 'id': draw(st.integers(1, 9))}
    if kind == 'status':
        return {'op': kind, 'u': draw(_user), 'st': draw(st.integers(0, 2)), 'p': draw(st.booleans())}
    if kind == 'stats':
        return {'op': kind, 'u': draw(_user), 's': draw(_stat)}
    if kind == 'add_user':
        return {'op': kind, 'u': draw(_user), 'ex': draw(st.integers(0, 4)) > 0, 'st': draw(st.integers(0, 2)),
                's': draw(_stat), 'c': draw(st.integers(0, 2))}
    if kind == 'add_priv':
        return {'op': kind, 'u': draw(_user)}
    if kind == RELOGIN:
        return {'op': kind}
    if kind == 'cred_name':
        return {'op': kind, 'n': draw(st.sampled_from([1, 1, 2, 3, 3, 0]))}
    if kind == 'block_set':
        return {'op': kind, 'u': draw(_user), 'f': draw(st.sampled_from(FLAG_CHOICES))}
    if kind == 'block_del':
        return {'op': kind, 'u': draw(_user)}
    if kind == 'block_assign':
        return {'op': kind, 'fs': [draw(st.sampled_from([0] + FLAG_CHOICES)) for _ in USERS]}
    if kind == 'priv_users':
        return {'op': kind, 'us': draw(_users)}
    return {'op': 'check_priv', 'n': draw(st.integers(0, 5))}


LIFECYCLE = ['priv_users', 'priv_users', 'add_priv', 'status', 'status', 'stats', 'stats', 'add_user', 'user_joined',
             'user_joined',
             'user_left', 'user_left', 'join', 'leave', 'room_list']      # (weighted)
ROLES = ['members', 'operators', 'grant_member', 'revoke_member', 'member_granted', 'member_revoked', 'grant_op',
         'revoke_op', 'op_granted', 'op_revoked', 'room_list', 'join', 'cred_name', 'cred_name']


# chat of every kind interleaved with run-time changes of the block list (weighted towards messages)
BLOCKING = CHAT_OPS + CHAT_OPS + ['block_set', 'block_set', 'block_del', 'block_assign']
# what the old session announced about a user must not leak into the new one
ACROSS_OLD = ['status', 'status', 'add_priv', 'add_priv', 'priv_users', 'stats', 'add_user', 'join', 'user_joined',
              'op_granted', 'member_granted', 'ticker_added', 'room_list']
ACROSS_NEW = ['join', 'join', 'user_joined', 'user_joined', 'status', 'stats', 'add_user', 'user_left', 'priv_users',
              'op_revoked', 'ticker_removed', RELOGIN]
ACROSS_SESSIONS = ACROSS_OLD + ACROSS_NEW


@st.composite
def case_strategy(draw):
    mode = draw(st.integers(0, 7))
    if mode == 0:
        kinds = list(OPS)
    elif mode == 4:
        kinds = LIFECYCLE       # users becoming referenced / unreferenced around status and privilege updates
    elif mode == 5:
        kinds = ROLES           # private-room roles: grant / revoke / list compositions
    elif mode == 6:
        kinds = BLOCKING        # block / change flags / unblock after the sender's messages were already filtered
    elif mode == 7:
        kinds = ACROSS_SESSIONS
    else:
        kinds = draw(st.lists(st.sampled_from(OPS), min_size=2, max_size=7, unique=True))
        if draw(st.integers(0, 2)) > 0:
            kinds = kinds + ['join', 'user_joined']        # something that makes users referenced
    room_bias = draw(st.sampled_from([None, None, 0, 1]))
    user_bias = draw(st.sampled_from([None, None, 0, 1, 2]))
    if mode == 7:
        # scaffold: the old session announces things about a user (held or not by the application), the
        # connection is lost, and the new session references the same user again
        user_bias = draw(st.sampled_from([0, 1, 1, 2, 2]))
        pre = [draw(st.sampled_from(ACROSS_OLD)) for _ in range(draw(st.integers(1, 5)))]
        post = [draw(st.sampled_from(ACROSS_NEW)) for _ in range(draw(st.integers(1, 5)))]
        ops = [draw(_op(k, room_bias, user_bias)) for k in pre + [RELOGIN] + post]
    else:
        n = draw(st.integers(4 if mode >= 4 else 1, 12))
        ops = [draw(_op(draw(st.sampled_from(kinds)), room_bias, user_bias)) for _ in range(n)]
    blocked = [draw(st.sampled_from([0, 0, 0, F_PRIVATE, F_ROOM, 3, 4, 60, 63])) for _ in USERS]
    # the application keeps (strong references to) the User objects it is handed in events, e.g. in a roster;
    # normally the harness holds none (users are weakly held by the library)
    hold = draw(st.sampled_from([True, True, False] if mode == 7 else [True, False, False, False]))
    return {'blocked': blocked, 'ops': ops, 'hold_users': hold}


# ---------------------------------------------------------------------------
# sanitising (run_case is total: the JSON shrinker may hand us anything)

def _i(v, n, default=0):
    if isinstance(v, bool):
        return int(v) % n
    if isinstance(v, int):
        return v % n
    return default


def _ilist(v, n, limit=3):
    out = []
    if isinstance(v, list):
        for x in v:
            if isinstance(x, int) and not isinstance(x, bool) and (x % n) not in out:
                out.append(x % n)
    return out[:limit]


def _sdigits(v):
    """Statistics operand -> four digits 0..4 (list form; a bare int is read base 5, as older replays have it)."""
    if isinstance(v, int) and not isinstance(v, bool):
        v = [(v % 625) // 5 ** k % 5 for k in range(4)]
    v = v if isinstance(v, list) else []
    return [_i(v[k] if k < len(v) else 0, 5) for k in range(4)]


def _entry(d):
    d = d if isinstance(d, dict) else {}
    return {'u': _i(d.get('u'), 3), 'st': _i(d.get('st'), 3), 's': _sdigits(d.get('s')), 'sl': _i(d.get('sl'), 100),
            'c': _i(d.get('c'), 3)}


def _sanitise(case):
    case = case if isinstance(case, dict) else {}
    b = case.get('blocked')
    b = b if isinstance(b, list) else []
    blocked = [_i(b[k] if k < len(b) else 0, 64) for k in range(3)]
    ops = []
    raw = case.get('ops')
    for d in (raw if isinstance(raw, list) else [])[:12]:
        if not isinstance(d, dict) or d.get('op') not in OPS:
            continue
        k = d['op']
        o = {'op': k}
        if k == RELOGIN and sum(1 for x in ops if x['op'] == RELOGIN) >= 2:
            continue
        if k == 'room_list':
            for f in ('public', 'owned', 'member', 'operated'):
                o[f] = _ilist(d.get(f), 2, 2)
        elif k == 'join':
            o['r'] = _i(d.get('r'), 2)
            seen, us = set(), []
            for e in (d.get('users') if isinstance(d.get('users'), list) else [])[:3]:
                e = _entry(e)
                if e['u'] not in seen:
                    seen.add(e['u'])
                    us.append(e)
            o['users'] = us
            ow = d.get('owner')
            o['owner'] = None if (ow is None or isinstance(ow, bool) or not isinstance(ow, int)) else ow % 3
            o['operators'] = _ilist(d.get('operators'), 3) if o['owner'] is not None else []
        elif k == 'user_joined':
            o.update(_entry(d))
            o['r'] = _i(d.get('r'), 2)
        elif k in ROOM_OPS:
            o['r'] = _i(d.get('r'), 2)
        elif k in ROOM_USER_OPS:
            o['r'], o['u'] = _i(d.get('r'), 2), _i(d.get('u'), 3)
        elif k in ROOM_USERS_OPS:
            o['r'], o['us'] = _i(d.get('r'), 2), _ilist(d.get('us'), 3)
        elif k == 'tickers':
            o['r'] = _i(d.get('r'), 2)
            ts = []
            for t in (d.get('ts') if isinstance(d.get('ts'), list) else [])[:4]:
                if isinstance(t, list) and len(t) == 2:
                    ts.append([_i(t[0], 3), _i(t[1], len(TEXTS))])
            o['ts'] = ts
        elif k == 'ticker_added' or k in CHAT_ROOM_OPS:
            o['r'], o['u'], o['t'] = _i(d.get('r'), 2), _i(d.get('u'), 3), _i(d.get('t'), len(TEXTS))
        elif k == 'private_msg':
            o['u'], o['t'], o['id'] = _i(d.get('u'), 3), _i(d.get('t'), len(TEXTS)), 1 + _i(d.get('id'), 1000)
        elif k == 'status':
            o['u'], o['st'], o['p'] = _i(d.get('u'), 3), _i(d.get('st'), 3), bool(d.get('p')) if isinstance(
                d.get('p'), (bool, int)) else False
        elif k == 'stats':
            o['u'], o['s'] = _i(d.get('u'), 3), _sdigits(d.get('s'))
        elif k == 'add_user':
            o['u'], o['ex'] = _i(d.get('u'), 3), bool(d.get('ex')) if isinstance(d.get('ex'), (bool, int)) else False
            o['st'], o['s'], o['c'] = _i(d.get('st'), 3), _sdigits(d.get('s')), _i(d.get('c'), 3)
        elif k == 'add_priv':
            o['u'] = _i(d.get('u'), 3)
        elif k == 'priv_users':
            o['us'] = _ilist(d.get('us'), 3)
        elif k == 'check_priv':
            o['n'] = _i(d.get('n'), 100000)
        elif k == 'cred_name':
            o['n'] = _i(d.get('n'), len(CRED_NAMES))
        elif k == 'block_set':
            o['u'], o['f'] = _i(d.get('u'), 3), _i(d.get('f'), 64)
        elif k == 'block_del':
            o['u'] = _i(d.get('u'), 3)
        elif k == 'block_assign':
            fs = d.get('fs') if isinstance(d.get('fs'), list) else []
            o['fs'] = [_i(fs[j] if j < len(fs) else 0, 64) for j in range(3)]
        ops.append(o)
    return blocked, ops, bool(case.get('hold_users')) if isinstance(case.get('hold_users'), (bool, int)) else False


# value of each counter per digit: digit 0 is a real 0 ("shares nothing", "no uploads yet"), the other values are
# distinct across the four counters so that a swapped field is visible; the last one is close to the uint32 limit
STAT_VALUES = (
    (0, 101, 102, 15000, 4000000001),          # avg_speed
    (0, 2001, 2002, 250000, 2 ** 40 + 3),      # uploads (uint64)
    (0, 30001, 30002, 350000, 4000000003),     # shared_file_count
    (0, 400001, 400002, 450000, 4000000004),   # shared_folder_count
)


def _stats(s):
    return tuple(STAT_VALUES[f][s[f]] for f in range(4))


# ---------------------------------------------------------------------------
# building the real messages

def _build(o):
    from aioslsk.protocol import messages as M
    from aioslsk.protocol.primitives import RoomTicker, UserStats
    k = o['op']
    R = lambda: ROOMS[o['r']]      # noqa: E731
    U = lambda: USERS[o['u']]      # noqa: E731
    if k == 'room_list':
        pub, own, mem, opd = ([ROOMS[i] for i in o[f]] for f in ('public', 'owned', 'member', 'operated'))
        return M.RoomList.Response(
            rooms=pub, rooms_user_count=[3 + i for i in range(len(pub))],
            rooms_private_owned=own, rooms_private_owned_user_count=[5 + i for i in range(len(own))],
            rooms_private=mem, rooms_private_user_count=[7 + i for i in range(len(mem))],
            rooms_private_operated=opd)
    if k == 'join':
        us = o['users']
        return M.JoinRoom.Response(
            room=R(), users=[USERS[e['u']] for e in us], users_status=[e['st'] for e in us],
            users_stats=[UserStats(*_stats(e['s'])) for e in us], users_slots_free=[e['sl'] for e in us],
            users_countries=[COUNTRIES[e['c']] for e in us],
            owner=None if o['owner'] is None else USERS[o['owner']],
            operators=None if o['owner'] is None else [USERS[i] for i in o['operators']])
    if k == 'leave':
        return M.LeaveRoom.Response(R())
    if k == 'user_joined':
        return M.UserJoinedRoom.Response(R(), U(), o['st'], UserStats(*_stats(o['s'])), o['sl'], COUNTRIES[o['c']])
    if k == 'user_left':
        return M.UserLeftRoom.Response(R(), U())
    if k == 'members':
        return M.PrivateRoomMembers.Response(R(), [USERS[i] for i in o['us']])
    if k == 'operators':
        return M.PrivateRoomOperators.Response(R(), [USERS[i] for i in o['us']])
    if k == 'grant_member':
        return M.PrivateRoomGrantMembership.Response(R(), U())
    if k == 'revoke_member':
        return M.PrivateRoomRevokeMembership.Response(R(), U())
    if k == 'member_granted':
        return M.PrivateRoomMembershipGranted.Response(R())
    if k == 'member_revoked':
        return M.PrivateRoomMembershipRevoked.Response(R())
    if k == 'grant_op':
        return M.PrivateRoomGrantOperator.Response(R(), U())
    if k == 'revoke_op':
        return M.PrivateRoomRevokeOperator.Response(R(), U())
    if k == 'op_granted':
        return M.PrivateRoomOperatorGranted.Response(R())
    if k == 'op_revoked':
        return M.PrivateRoomOperatorRevoked.Response(R())
    if k == 'tickers':
        return M.RoomTickers.Response(R(), [RoomTicker(USERS[u], TEXTS[t]) for u, t in o['ts']])
    if k == 'ticker_added':
        return M.RoomTickerAdded.Response(R(), U(), TEXTS[o['t']])
    if k == 'ticker_removed':
        return M.RoomTickerRemoved.Response(R(), U())
    if k == 'status':
        return M.GetUserStatus.Response(U(), o['st'], o['p'])
    if k == 'stats':
        return M.GetUserStats.Response(U(), UserStats(*_stats(o['s'])))
    if k == 'add_user':
        if not o['ex']:
            return M.AddUser.Response(U(), exists=False)
        return M.AddUser.Response(U(), exists=True, status=o['st'], user_stats=UserStats(*_stats(o['s'])),
                                  country_code=COUNTRIES[o['c']])
    if k == 'add_priv':
        return M.AddPrivilegedUser.Response(U())
    if k == 'priv_users':
        return M.PrivilegedUsers.Response([USERS[i] for i in o['us']])
    if k == 'check_priv':
        return M.CheckPrivileges.Response(o['n'])
    if k == 'room_msg':
        return M.RoomChatMessage.Response(R(), U(), TEXTS[o['t']])
    if k == 'public_msg':
        return M.PublicChatMessage.Response(R(), U(), TEXTS[o['t']])
    return M.PrivateChatMessage.Response(o['id'], 1234, U(), TEXTS[o['t']], False)


# ---------------------------------------------------------------------------
# the replica (hand-written fold; DESIGN Appendix A)

ROOM_FIELDS = ('joined', 'users', 'owner', 'members', 'operators', 'tickers', 'private')
USER_FIELDS = ('status', 'stats', 'slots_free', 'country', 'privileged')


def _new_room(private=False):
    return {'joined': False, 'users': set(), 'owner': None, 'members': set(), 'operators': set(), 'tickers': {},
            'private': private}


def _room_view(room):
    """Canonical comparable view of a replica room (or of nothing)."""
    room = room if room is not None else _new_room()
    return {'joined': room['joined'], 'users': sorted(room['users']), 'owner': room['owner'],
            'members': sorted(room['members']), 'operators': sorted(room['operators']),
            'tickers': sorted(room['tickers'].items()), 'private': room['private']}


class Replica:
    def __init__(self, blocked, me_view):
        self.rooms = {}
        self.unknown_view = {'status': 'UNKNOWN', 'stats': (None, None, None, None), 'slots_free': None,
                             'country': None, 'privileged': False}
        self.login_view = dict(me_view)     # the own user right after a login (status, AddUser reply of the sim server)
        self.users = {n: dict(self.unknown_view) for n in USERS}
        self.users['me'] = dict(me_view)
        self.sessions = 1
        self.src = {n: {f: 'initial' for f in USER_FIELDS} for n in USERS}
        self.blocked = dict(zip(USERS, blocked))
        self.configured_name = 'me'
        self.time_left = None

    def room(self, name, private=False):
        if name not in self.rooms:
            self.rooms[name] = _new_room(private)
        return self.rooms[name]

    def _set_user(self, name, kind, **fields):
        for f, v in fields.items():
            self.users[name][f] = v
            self.src[name][f] = kind

    def apply(self, o):
        """Fold one notification. Returns (expected events, written (entity, field) pairs, forbidden?)."""
        k = o['op']
        me = 'me'
        ev, writes = [], []
        rn = ROOMS[o['r']] if 'r' in o else None
        un = USERS[o['u']] if 'u' in o else None

        def w(entity, *fields):
            writes.extend((entity, f) for f in fields)

        if k == 'room_list':
            pub, own, mem, opd = ([ROOMS[i] for i in o[f]] for f in ('public', 'owned', 'member', 'operated'))
            for n in pub:
                self.room(n, False)
            for n in own:
                self.room(n, True)['owner'] = me
            for n in mem:
                self.room(n, True)['members'].add(me)
            for n in opd:
                self.room(n, True)['operators'].add(me)
            keep = set(pub) | set(own) | set(mem)
            for n in sorted(set(self.rooms) - keep):
                del self.rooms[n]
            for n, room in self.rooms.items():
                if n not in own and room['owner'] == me:
                    room['owner'] = None
                if n not in opd:
                    room['operators'].discard(me)
                if n not in mem:
                    room['members'].discard(me)
                room['private'] = n not in pub
            for n in ROOMS:
                w(n, 'joined', 'users', 'owner', 'members', 'operators', 'tickers', 'private')
            ev.append(('RoomListEvent', None, None, sorted(keep)))
        elif k == 'join':
            room = self.room(rn)
            room['joined'] = True
            room['private'] = o['owner'] is not None
            room['users'] = {USERS[e['u']] for e in o['users']}           # lists replace
            room['owner'] = None if o['owner'] is None else USERS[o['owner']]
            room['operators'] = {USERS[i] for i in o['operators']}
            for e in o['users']:
                n = USERS[e['u']]
                self._set_user(n, k, status=STATUS[e['st']], stats=_stats(e['s']), slots_free=e['sl'],
                               country=COUNTRIES[e['c']])
                w(n, 'status', 'stats')
            w(rn, 'joined', 'users', 'owner', 'operators', 'private')
            ev.append(('RoomJoinedEvent', rn, None, None))
        elif k == 'leave':
            room = self.room(rn)
            room['joined'] = False
            room['users'] = set()
            w(rn, 'joined', 'users')
            ev.append(('RoomLeftEvent', rn, None, None))
        elif k == 'user_joined':
            self.room(rn)['users'].add(un)
            self._set_user(un, k, status=STATUS[o['st']], stats=_stats(o['s']), slots_free=o['sl'],
                           country=COUNTRIES[o['c']])
            w(rn, 'users')
            w(un, 'status', 'stats')
            ev.append(('RoomJoinedEvent', rn, un, None))
        elif k == 'user_left':
            self.room(rn)['users'].discard(un)
            w(rn, 'users')
            ev.append(('RoomLeftEvent', rn, un, None))
        elif k == 'members':
            self.room(rn, True)['members'] = {USERS[i] for i in o['us']}
            w(rn, 'members')
            ev.append(('RoomMembersEvent', rn, None, sorted(USERS[i] for i in o['us'])))
        elif k == 'operators':
            self.room(rn, True)['operators'] = {USERS[i] for i in o['us']}
            w(rn, 'operators')
            ev.append(('RoomOperatorsEvent', rn, None, sorted(USERS[i] for i in o['us'])))
        elif k in ('grant_member', 'member_granted'):
            who = un if k == 'grant_member' else me
            self.room(rn, True)['members'].add(who)
            w(rn, 'members')
            ev.append(('RoomMembershipGrantedEvent', rn, un, None))
        elif k in ('revoke_member', 'member_revoked'):
            who = un if k == 'revoke_member' else me
            room = self.room(rn, True)
            room['members'].discard(who)
            room['operators'].discard(who)          # losing membership ends the operator role
            w(rn, 'members', 'operators')
            ev.append(('RoomMembershipRevokedEvent', rn, un, None))
        elif k in ('grant_op', 'op_granted'):
            who = un if k == 'grant_op' else me
            self.room(rn, True)['operators'].add(who)
            w(rn, 'operators')
            ev.append(('RoomOperatorGrantedEvent', rn, un, None))
        elif k in ('revoke_op', 'op_revoked'):
            who = un if k == 'revoke_op' else me
            self.room(rn, True)['operators'].discard(who)
            w(rn, 'operators')
            ev.append(('RoomOperatorRevokedEvent', rn, un, None))
        elif k == 'tickers':
            t = {}
            for u, txt in o['ts']:
                t[USERS[u]] = TEXTS[txt]
            self.room(rn)['tickers'] = t
            w(rn, 'tickers')
            ev.append(('RoomTickersEvent', rn, None, sorted(t.items())))
        elif k == 'ticker_added':
            self.room(rn)['tickers'][un] = TEXTS[o['t']]
            w(rn, 'tickers')
            ev.append(('RoomTickerAddedEvent', rn, un, TEXTS[o['t']]))
        elif k == 'ticker_removed':
            self.room(rn)['tickers'].pop(un, None)
            w(rn, 'tickers')
            ev.append(('RoomTickerRemovedEvent', rn, un, None))
        elif k == 'status':
            self._set_user(un, k, status=STATUS[o['st']], privileged=o['p'])
            w(un, 'status', 'privileged')
            ev.append(('UserStatusUpdateEvent', None, un, [STATUS[o['st']], o['p'], un]))
        elif k == 'stats':
            self._set_user(un, k, stats=_stats(o['s']))
            w(un, 'stats')
            ev.append(('UserStatsUpdateEvent', None, un, list(_stats(o['s'])) + [un]))
        elif k == 'add_user':
            # reply/notification about a watched user: existing users get status, stats and country; no public event
            if o['ex']:
                self._set_user(un, k, status=STATUS[o['st']], stats=_stats(o['s']), country=COUNTRIES[o['c']])
                w(un, 'status', 'stats')
        elif k == 'add_priv':
            self._set_user(un, k, privileged=True)
            w(un, 'privileged')
            ev.append(('PrivilegedUserAddedEvent', None, un, None))
        elif k == 'priv_users':
            names = [USERS[i] for i in o['us']]
            for n in USERS:
                self._set_user(n, k, privileged=n in names)
                w(n, 'privileged')
            ev.append(('PrivilegedUsersEvent', None, None, sorted(names)))
        elif k == 'check_priv':
            self.time_left = o['n']
            ev.append(('PrivilegesUpdateEvent', None, None, o['n']))
        elif k == RELOGIN:
            # server-derived state does not survive the session: rooms, per-user status / stats / privileges
            self.rooms = {}
            for n in USERS:
                self.users[n] = dict(self.login_view if n == 'me' else self.unknown_view)
                self.src[n] = {f: 'initial' for f in USER_FIELDS}
                w(n, 'status', 'stats', 'privileged')
            for n in ROOMS:
                w(n, 'joined', 'users', 'owner', 'members', 'operators', 'tickers', 'private')
            self.time_left = None
            self.configured_name = 'me'        # the harness logs in as 'me' again
            self.sessions += 1
        elif k == 'cred_name':
            self.configured_name = CRED_NAMES[o['n']]      # nothing else: the session user is still 'me'
        elif k == 'block_set':
            self.blocked[un] = o['f']
            w(un, 'blocked')
        elif k == 'block_del':
            self.blocked[un] = 0
            w(un, 'blocked')
        elif k == 'block_assign':
            self.blocked = dict(zip(USERS, o['fs']))
            for n in USERS:
                w(n, 'blocked')
        elif k == 'room_msg':
            self.room(rn)
            if not self.blocked[un] & F_ROOM:
                ev.append(('RoomMessageEvent', rn, un, TEXTS[o['t']]))
        elif k == 'public_msg':
            self.room(rn)
            if not self.blocked[un] & F_ROOM:
                ev.append(('PublicMessageEvent', rn, un, TEXTS[o['t']]))
        elif k == 'private_msg':
            if not self.blocked[un] & F_PRIVATE:
                ev.append(('PrivateMessageEvent', None, un, [TEXTS[o['t']], o['id']]))
        return ev, writes


# ---------------------------------------------------------------------------
# observation of the real client (names and plain values only: no User object survives a call)

def _nm(x):
    return getattr(x, 'name', None)


def _user_view(u):
    return {'status': getattr(u.status, 'name', repr(u.status)), 'privileged': u.privileged,
            'stats': (u.avg_speed, u.uploads, u.shared_file_count, u.shared_folder_count),
            'slots_free': u.slots_free, 'country': u.country}


def _norm_event(e):
    n = type(e).__name__
    if n == 'RoomListEvent':
        return (n, None, None, sorted(_nm(r) for r in e.rooms))
    if n == 'RoomMessageEvent':
        return (n, _nm(e.message.room), _nm(e.message.user), e.message.message)
    if n == 'PublicMessageEvent':
        return (n, _nm(e.room), _nm(e.user), e.message)
    if n == 'PrivateMessageEvent':
        return (n, None, _nm(e.message.user), [e.message.message, e.message.id])
    if n == 'RoomTickersEvent':
        return (n, _nm(e.room), None, sorted(dict(e.tickers).items()))
    if n == 'RoomTickerAddedEvent':
        return (n, _nm(e.room), _nm(e.user), e.ticker)
    if n == 'RoomTickerRemovedEvent':
        return (n, _nm(e.room), _nm(e.user), None)
    if n in ('RoomJoinedEvent', 'RoomLeftEvent'):
        return (n, _nm(e.room), _nm(e.user), None)
    if n in ('RoomMembershipGrantedEvent', 'RoomMembershipRevokedEvent', 'RoomOperatorGrantedEvent',
             'RoomOperatorRevokedEvent'):
        return (n, _nm(e.room), _nm(e.member), None)
    if n == 'RoomOperatorsEvent':
        return (n, _nm(e.room), None, sorted(_nm(u) for u in e.operators))
    if n == 'RoomMembersEvent':
        return (n, _nm(e.room), None, sorted(_nm(u) for u in e.members))
    if n == 'UserStatusUpdateEvent':
        return (n, None, _nm(e.current), [getattr(e.current.status, 'name', None), e.current.privileged,
                                          _nm(e.before)])
    if n == 'UserStatsUpdateEvent':
        c = e.current
        return (n, None, _nm(c), [c.avg_speed, c.uploads, c.shared_file_count, c.shared_folder_count, _nm(e.before)])
    if n == 'PrivilegedUsersEvent':
        return (n, None, None, sorted(_nm(u) for u in e.users))
    if n == 'PrivilegedUserAddedEvent':
        return (n, None, _nm(e.user), None)
    if n == 'PrivilegesUpdateEvent':
        return (n, None, None, e.time_left)
    return (n, None, None, None)


def _users_of_event(e):
    out = []
    for attr in ('user', 'member', 'current', 'users', 'operators', 'members'):
        v = getattr(e, attr, None)
        out.extend(v if isinstance(v, list) else ([] if v is None else [v]))
    m = getattr(e, 'message', None)
    if getattr(m, 'user', None) is not None:
        out.append(m.user)
    return [u for u in out if type(u).__name__ == 'User']


class _Recorder:
    """Event listener that keeps plain tuples only (a stored event would keep User objects alive) - unless the case
    says ``hold_users``: then it behaves like an application roster and keeps every User object it is handed."""

    def __init__(self, hold=False):
        self.items = []
        self.hold = hold
        self.roster = []

    async def on_event(self, event):
        if self.hold:
            try:
                self.roster.extend(_users_of_event(event))
            except Exception:
                pass
        try:
            self.items.append(_norm_event(event))
        except Exception as exc:       # malformed event object: shows up as a payload mismatch
            self.items.append((type(event).__name__, None, None, 'unreadable: %r' % (exc,)))

    def drain(self):
        out, self.items = self.items, []
        return out


class _LogProxy:
    """Stands in for aioslsk.events.logger: EventBus.emit swallows listener exceptions into logger.exception."""

    def __init__(self, real, sink):
        self._real, self._sink = real, sink

    def exception(self, msg, *args, **kw):
        et, ev, _ = sys.exc_info()
        try:
            text = (msg % args) if args else str(msg)
        except Exception:
            text = str(msg)
        self._sink.append((et.__name__ if et else 'Exception', repr(ev)[:200], text[:300]))

    def __getattr__(self, name):
        return getattr(self._real, name)


def _apply_settings_op(settings, o):
    """What an application does to its settings while the client runs: (un)block a user, edit the username."""
    from aioslsk.user.model import BlockingFlag
    k = o['op']
    if k == 'cred_name':
        settings.credentials.username = CRED_NAMES[o['n']]
    elif k == 'block_set':
        settings.users.blocked[USERS[o['u']]] = BlockingFlag(o['f'])            # in place (add / change flags)
    elif k == 'block_del':
        if USERS[o['u']] in settings.users.blocked:
            del settings.users.blocked[USERS[o['u']]]                           # in place (unblock)
    else:
        settings.users.blocked = {USERS[j]: BlockingFlag(f) for j, f in enumerate(o['fs']) if f}   # whole new dict


def _observe(client):
    """-> ({room name: view}, {user name: [views]}, privileges_time_left) using fresh reads only."""
    rooms, users = {}, {}
    for name, room in list(client.rooms.rooms.items()):
        rooms[name] = {'joined': room.joined, 'users': sorted(_nm(u) for u in room.users), 'owner': room.owner,
                       'members': sorted(room.members), 'operators': sorted(room.operators),
                       'tickers': sorted(dict(room.tickers).items()), 'private': room.private}
        for u in room.users:
            users.setdefault(u.name, []).append(_user_view(u))
    known = client.users.users          # a plain dict copy of the weak table
    for name in sorted(set(users) | {'me'}):
        u = known.get(name)
        if u is not None:
            users.setdefault(name, []).append(_user_view(u))
        u = None
    known = None
    session = client.session
    return rooms, users, (session.privileges_time_left if session is not None else None)


# ---------------------------------------------------------------------------

def run_case(case) -> CaseResult:
    res = CaseResult()
    blocked, ops, hold_users = _sanitise(case)
    if not ops:
        return res

    violations = []     # (kind, detail) in discovery order
    swallowed = []
    stale_before_join = [False]
    recreated = [False]

    def violate(kind, detail):
        if all(kind != k for k, _ in violations):
            violations.append((kind, detail))

    async def main(world: simworld.World):
        import aioslsk.events as ev_mod
        from aioslsk.user.model import BlockingFlag
        settings = simworld.mk_settings('me')
        settings.users.blocked = {USERS[i]: BlockingFlag(f) for i, f in enumerate(blocked) if f}
        real_logger = ev_mod.logger
        ev_mod.logger = _LogProxy(real_logger, swallowed)
        try:
            client = await world.start_client(settings)
            await asyncio.sleep(0.05)
            rec = _Recorder(hold_users)
            for cname in EVENT_CLASSES:
                client.events.register(getattr(ev_mod, cname), rec.on_event)
            _, users0, _ = _observe(client)
            replica = Replica(blocked, users0['me'][0])
            swallowed.clear()
            seen_users = set()
            alive_prev = {}
            block_changed = False
            relogged = False
            for step, o in enumerate(ops):
                k = o['op']
                if k == 'join':
                    cur = replica.rooms.get(ROOMS[o['r']])
                    if cur is not None and cur['users'] - {USERS[e['u']] for e in o['users']}:
                        stale_before_join[0] = True
                before = {n: _room_view(replica.rooms.get(n)) for n in ROOMS}
                expected, _ = replica.apply(o)
                noop = all(before[n] == _room_view(replica.rooms.get(n)) for n in ROOMS)
                block_now = dict(replica.blocked)      # the block list as it is when the message is processed
                if k in SETTINGS_OPS:
                    _apply_settings_op(settings, o)
                    block_changed = block_changed or k in BLOCK_OPS
                elif k == RELOGIN:
                    world.server.close_session(kind='reset')
                    await asyncio.sleep(0.02)
                    lost = client.session is None
                    settings.credentials.username = 'me'
                    await client.network.connect_server()
                    await client.login()
                    await asyncio.sleep(0.05)
                    rec.drain()                 # login chatter (PrivilegesUpdateEvent of the CheckPrivileges reply)
                    alive_prev = {}
                    relogged = True
                    if not lost:
                        violate('C19/relogin:session-survived-connection-loss', f'step {step}: client.session was '
                                                                                 f'still set 20 ms after the reset')
                else:
                    world.server.send(_build(o))
                await asyncio.sleep(0.005)
                where = f'step {step} {o}'
                # a filter that ignores run-time changes of the list is its own root cause
                rt = ':block-list-changed-at-runtime' if (block_changed and k in CHAT_OPS) else ''
                # views keyed on the configured instead of the logged-in name are their own root cause, too
                cn = ':configured-username-changed' if replica.configured_name != 'me' else ''

                # ---- events ------------------------------------------------
                got = rec.drain()
                chat = k in CHAT_OPS
                if not expected:
                    if got and chat:
                        violate(f'C19/event:blocked-sender-reported:{k}{rt}',
                                f'{where}: sender blocked with flags {block_now[USERS[o["u"]]]} (block list now '
                                f'{block_now}, at start {blocked}) but got {got}')
                    elif got:
                        violate(f'C19/event:unexpected:{k}:{got[0][0]}', f'{where}: expected no event, got {got}')
                elif not got:
                    optional = noop and k in ('user_left', 'ticker_removed', 'revoke_member', 'member_revoked',
                                              'revoke_op', 'op_revoked', 'grant_member', 'member_granted',
                                              'grant_op', 'op_granted')
                    if not optional:
                        violate(f'C19/event:missing:{k}{rt}', f'{where}: expected {expected}, got nothing'
                                + (f' (block list now {block_now}, at start {blocked})' if chat else ''))
                else:
                    exp = expected[0]
                    if len(got) > 1:
                        violate(f'C19/event:extra:{k}', f'{where}: expected {expected}, got {got}')
                    g = got[0]
                    if g[0] != exp[0]:
                        violate(f'C19/event:wrong-class:{k}:{g[0]}', f'{where}: expected {exp}, got {g}')
                    elif g[1] != exp[1]:
                        violate(f'C19/event:wrong-room:{k}', f'{where}: expected {exp}, got {g}')
                    elif g[2] != exp[2]:
                        violate(f'C19/event:wrong-user:{k}', f'{where}: expected {exp}, got {g}')
                    elif g[3] != exp[3]:
                        violate(f'C19/event:wrong-payload:{k}', f'{where}: expected {exp}, got {g}')

                # ---- views -------------------------------------------------
                rooms, users, time_left = _observe(client)
                for n in ROOMS:
                    want = _room_view(replica.rooms.get(n))
                    have = rooms.get(n) or _room_view(None)
                    for f in ROOM_FIELDS:
                        if want[f] != have[f]:
                            violate(f'C19/room-view:{f}:after={k}{cn}' if k != RELOGIN else
                                    f'C19/room-view:{f}:survived-relogin',
                                    f'{where}: room {n} {f}: client has {have[f]!r}, the announcements imply '
                                    f'{want[f]!r} (room in client: {rooms.get(n)})')
                            # re-synchronise so that the divergence is reported once, at its origin
                            r = replica.room(n)
                            v = have[f]
                            r[f] = set(v) if f in ('users', 'members', 'operators') else (
                                dict(v) if f == 'tickers' else v)
                    # views agree now; align mere presence (an absent room equals a room in its initial state)
                    if n not in rooms and n in replica.rooms and _room_view(replica.rooms[n]) == _room_view(None):
                        del replica.rooms[n]
                    elif n in rooms and n not in replica.rooms:
                        replica.room(n)
                for n, views in sorted(users.items()):
                    if n not in USERS:
                        violate(f'C19/room-view:users:unknown-user:after={k}', f'{where}: user {n!r} in a room')
                        continue
                    if n != 'me' and n in seen_users and not alive_prev.get(n, False):
                        recreated[0] = True
                    seen_users.add(n)
                    want = replica.users[n]
                    created = n != 'me' and not alive_prev.get(n, False)    # object (re)created by this message
                    for v in views:
                        for f in USER_FIELDS:
                            if v[f] != want[f]:
                                src = replica.src[n][f]
                                if relogged and src == 'initial':
                                    # nothing in this session announced it: a left-over of the previous session
                                    kind = f'C19/user-view:{f}:survived-relogin:' + (
                                        'own-user' if n == 'me' else 'other-user')
                                elif f == 'privileged' and created and src != k:
                                    # root cause is the handler that took the announcement, not this message
                                    kind = f'C19/user-view:privileged:not-remembered:announced-by={src}'
                                else:
                                    kind = f'C19/user-view:{f}:after={k}'
                                violate(kind, f'{where}: user {n} {f}: client has {v[f]!r}, the announcements imply '
                                              f'{want[f]!r} (last announced by a {src!r} message; user object '
                                              f'{"created by this message" if created else "already referenced"})')
                    for f in USER_FIELDS:
                        if views[-1][f] != want[f]:
                            want[f] = views[-1][f]
                alive_prev = {n: n in users for n in USERS}
                if replica.time_left is not None and time_left != replica.time_left:
                    violate(f'C19/privileges-time-left:after={k}', f'{where}: session has {time_left}, '
                                                                   f'announced {replica.time_left}')
                    replica.time_left = time_left
                for et, ev, msg in swallowed:
                    violate(f'C19/unexpected-exception:{et}@{k}', f'{where}: {ev} :: {msg}')
                swallowed.clear()
            await client.stop()
            rec = None
        finally:
            ev_mod.logger = real_logger
        return True

    _, loop_errors = simworld.run_world(main)
    for e in loop_errors:
        violate(f'C19/loop-error:{e["exc_type"]}', str(e)[:300])
        break
    for kind, detail in violations:
        res.violate(kind, detail)

    # ---- classification -----------------------------------------------------
    writers = {}
    rep = Replica(blocked, {'status': 'ONLINE', 'stats': (None,) * 4, 'slots_free': None, 'country': None,
                            'privileged': False})
    zero_first = zero_after_nonzero = False
    chat_labels = set()
    priv_old = set()
    if hold_users:
        chat_labels.add('hold-users')
    filtered_once = set()       # (user, flag bit) for which a message was already let through / dropped
    for o in ops:
        prev = {n: rep.users[n]['stats'] for n in USERS}
        if o['op'] == RELOGIN:
            chat_labels.add('relogin')
            priv_old |= {n for n in USERS if rep.users[n]['privileged']}
        if o['op'] in ('join', 'user_joined') and rep.sessions > 1:
            named = [USERS[e['u']] for e in o['users']] if o['op'] == 'join' else [USERS[o['u']]]
            if any(n in priv_old and not rep.users[n]['privileged'] for n in named):
                chat_labels.add('privileged-in-old-session-referenced-again-in-new-session'
                                + ('-held' if hold_users else ''))
        if rep.configured_name != 'me' and o['op'] in ('member_granted', 'member_revoked', 'op_granted',
                                                        'op_revoked', 'room_list'):
            chat_labels.add('own-role-message-after-configured-username-changed:' + (
                'to-name-in-history' if rep.configured_name in USERS else 'to-foreign-name'))
        if o['op'] in CHAT_OPS:
            bit = F_PRIVATE if o['op'] == 'private_msg' else F_ROOM
            un, kindname = USERS[o['u']], ('private' if bit == F_PRIVATE else 'room')
            now, at_start = bool(rep.blocked[un] & bit), bool(blocked[o['u']] & bit)
            chat_labels.add('chat-from-blocked-sender' if now else (
                'chat-from-sender-blocked-for-other-kind' if rep.blocked[un] else 'chat-from-unblocked-sender'))
            if now != at_start:
                chat_labels.add(('blocked' if now else 'unblocked') + '-at-runtime-then-%s-message' % kindname)
                if (un, bit) in filtered_once:
                    chat_labels.add('block-state-flipped-after-earlier-message-of-same-user-and-kind')
            filtered_once.add((un, bit))
        _, writes = rep.apply(o)
        for key in writes:
            writers.setdefault(key, set()).add(o['op'])
            if key[1] == 'stats':
                for was, now in zip(prev[key[0]], rep.users[key[0]]['stats']):
                    zero_first = zero_first or (now == 0 and was is None)
                    zero_after_nonzero = zero_after_nonzero or (now == 0 and bool(was))
    if zero_first:
        res.label('stats-counter-first-reported-as-0')
    if zero_after_nonzero:
        res.label('stats-counter-drops-to-0-for-known-user')
    res.nontrivial = any(len(v) >= 2 for v in writers.values())
    res.key = [[o['op'], o.get('r')] for o in ops]
    for k in sorted({o['op'] for o in ops}):
        res.label('op:' + k)
    res.label('len:%s' % ('1-3' if len(ops) <= 3 else '4-8' if len(ops) <= 8 else '9-12'))
    if any(o['op'] == 'join' and o['owner'] is not None for o in ops):
        res.label('join-private')
    if any(o['op'] == 'join' and o['owner'] is None for o in ops):
        res.label('join-public')
    if stale_before_join[0]:
        res.label('join-reply-with-stale-users-present')
    if recreated[0]:
        res.label('user-object-recreated')
    for lab in sorted(chat_labels):
        res.label(lab)
    if any(o['op'] in ('member_granted', 'member_revoked', 'op_granted', 'op_revoked') for o in ops):
        res.label('self-grant-or-revoke')
    if res.nontrivial:
        res.label('nontrivial')
    return res


def run_shard(ctx):
    n = 260 if ctx.tier == 'quick' else 11000
    ctx.explore(case_strategy(), n)


# one deterministic case per genuine-defect kind found on the pinned tree (regressions once fixed)
KNOWN_REPLAYS = {
    # regression: what the old session announced about users the application still holds does not leak into the
    # session after a connection loss + re-login
    'C19/user-view:survived-relogin': {
        'blocked': [0, 0, 0], 'hold_users': True, 'ops': [
            {'op': 'join', 'r': 0, 'users': [{'u': 0, 'st': 2, 's': [1, 1, 1, 1], 'sl': 1, 'c': 0},
                                             {'u': 1, 'st': 2, 's': [2, 2, 2, 2], 'sl': 1, 'c': 1}],
             'owner': 1, 'operators': [0]},
            {'op': 'status', 'u': 1, 'st': 1, 'p': True},
            {'op': 'add_priv', 'u': 2},
            {'op': 'relogin'},
            {'op': 'join', 'r': 0, 'users': [{'u': 0, 'st': 2, 's': [1, 1, 1, 1], 'sl': 1, 'c': 0},
                                             {'u': 1, 'st': 2, 's': [2, 2, 2, 2], 'sl': 1, 'c': 1}],
             'owner': None, 'operators': []},
            {'op': 'user_joined', 'r': 0, 'u': 2, 'st': 2, 's': [1, 0, 1, 0], 'sl': 1, 'c': 2},
            {'op': 'status', 'u': 0, 'st': 2, 'p': True},
            {'op': 'relogin'},
            {'op': 'user_joined', 'r': 1, 'u': 1, 'st': 0, 's': [0, 0, 0, 0], 'sl': 0, 'c': 0}]},
    # regression: own grants / revokes concern the logged-in user even after settings.credentials.username was edited
    'C19/room-view:configured-username-changed': {
        'blocked': [0, 0, 0], 'ops': [
            {'op': 'member_granted', 'r': 0},
            {'op': 'op_granted', 'r': 0},
            {'op': 'grant_member', 'r': 0, 'u': 1},
            {'op': 'cred_name', 'n': 1},
            {'op': 'op_revoked', 'r': 0},
            {'op': 'member_revoked', 'r': 0},
            {'op': 'member_granted', 'r': 1},
            {'op': 'op_granted', 'r': 1},
            {'op': 'cred_name', 'n': 3},
            {'op': 'room_list', 'public': [], 'owned': [0], 'member': [1], 'operated': [1]},
            {'op': 'op_revoked', 'r': 1},
            {'op': 'member_granted', 'r': 0}]},
    # regression: the block list is consulted as it is when the message arrives (in-place add / change / delete and
    # whole-dict assignment, room / public / private messages, after the sender was already filtered once)
    'C19/event:block-list-changed-at-runtime': {
        'blocked': [0, 0, 0], 'ops': [
            {'op': 'room_msg', 'r': 0, 'u': 1, 't': 0},
            {'op': 'block_set', 'u': 1, 'f': 2},
            {'op': 'room_msg', 'r': 0, 'u': 1, 't': 1},
            {'op': 'private_msg', 'u': 1, 't': 0, 'id': 1},
            {'op': 'block_set', 'u': 1, 'f': 3},
            {'op': 'private_msg', 'u': 1, 't': 1, 'id': 2},
            {'op': 'block_del', 'u': 1},
            {'op': 'room_msg', 'r': 0, 'u': 1, 't': 2},
            {'op': 'private_msg', 'u': 1, 't': 2, 'id': 3},
            {'op': 'block_assign', 'fs': [0, 2, 0]},
            {'op': 'public_msg', 'r': 1, 'u': 1, 't': 0}]},
    # regression: a counter announced as 0 is a value like any other (first report and drop to 0), every carrier
    'C19/user-view:stats:zero-is-a-value': {
        'blocked': [0, 0, 0], 'ops': [
            {'op': 'join', 'r': 0, 'users': [{'u': 0, 'st': 2, 's': [1, 1, 1, 1], 'sl': 1, 'c': 0},
                                             {'u': 1, 'st': 2, 's': [3, 3, 3, 3], 'sl': 1, 'c': 1}],
             'owner': None, 'operators': []},
            {'op': 'stats', 'u': 1, 's': [3, 3, 0, 0]},
            {'op': 'user_joined', 'r': 0, 'u': 2, 'st': 2, 's': [0, 0, 0, 0], 'sl': 0, 'c': 2},
            {'op': 'user_joined', 'r': 1, 'u': 1, 'st': 1, 's': [0, 3, 0, 0], 'sl': 0, 'c': 1},
            {'op': 'add_user', 'u': 0, 'ex': True, 'st': 2, 's': [2, 0, 2, 0], 'c': 0},
            {'op': 'join', 'r': 1, 'users': [{'u': 2, 'st': 2, 's': [4, 4, 4, 4], 'sl': 1, 'c': 0},
                                             {'u': 1, 'st': 2, 's': [0, 0, 1, 1], 'sl': 1, 'c': 1}],
             'owner': None, 'operators': []}]},
    'C19/room-view:operators:after=op_granted': {
        'blocked': [0, 0, 0], 'ops': [{'op': 'op_granted', 'r': 0}]},
    'C19/room-view:users:after=join': {
        'blocked': [0, 0, 0], 'ops': [
            {'op': 'join', 'r': 0, 'users': [{'u': 0, 'st': 2, 's': [1, 1, 1, 1], 'sl': 1, 'c': 0}], 'owner': None,
             'operators': []},
            {'op': 'leave', 'r': 0},
            {'op': 'user_joined', 'r': 0, 'u': 1, 'st': 2, 's': [2, 2, 0, 0], 'sl': 1, 'c': 1},
            {'op': 'join', 'r': 0, 'users': [{'u': 0, 'st': 2, 's': [1, 1, 1, 1], 'sl': 1, 'c': 0}], 'owner': None,
             'operators': []}]},
    'C19/user-view:privileged:not-remembered:announced-by=add_priv': {
        'blocked': [0, 0, 0], 'ops': [
            {'op': 'add_priv', 'u': 1},
            {'op': 'user_joined', 'r': 0, 'u': 1, 'st': 2, 's': [2, 2, 0, 0], 'sl': 1, 'c': 1}]},
    'C19/user-view:privileged:not-remembered:announced-by=status': {
        'blocked': [0, 0, 0], 'ops': [
            {'op': 'status', 'u': 1, 'st': 2, 'p': True},
            {'op': 'user_joined', 'r': 0, 'u': 1, 'st': 2, 's': [2, 2, 0, 0], 'sl': 1, 'c': 1}]},
}

MANIFEST_ENTRY = {
    'technique': 'property-based testing (Hypothesis, swarm-style generation of notification sequences) against a '
                 'real logged-in SoulSeekClient on a virtual-time loop with in-memory TCP; hand-written replica fold '
                 'as reference model, compared after every message',
    'level_text': 'Generated-sequence exploration: every notification is a real frame sent by the simulated server; '
                  'after each one RoomManager.rooms, the referenced User objects and the emitted Room*/User*/chat '
                  'events are compared with the replica; divergences are attributed to the message kind after which '
                  'they first appear.',
    'level_note': 'Trusted base: virtual loop, in-memory TCP, simulated server login, the replica in checks/c19.py '
                  '(Appendix A semantics). Sampled, not exhaustive: sequences <= 12 over 2 rooms x 3 users.',
}
