"""C20 — bandwidth limits are respected and never stall (DESIGN §3 C20)."""
from __future__ import annotations

import asyncio

from hypothesis import strategies as st

from vfw import simloop
from vfw.runner import CaseResult

PROPERTY = 'C20'
LEVEL = 'exploration'
RULE = (
    "Case = initial limit (KiB/s, 0 = unlimited, biased to 1, 2, 4, powers of two, 10000), direction, 1..4 consumers "
    "(real PeerConnection objects registered with a real Network, each running the take_tokens loop of "
    "send_file/receive_file) with run-length encoded gap sequences from {0, 10us, 1ms, 9.9ms, 10ms, 1s, 1000s}, and "
    "limit changes at generated virtual times, all on the virtual clock (so equal consecutive timestamps occur). "
    "Each limit change has a generated carrier, one of the documented ways of changing a limit at run time: "
    "Network.set_*_speed_limit(L); settings.network.limits.<field> = L followed by Network.load_speed_limits(); a "
    "new NetworkLimitSettings object assigned to settings.network.limits + load_speed_limits(); a new network "
    "section (model_copy(update={'limits': ...})) assigned to settings.network + load_speed_limits(). The limit of "
    "the other direction (settings only) is generated too. Up to two consumers are cancelled by the case (a transfer "
    "that is aborted / removed / whose connection is closed): either the first request, from the consumer's k-th "
    "request on, that is still pending after m ms (m from {0, 1, 5, 9.9, 10, 10.1, 15, 50, 500, ...}) or at an "
    "absolute time whatever the consumer is doing; the cancelled request is abandoned, the consumer optionally goes "
    "on with the rest of its plan after 0 / 10 / 500 ms (a new transfer over the same limiter). "
    "Oracle (the limit in force is what the case set last, whatever the carrier): for every pair of grant instants "
    "a<=b inside a period of finite limits, "
    "tokens granted in [a,b] <= integral of L*1024 over [a,b] + max L*1024 in the window; limit 0 grants without "
    "suspending; while a consumer waits (constant positive limit L) the limiter keeps granting: tokens granted to all consumers during the wait >= 0.4*L*1024*wait - 128*(consumers+1), and no single request (of a consumer that the case does not cancel at that request) waits longer than 120 s (the whole case requests at most 260 grants). Non-trivial = "
    "an idle period (>= 1 s) followed by a burst of >= 8 zero-gap takes, or a limit change while a consumer waits "
    "or holds tokens, or a consumer cancelled while it waits for tokens; distinct = distinct case document. "
    "Second tier (checks/c20_file.py): 1..3 real file connections of a listening Network move files with "
    "send_file/receive_file over the simulated network, limit changes with the same carriers, and transfer tasks "
    "that are cancelled (connection then closed, as TransferManager does) a generated time after their start while "
    "the others share the limiter; the same window bound on the bytes reported by the progress callback, every "
    "transfer that is not aborted by the case finishes within 200 s (<= 60 kB at >= 1 KiB/s), and within 1 s once "
    "the limit is 0."
)
ASSUMPTIONS = [
    "tokens granted by take_tokens bound the bytes moved (send_file sends exactly the granted chunk, receive_file "
    "reads at most the granted amount)",
    "time.monotonic in aioslsk.network.rate_limiter is the virtual loop clock",
    "at most 260 grants per case so that all windows are examined exhaustively",
    "ways of changing a limit at run time are taken from docs/source/USAGE.rst ('Setting Transfer Limits': "
    "network.set_upload_speed_limit(), or change the settings and call network.load_speed_limits(), whose docstring "
    "is '(Re)loads the speed limits from the settings'); assigning a whole section counts as changing the settings "
    "because every settings class, including Settings whose fields are all sections, is declared "
    "validate_assignment=True; a changed setting without one of the two calls is never expected to take effect",
    "a consumer / transfer is cancelled with Task.cancel() on the task that awaits take_tokens() / send_file() / "
    "receive_file() (what TransferManager.abort/remove do); a cancelled request is granted nothing, so it takes no "
    "part in the window or work-conservation arithmetic",
]
BUDGET_S = {'quick': 120, 'thorough': 1500}

GAPS = [0.0, 0.00001, 0.001, 0.0099, 0.01, 1.0, 1000.0]
MAX_GRANTS = 260

_limit = st.sampled_from([1, 1, 2, 2, 3, 4, 8, 16, 64, 1024, 10000]) | st.integers(1, 10000)
_limit0 = st.sampled_from([0]) | _limit


# how a run-time limit change is carried into the network (docs/source/USAGE.rst "Setting Transfer Limits": either
# network.set_*_speed_limit(), or change the settings and call network.load_speed_limits(); every settings class is
# declared validate_assignment=True, `Settings` itself has only sections as fields: assigning a section is a supported
# way of changing the settings)
CARRIERS = ['set', 'inplace+load', 'replace-limits+load', 'replace-network+load']
CANCEL_MS = [0, 1, 5, 9.9, 10, 10.1, 15, 50, 500, 1000, 1500, 3000]


@st.composite
def case_strategy(draw):
    consumers = draw(st.lists(
        st.lists(st.tuples(st.integers(0, len(GAPS) - 1), st.sampled_from([1, 1, 2, 3, 9, 10, 17, 18, 34, 40])),
                 min_size=1, max_size=6),
        min_size=1, max_size=4))
    changes = draw(st.lists(
        st.tuples(st.sampled_from([0.0, 0.001, 0.005, 0.02, 0.5, 1.0, 1.5, 3.0, 1001.0, 2000.5]), _limit0,
                  st.integers(0, len(CARRIERS) - 1)),
        max_size=3))
    # [consumer, take number (0: cancel at an absolute time), ms, resume after ms (-1: never)]
    cancels = draw(st.lists(
        st.tuples(st.integers(0, 3), st.sampled_from([0, 1, 1, 2, 3, 9, 10, 17, 18, 33]),
                  st.sampled_from(CANCEL_MS), st.sampled_from([-1, -1, 0, 10, 500])),
        max_size=2))
    case = {
        'limit': draw(_limit0),
        'upload': draw(st.booleans()),
        'consumers': [[list(x) for x in c] for c in consumers],
        'changes': [list(x) for x in changes],
        'start_delay': draw(st.sampled_from([0.0, 0.0, 0.5, 2.0])),
    }
    if cancels:
        case['cancels'] = [list(x) for x in cancels]
    other = draw(st.sampled_from([0, 0, 0, 1, 7, 10000]))
    if other:
        case['other'] = other
    return case


def _clamp_limit(v):
    try:
        v = int(v)
    except Exception:
        return 1
    return max(0, min(10000, v))


def run_case(case) -> CaseResult:
    res = CaseResult()
    if isinstance(case, dict) and case.get('t') == 'file':
        from checks import c20_file
        c20_file.run_file_case(case, res)
        return res
    from aioslsk.events import EventBus
    from aioslsk.network.connection import PeerConnection
    from aioslsk.network.network import Network
    from aioslsk.settings import CredentialsSettings, Settings

    limit0 = _clamp_limit(case.get('limit', 1))
    other0 = _clamp_limit(case.get('other', 0) or 0)     # limit of the direction that is not exercised
    upload = bool(case.get('upload', True))
    consumers = case.get('consumers') or []
    consumers = [c for c in consumers if isinstance(c, list)][:4]
    changes = []
    for ch in (case.get('changes') or [])[:3]:
        try:
            carrier = int(ch[2]) % len(CARRIERS) if len(ch) > 2 else 0
            changes.append((max(0.0, float(ch[0])), _clamp_limit(ch[1]), carrier))
        except Exception:
            continue
    changes.sort(key=lambda c: c[0])
    start_delay = max(0.0, float(case.get('start_delay', 0.0) or 0.0))

    # the take_tokens loop of each consumer as a flat list of "sleep before the request" values
    plans = []
    for plan in consumers:
        steps = []
        for item in plan[:6]:
            try:
                gap = GAPS[int(item[0]) % len(GAPS)]
                rep = max(1, min(40, int(item[1])))
            except Exception:
                continue
            for r in range(rep):
                steps.append(gap if (gap and (r == 0 or gap < 1.0)) else 0.0)
        plans.append(steps)

    # consumers that are cancelled (a transfer that is aborted / removed / whose connection is closed):
    # {consumer: (take_no, seconds, resume_after_seconds | None)}; take_no >= 1: the first request, from its
    # take_no-th request on, that is still pending after `seconds` is cancelled; take_no == 0: the consumer is
    # cancelled `seconds` after the start of the case whatever it is doing
    cancel_spec = {}
    for cn in (case.get('cancels') or [])[:3]:
        try:
            if not consumers:
                break
            ci = int(cn[0]) % len(consumers)
            take_no = max(0, min(240, int(cn[1])))
            secs = max(0.0, min(5000.0, float(cn[2]))) / 1000.0
            resume = float(cn[3]) if len(cn) > 3 else -1.0
            resume = None if resume < 0 else min(5000.0, resume) / 1000.0
        except Exception:
            continue
        cancel_spec.setdefault(ci, (take_no, secs, resume))

    grants = []      # (time, tokens, consumer)
    waits = []       # (consumer, start, end, limit_at_start, waiters_at_start)
    timeline = []    # (time, limit)  piecewise constant limit
    carriers_used = []
    cancelled = []   # (time, consumer, was waiting for tokens, other consumers waiting, resumed)
    flags = {'change_while_waiting': False, 'idle_burst': False, 'suspended_unlimited': False,
             'waiters_at_changes': 0}
    waiting = set()

    async def main(loop):
        from aioslsk.settings import NetworkLimitSettings
        settings = Settings(credentials=CredentialsSettings(username='me', password='pw'))
        mine, other = ('upload_speed_kbps', 'download_speed_kbps') if upload else \
            ('download_speed_kbps', 'upload_speed_kbps')
        setattr(settings.network.limits, mine, limit0)
        setattr(settings.network.limits, other, other0)
        network = Network(settings, EventBus())
        conns = []
        for i in range(len(consumers)):
            c = PeerConnection('1.2.3.%d' % i, 1000 + i, network, connection_type='F', username='u%d' % i)
            c.upload_rate_limiter = network._upload_rate_limiter
            c.download_rate_limiter = network._download_rate_limiter
            network.peer_connections.append(c)
            conns.append(c)
        t_start = loop.time()
        timeline.append((t_start, limit0))
        current = {'limit': limit0}
        total = {'n': 0}
        states = [{'i': 0, 'task': None, 'fired': False, 'started': False} for _ in consumers]

        def fire_cancel(idx):
            st_ = states[idx]
            if st_['fired'] or st_['task'] is None or st_['task'].done():
                return
            st_['fired'] = True
            st_['rec'] = [round(loop.time(), 6), idx, idx in waiting, len(waiting - {idx}), False]
            cancelled.append(st_['rec'])
            st_['task'].cancel()

        async def run_steps(idx, conn):
            st_ = states[idx]
            spec = cancel_spec.get(idx)
            if start_delay and not st_['started']:
                await asyncio.sleep(start_delay)
            st_['started'] = True
            steps = plans[idx]
            while st_['i'] < len(steps):
                if total['n'] >= MAX_GRANTS:
                    return
                k = st_['i']
                st_['i'] = k + 1
                if steps[k]:
                    await asyncio.sleep(steps[k])
                limiter = conn.upload_rate_limiter if upload else conn.download_rate_limiter
                t0 = loop.time()
                it0 = loop.iterations
                waiting.add(idx)
                lim_at = current['limit']
                nwait = len(waiting)
                handle = None
                if spec is not None and spec[0] >= 1 and k + 1 >= spec[0] and not st_['fired']:
                    handle = loop.call_later(spec[1], fire_cancel, idx)
                try:
                    tokens = await asyncio.wait_for(limiter.take_tokens(), 120.0 if lim_at else 1.0)
                except asyncio.TimeoutError:
                    flags.setdefault('stuck', []).append((idx, t0, lim_at))
                    return
                finally:
                    waiting.discard(idx)
                    if handle is not None:
                        handle.cancel()
                t1 = loop.time()
                total['n'] += 1
                grants.append((t1, tokens, idx))
                waits.append((idx, t0, t1, lim_at, nwait))
                if lim_at == 0 and current['limit'] == 0 and (t1 != t0 or loop.iterations != it0):
                    flags['suspended_unlimited'] = True

        async def consumer(idx, conn):
            st_ = states[idx]
            spec = cancel_spec.get(idx)
            if spec is not None and spec[0] == 0:
                loop.call_at(t_start + spec[1], fire_cancel, idx)
            while True:
                task = st_['task']
                await asyncio.wait([task])
                if not task.cancelled():
                    if task.exception() is not None:
                        raise task.exception()
                    return
                # cancelled by the case: the request in flight is abandoned; optionally the consumer goes on with
                # the rest of its plan later (a new transfer over the same limiter)
                if spec is None or spec[2] is None:
                    return
                st_['rec'][4] = True
                if spec[2]:
                    await asyncio.sleep(spec[2])
                st_['task'] = asyncio.ensure_future(run_steps(idx, conn))

        def apply_limit(lim, carrier):
            name = CARRIERS[carrier]
            if name == 'set':
                if upload:
                    network.set_upload_speed_limit(lim)
                else:
                    network.set_download_speed_limit(lim)
                return
            if name == 'inplace+load':
                setattr(settings.network.limits, mine, lim)
            elif name == 'replace-limits+load':
                settings.network.limits = NetworkLimitSettings(**{mine: lim, other: other0})
            else:
                settings.network = settings.network.model_copy(
                    update={'limits': NetworkLimitSettings(**{mine: lim, other: other0})})
            network.load_speed_limits()

        async def changer():
            for at, lim, carrier in changes:
                delay = t_start + at - loop.time()
                if delay > 0:
                    await asyncio.sleep(delay)
                if waiting:
                    flags['change_while_waiting'] = True
                    flags['waiters_at_changes'] += len(waiting)
                apply_limit(lim, carrier)
                carriers_used.append(CARRIERS[carrier])
                current['limit'] = lim
                timeline.append((loop.time(), lim))

        # order of the first loop iteration: the consumers run in index order, then the first limit change
        for i, c in enumerate(conns):
            states[i]['task'] = asyncio.ensure_future(run_steps(i, c))
        ch = asyncio.ensure_future(changer())
        tasks = [asyncio.ensure_future(consumer(i, c)) for i, c in enumerate(conns)]
        done, pending = await asyncio.wait(tasks, timeout=20000.0) if tasks else (set(), set())
        ch.cancel()
        for t in done:
            if t.exception() is not None:
                raise t.exception()
        return len(pending)

    try:
        stuck, errors = simloop.run_case_on_loop(main)
    except simloop.HarnessLivelock as exc:
        # the only polling code in a case is take_tokens(): on the unchanged tree a case needs < 100 000 loop
        # iterations (10 ms polls); millions of iterations mean a request for tokens that polls without ever returning
        res.violate('C20/take-tokens-never-returned:spinning',
                    f'{exc}: a request for tokens polled for ever in ever shorter sleeps without being granted '
                    f'(limit {case.get("limit")} KiB/s, grants so far {len(grants)})')
        return res
    if stuck or flags.get('stuck'):
        first = min([s_[1] for s_ in flags.get('stuck', [])] or [0.0])
        limited = [s_ for s_ in flags.get('stuck', []) if s_[2]] or bool(stuck)
        kind = 'C20/take-tokens-never-returned'
        if limited and any(c[2] for c in cancelled):
            # another consumer was cancelled while it waited for tokens (the request itself is never cancelled by
            # the case): a different cause than a request that starves on its own
            kind += ':after-cancelled-waiter'
        res.violate(kind,
                    f"consumers (consumer, start of the request, limit then) {flags.get('stuck')} did not get tokens "
                    f"within 120 s of virtual time (1 s when the limit was 0; at most {MAX_GRANTS} grants of 128 bytes "
                    f"are requested per case); first stuck request started at {first:.6f}; cancelled consumers (time, "
                    f"consumer, was waiting, others waiting, resumed) = {cancelled}; timeline={timeline} changes made "
                    f"by {carriers_used}")

    # ---- oracle -------------------------------------------------------
    grants.sort(key=lambda g: g[0])

    periods = []   # (start, end, limit) closed intervals; zero-length periods are kept
    for i, (at, lim) in enumerate(timeline):
        end = timeline[i + 1][0] if i + 1 < len(timeline) else float('inf')
        periods.append((at, end, lim))

    def integral_and_max(a, b):
        """(∫_a^b L*1024 dt, max L*1024 over [a,b]) or None if an unlimited instant lies in [a,b]."""
        total = 0.0
        mx = 0
        for start, end, lim in periods:
            if start > b or end < a:
                continue
            if lim == 0:
                return None
            lo, hi = max(a, start), min(b, end)
            if hi > lo:
                total += lim * 1024 * (hi - lo)
            mx = max(mx, lim)
        return total, mx * 1024

    n = len(grants)
    prefix = [0]
    for g in grants:
        prefix.append(prefix[-1] + g[1])
    simple = len(timeline) == 1
    worst = None
    if simple and timeline[0][1] != 0:
        L = timeline[0][1] * 1024
        # O(n): excess(a,b) = (G(b) - L t_b) - (G(a-1) - L t_a) - L
        best_a = None
        for b in range(n):
            va = prefix[b] - L * grants[b][0]
            if best_a is None or va < best_a[0]:
                best_a = (va, b)
            ex = (prefix[b + 1] - L * grants[b][0]) - best_a[0] - L
            if ex > 1e-6 and (worst is None or ex > worst[0]):
                worst = (ex, best_a[1], b)
    elif not simple:
        for a in range(n):
            ta = grants[a][0]
            for b in range(a, n):
                tb = grants[b][0]
                # include every grant at the same instant as b
                if b + 1 < n and grants[b + 1][0] == tb:
                    continue
                im = integral_and_max(ta, tb)
                if im is None:
                    break
                got = prefix[b + 1] - prefix[a]
                ex = got - im[0] - im[1]
                if ex > 1e-6 and (worst is None or ex > worst[0]):
                    worst = (ex, a, b)
    if worst is not None:
        ex, a, b = worst
        n_changes = len(timeline) - 1
        if simple:
            kind = 'C20/window-excess:constant-limit'
        elif ex <= 128 * n_changes + 1e-6:
            # full bucket copied on a limit change: refill() leaves last_refill untouched while the bucket is
            # full (pinned by a unit test), so the idle time is granted once more after the first take:
            # <= 128 bytes per limit change
            kind = 'C20/window-excess:limit-change:le128'
        elif flags['waiters_at_changes'] and ex <= 128 * (n_changes + flags['waiters_at_changes']) + 1e-6:
            # in addition a consumer was polling the replaced limiter object when the limit was set: old and new
            # bucket both accrue until it is served (<= 128 bytes per such consumer)
            kind = 'C20/window-excess:limit-change-with-waiter'
        else:
            kind = 'C20/window-excess:limit-change:gt128'
        res.violate(kind, f'excess={ex:.1f} bytes in window [{grants[a][0]:.6f},{grants[b][0]:.6f}] '
                          f'granted={prefix[b + 1] - prefix[a]} timeline={timeline} changes made by {carriers_used}')
    if flags['suspended_unlimited']:
        res.violate('C20/unlimited-suspended', f'take_tokens suspended although the limit is 0; timeline={timeline} '
                                               f'changes made by {carriers_used}')
    k = max(1, len(consumers))
    for idx, t0, t1, lim, nwait in waits:
        if lim == 0 or t1 - t0 <= 0.05:
            continue
        if any(t0 <= at <= t1 for at, _ in timeline[1:]):
            continue   # limit changed during the wait: only the global "never returned" check applies
        # work conservation: while somebody waits the limiter keeps granting (to anyone) at >= 40% of the limit
        got = sum(g[1] for g in grants if t0 <= g[0] <= t1)
        need = 0.4 * lim * 1024 * (t1 - t0) - 128 * (k + 1)
        if got < need:
            res.violate('C20/stall', f'waited {t1 - t0:.3f}s at {lim} KiB/s while only {got} bytes were granted '
                                     f'to all {k} consumers (needed >= {need:.0f}); timeline={timeline} '
                                     f'changes made by {carriers_used}; cancelled={cancelled}')
            break
    for g in grants:
        if g[1] <= 0:
            res.violate('C20/non-positive-grant', str(g))
            break

    # labels
    items = [i for c in consumers for i in c[:6] if isinstance(i, list) and len(i) >= 2
             and all(isinstance(v, int) for v in i[:2])]
    idle_burst = any(GAPS[i[0] % len(GAPS)] >= 1.0 for i in items) and \
        any(GAPS[i[0] % len(GAPS)] == 0.0 and i[1] >= 8 for i in items)
    res.nontrivial = bool(idle_burst or (changes and (flags['change_while_waiting'] or n > 0))
                          or any(c[2] for c in cancelled))
    if idle_burst:
        res.label('idle-then-burst')
    if flags['change_while_waiting']:
        res.label('change-while-waiting')
    if changes:
        res.label('limit-changes')
    for name in sorted(set(carriers_used)):
        res.label('carrier:' + name)
    for c in cancelled:
        res.label('cancel:while-waiting-for-tokens' if c[2] else 'cancel:elsewhere')
        if c[2] and c[3]:
            res.label('cancel:waiter-while-others-wait')
        if c[4]:
            res.label('cancel:resumed')
    if any(l == 0 for _, l in timeline):
        res.label('has-unlimited-period')
    res.label(f'consumers={len(consumers)}')
    if errors:
        res.violate('C20/loop-error', str(errors[:2]))
    return res


def run_shard(ctx):
    from checks import c20_file
    # the deterministic file-tier cases first: a loaded machine that runs into the soft budget skips from the end
    ctx.enumerate(c20_file.enumerated())
    n = 900 if ctx.tier == 'quick' else 30000
    ctx.explore(case_strategy(), n)
    c20_file.shard_file(ctx)


MANIFEST_ENTRY = {
    'technique': 'property-based testing (Hypothesis): generated consumer/gap/limit-change/cancellation schedules on '
                 'a virtual clock, arithmetic window-bound oracle over all pairs of grant instants',
    'level_text': 'Generated-schedule exploration of the real rate limiter objects behind a real Network: every window '
                  'between two grant instants is compared with the integral of the limit plus one second of burst, '
                  'and every wait is bounded in virtual time. Limit changes are made through each documented way '
                  '(set_*_speed_limit, settings changed in place or by assigning a new limits / network section + '
                  'load_speed_limits); consumers and whole send_file/receive_file tasks are cancelled while they and '
                  'others wait for tokens. Sampled schedules, no proof.',
    'level_note': 'Trusted base: virtual-time loop (asyncio.sleep and time.monotonic share one clock), Hypothesis. '
                  'Tokens granted are used as the upper bound of bytes moved.',
}

KNOWN_REPLAYS = {
    'C20/window-excess:limit-change:le128': {
        'changes': [[0.5, 1]], 'consumers': [[[3, 1], [5, 9]]], 'limit': 443, 'start_delay': 0.0, 'upload': True},
    'C20/window-excess:limit-change-with-waiter': {
        'changes': [[0.0, 1]], 'consumers': [[[0, 17]]], 'limit': 1, 'start_delay': 0.0, 'upload': True},
}
