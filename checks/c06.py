"""C06 — after abort/pause/remove returns, nothing more happens for that transfer; at most one background
negotiation per transfer (DESIGN §3 C06)."""
from __future__ import annotations

import asyncio
import os
import shutil
import tempfile

from hypothesis import strategies as st

from vfw import simloop, simworld, xfer
from vfw.runner import CaseResult

PROPERTY = 'C06'
LEVEL = 'exploration'
RULE = (
    "Case = a real logged-in SoulSeekClient (peer connect mode race | fallback, optional up/download speed limit, "
    "file-system calls taking 0..5 virtual ms) + 1..3 scripted remote users, each either an uploader (the client "
    "downloads 1..3 files from it) or a downloader (it queues 1..3 files the client shares), each with a generated "
    "reachability (direct connect accept after 1..12000 ms | refuse | hang | reset after accept; indirect path pierce "
    "/ CannotConnect after 1..70000 ms | silent) and a generated negotiation script (uploader: delay before "
    "PeerTransferRequest, delay before the file connection incl. never, stall / reset / EOF after k bytes on the "
    "first 1..2 attempts, drops its message connections; downloader: drops its P link after queueing so that the "
    "client has to connect, reply delay / refusal / silence, offset delay) + management-cycle triggers at generated "
    "times (GetUserStatus incl. OFFLINE / AddUser responses for a peer or an unrelated user, another download added; "
    "further transfers added at their own times) + 1..2 user calls abort | pause | remove on distinct transfers at a "
    "generated millisecond plus 0..6 loop iterations (aimed by the generator at every point of the negotiation: just "
    "queued, connect pending, connect completing, remotely queued, transfer request / reply pending, file connection "
    "pending, mid-file, INCOMPLETE and re-queued, second offer of the peer); server messages can be preceded by 0..12 "
    "back-to-back filler messages so that they are handled a chosen number of loop iterations into their arrival "
    "instant, and a dedicated profile has the peer's OFFLINE status handled 0..9 iterations / 0..5 ms after the call "
    "on its INITIALIZING upload or download started (connect in progress, reply pending, file removal with slow "
    "file-system calls), optionally ONLINE again later; a call may be a sequence on the same transfer (pause awaited, "
    "0..4 s later abort or remove; abort then remove: nothing may happen in between, activity is judged from the first "
    "return, frozen fields from the last), and configuration changes of the user that run the shares-changed "
    "management cycle (friend added, another user blocked, rescan, shared-directory update) are generated inside the "
    "observation window after the call(s); a scripted uploader may offer a file by itself (PeerTransferRequest over "
    "a connection it opens, as a peer that still has it queued from an earlier session) while the client's own "
    "remote-queue attempt still hangs in a slow / hanging / late-refusing connect, so that both negotiation tasks of "
    "the download exist at the call, and may offer it once more 1 ms..6 s after the call returned (must be refused) "
    "; a call can be aimed relative to the moment the transfer reaches a state (e.g. 0..5 s after an upload went "
    "FAILED because the scripted downloader closed its message connections and reset the file connection after k "
    "bytes of a rate-limited upload, so that the failure notice needs a new slow connection); after the (last) call "
    "returned the peer may send PeerTransferQueueFailed / PeerTransferReply(allowed=False) with a generated reason "
    "(incl. the empty string) or PeerUploadFailed for the file, or repeat its PeerTransferQueue for an upload the "
    "user paused / aborted (may be refused or ignored, never restarted); after an abort / remove (single-call cases) "
    "the user may block and later unblock that same peer, or un-share and later re-share + rescan the directory "
    "+ 200 s of virtual time afterwards. "
    "Oracle, per stopped transfer, after the call returned at T: (1) no PeerTransferQueue / PeerTransferRequest / "
    "PeerPlaceInQueueRequest / PeerUploadFailed naming the file, no PeerTransferReply(allowed) and no file-connection "
    "ticket of that transfer arrives at a scripted endpoint later than T + link latency (refusals answering a request "
    "of the peer are allowed); (2) no connection to that user completes / no ConnectToPeer for that user reaches the "
    "server after T unless another not-yet-stopped transfer of the same user exists at that time, and no connect task "
    "of an unjustified user outlives T; (3) state, reasons, remotely_queued, bytes_transfered, local_path, filesize, "
    "place_in_queue, attempt counters and times equal the snapshot taken at T (remotely_queued may be reset by a later "
    "OFFLINE status of the user or by a PeerUploadFailed of the peer; a PeerTransferQueueFailed of the peer fails a "
    "PAUSED download with exactly the peer's reason), the state at T is ABORTED / PAUSED resp. the transfer is gone from the manager, and "
    "remotely_queued is not set at T when no connection with the user ever existed; (4) at T no pending asyncio task "
    "runs a remote-queue / initialise routine holding this transfer and none is created later. At all times (every "
    "task creation, seen through a loop task factory, and every driver step): at most one pending task per routine "
    "and transfer; behaviourally at most one PeerTransferQueue per file between two state transitions. Consequences "
    "observed on a transfer that had duplicate tasks, a pending task no longer referenced by the transfer's handle, "
    "or a task created while the call was in progress carry that root cause as kind prefix ('<root>>symptom'). "
    "Non-trivial = the call was issued while a negotiation task of the transfer was pending and at least one further "
    "management cycle had run since that task was created; distinct = distinct (direction, op, state at call, "
    "routine pending, connect mode, peer reachability class, cycles overlapped bucket, iteration offset)."
)
ASSUMPTIONS = [
    "in-memory TCP: ordered, lossless, 1 ms one-way latency; a frame written before the call returned arrives no later "
    "than T + 1 ms, so only later arrivals are counted (frames written after T within the same virtual instant are "
    "not distinguishable and are tolerated)",
    "scripted peers never re-queue a file after the user call returned and re-offer it at most once (late offer, "
    "which the client has to refuse; otherwise they are muted at T); refusals "
    "(PeerTransferReply allowed=False, PeerTransferQueueFailed) answering a request the peer sent earlier are legitimate",
    "a repeated queue request of the peer is only generated for PAUSED / ABORTED uploads (after a remove or for a "
    "finished upload it is a legitimate new request); blocking the same peer / un-sharing is only generated after "
    "abort / remove (after a pause the block itself legitimately aborts the upload with reason Blocked)",
    "a scripted uploader keeps one upload per file: a repeated PeerTransferQueue for a file it already offers is ignored",
    "a remote-queue task and a download-initialisation task of the same transfer may coexist (the peer may offer a "
    "file while the queue request is still being delivered): 'at most one' is checked per routine",
    "any other transfer of the same user that has not itself been stopped justifies connections to that user",
    "files are >= 1 byte (the 0-byte case belongs to C04); no user re-queue after the call; horizon 200 s after the "
    "last call (> connect 10 s + indirect 60 s, reply 30 s, file connection 60 s, transfer read 180 s)",
    "the transfer's task handles (_remotely_queue_task / _transfer_task, the anchors of the property) are read only to "
    "name the root cause of a violation, never to decide one",
]
BUDGET_S = {'quick': 150, 'thorough': 1500}

LAT = 0.001
EPS = 1e-7
HORIZON = 200.0
OPS = ['abort', 'pause', 'remove']
TRIGGER_KINDS = ('status', 'adduser', 'add', 'friend', 'block', 'rescan', 'sharedir')
STIMULI = ['friend', 'block', 'rescan', 'sharedir']
WAIT_STATES = ('FAILED', 'INCOMPLETE', 'INITIALIZING', 'UPLOADING', 'DOWNLOADING')
PEER_MSGS = ('queue_failed', 'upload_failed', 'reply_refused', 'requeue')
USER_STIMS = ('block', 'unshare')
REASONS = ['', 'Cancelled', 'File not shared.', 'Queued', 'Complete', 'Banned', 'x']
DIRECT = ['accept', 'refuse', 'hang', 'reset']
INDIRECT = ['pierce', 'cannot', 'silent']
NEG_ROUTINES = {
    'TransferManager._queue_remotely': 'queue-remotely',
    'TransferManager._initialize_upload': 'initialize-upload',
    'TransferManager._initialize_download': 'initialize-download',
}
CONN_ROUTINES = {
    'Network._make_direct_connection': 'direct-connect',
    'Network._make_indirect_connection': 'indirect-connect',
}
FIELDS = ['state', 'fail_reason', 'abort_reason', 'remotely_queued', 'bytes_transfered', 'local_path', 'filesize',
          'place_in_queue', 'queue_attempts', 'last_queue_attempt', 'upload_request_attempts',
          'last_upload_request_attempt', 'start_time', 'complete_time']


# ---------------------------------------------------------------------------
# strategies

def _ms(*choices, lo=1, hi=9000):
    return st.sampled_from(list(choices)) | st.integers(lo, hi)


@st.composite
def _peer(draw, role, slow_bias):
    direct = draw(st.sampled_from(['accept'] * 6 + ['refuse', 'hang', 'reset']))
    if slow_bias:
        direct_ms = draw(_ms(700, 2000, 4000, 6000, 9000, 9900, 11000, lo=300, hi=12000))
    else:
        direct_ms = draw(_ms(2, 2, 2, 50, 400, lo=1, hi=3000))
    indirect = draw(st.sampled_from(['pierce', 'cannot', 'silent', 'silent']))
    indirect_ms = draw(_ms(2, 300, 3000, 8000, 20000, 59000, 70000, lo=1, hi=30000))
    n = draw(st.sampled_from([1, 1, 1, 2, 3]))
    xfers = [{'at': draw(st.sampled_from([0, 0, 0, 1, 40, 60]) | st.integers(0, 4000)),
              'size': draw(st.sampled_from([1, 700, 3000, 9000, 30000]) | st.integers(1, 40000))} for _ in range(n)]
    p = {'role': role, 'direct': direct, 'direct_ms': direct_ms, 'indirect': indirect, 'indirect_ms': indirect_ms,
         'xfers': xfers}
    if role == 'U':
        p['auto_start'] = draw(st.integers(0, 5)) > 0
        p['start_ms'] = draw(_ms(5, 10, 200, 1500, lo=2, hi=5000))
        p['fileconn_ms'] = draw(_ms(5, 5, 400, 3000, 9000, 70000, lo=2, hi=12000))
        p['fault'] = draw(st.sampled_from([None, None, 'stall', 'stall', 'reset', 'eof']))
        p['fault_k'] = draw(st.sampled_from([0, 1, 500]) | st.integers(0, 40000))
        p['fault_n'] = draw(st.sampled_from([1, 1, 2]))
        p['drop_link'] = draw(st.booleans())
        # the peer still has the file queued from an earlier session: it offers it by itself (PeerTransferRequest over
        # a connection it opens) offer_ms after the download was added / late_offer_ms after the user call returned
        p['offer_ms'] = draw(st.sampled_from([None] * 5 + [100, 1500]))
        p['late_offer_ms'] = draw(st.sampled_from([None] * 5 + [1, 2000]))
    else:
        p['drop_link'] = draw(st.integers(0, 3)) > 0
        p['silent'] = draw(st.integers(0, 5)) == 0
        p['allow'] = draw(st.integers(0, 7)) > 0
        p['reply_ms'] = draw(_ms(2, 2, 300, 3000, 9000, 29000, lo=2, hi=12000))
        p['offset_ms'] = draw(_ms(2, 2, 300, 3000, 9000, lo=2, hi=12000))
        p['reset_k'] = draw(st.sampled_from([None] * 7 + [0, 2000]))
    return p


def _anchors(p, x, only_reoffer=False):
    """Estimated instants (ms) of the negotiation of transfer x of peer p (for aiming the user call)."""
    s = x['at']
    out = [s, s + 1, s + 50, s + 51, s + 100]
    d = p['direct_ms'] if p['direct'] in ('accept', 'reset', 'refuse') else 10000
    d = min(d, 10000)
    conn = s + d
    out += [s + d // 2, conn, conn + 1, conn + 2]
    if p['direct'] != 'accept' or p['direct_ms'] >= 10000:
        conn = s + d + min(p['indirect_ms'], 60000)
        out += [s + d + p['indirect_ms'] // 2, conn, conn + 3]
    if p['role'] == 'U':
        req = conn + 3 + p['start_ms']
        out += [conn + 3 + p['start_ms'] // 2, req, req + 1, req + 2, req + 3, req + 4,
                req + p['fileconn_ms'] // 2, req + 4 + p['fileconn_ms'], req + 8 + p['fileconn_ms'],
                req + 300 + p['fileconn_ms']]
        if p.get('fault') in ('reset', 'eof'):
            # the attempt breaks, the client queues again (within one management interval), the peer offers again
            fail = req + 10 + p['fileconn_ms']
            out += [fail, fail + 25, fail + 52] + [fail + p['start_ms'] + d for d in (2, 10, 20, 30, 40, 52, 60)]
            if only_reoffer:
                return [fail + p['start_ms']]
    else:
        rep = conn + 3 + p['reply_ms']
        out += [conn + 3 + p['reply_ms'] // 2, rep, rep + 1, rep + 2, rep + d // 2, rep + d, rep + d + 2,
                rep + d + p['offset_ms'] // 2, rep + d + p['offset_ms'] + 3, rep + d + p['offset_ms'] + 500]
    return [max(0, min(60000, a)) for a in out]


@st.composite
def case_strategy(draw, focus=None):
    mode = draw(st.sampled_from(['fallback', 'race']))
    npeers = draw(st.sampled_from([1, 1, 2, 2, 3]))
    peers = []
    mid = focus == 'mid'
    reoffer = focus == 'reoffer'
    aim0 = bool(focus)        # the first call goes to a transfer of the focused peer
    if mid:
        focus = None
    if reoffer:
        focus = 'U'
    for i in range(npeers):
        role = focus if (focus and i == 0) else draw(st.sampled_from(['U', 'U', 'D']))
        p = draw(_peer(role, slow_bias=draw(st.integers(0, 3)) > 0))
        if mid and i == 0:
            # reachable peer, quick negotiation, slow or stalled stream: the call lands mid-file
            p.update({'direct': 'accept', 'direct_ms': draw(st.sampled_from([2, 2, 30, 300]))})
            for x in p['xfers']:
                x['size'] = draw(st.integers(6000, 40000))
            if role == 'U':
                p.update({'auto_start': True, 'start_ms': draw(st.sampled_from([5, 50])),
                          'fileconn_ms': draw(st.sampled_from([5, 100])),
                          'fault': draw(st.sampled_from([None, 'stall', 'stall', 'reset', 'eof'])),
                          'fault_k': draw(st.integers(0, 6000))})
            else:
                p.update({'silent': False, 'allow': True, 'reply_ms': draw(st.sampled_from([2, 100])),
                          'offset_ms': draw(st.sampled_from([2, 100]))})
        if reoffer and i == 0:
            # reachable uploader whose first attempt(s) break: the download becomes INCOMPLETE, is queued again and
            # offered again; the call is aimed at the instants around the second offer
            p.update({'direct': 'accept', 'direct_ms': draw(st.sampled_from([2, 2, 30])), 'auto_start': True,
                      'start_ms': draw(st.sampled_from([5, 20, 100, 200])), 'fileconn_ms': draw(st.sampled_from([5, 50])),
                      'fault': 'reset', 'fault_k': draw(st.integers(0, 3000)),
                      'drop_link': draw(st.integers(0, 3)) == 0})
            for x in p['xfers']:
                x['size'] = draw(st.integers(3001, 20000))
        peers.append(p)
    ops = []
    nops = draw(st.sampled_from([1, 1, 1, 2]))
    used = set()
    for _ in range(nops):
        pi = 0 if (aim0 and not ops) else draw(st.integers(0, npeers - 1))
        xi = draw(st.integers(0, len(peers[pi]['xfers']) - 1))
        if (pi, xi) in used:
            continue
        used.add((pi, xi))
        anchors = _anchors(peers[pi], peers[pi]['xfers'][xi], only_reoffer=reoffer and pi == 0)
        if reoffer and pi == 0 and draw(st.integers(0, 5)) > 0:
            at = anchors[0] + draw(st.integers(0, 65))
        elif draw(st.integers(0, 4)) > 0:
            at = draw(st.sampled_from(anchors)) + draw(st.sampled_from([-2, -1, 0, 0, 0, 1, 2, 3, 5, 20]) |
                                                       st.integers(0, 2500))
        else:
            at = draw(st.integers(0, 15000))
        if ops and draw(st.booleans()):
            # "stop them all": the second call is issued in the same instant as the first (or 1 ms later)
            at = ops[0]['at'] + draw(st.sampled_from([0, 0, 0, 1]))
        op = draw(st.sampled_from(OPS))
        then = None
        if op == 'pause':
            then = draw(st.sampled_from([None, None, 'abort', 'remove']))
        elif op == 'abort':
            then = draw(st.sampled_from([None, None, None, 'remove']))
        ops.append({'peer': pi, 'xfer': xi, 'op': op, 'at': max(0, at),
                    'steps': draw(st.sampled_from([0, 0, 1, 2, 3, 4, 6])), 'then': then,
                    'gap': draw(st.sampled_from([0, 1, 60, 1000, 4000])) if then else 0,
                    'steps2': draw(st.sampled_from([0, 0, 1, 3])) if then else 0, 'after_state': None, 'delay': 0,
                    'peer_msg': _peer_msg(draw) if draw(st.integers(0, 7)) == 0 else None,
                    'user_stim': _user_stim(draw) if draw(st.integers(0, 9)) == 0 else None})
    first_op = min(o['at'] for o in ops)
    ntrig = draw(st.integers(0, 6))
    trig = []
    for _ in range(ntrig):
        kind = draw(st.sampled_from(['status', 'status', 'status', 'status', 'adduser', 'add', 'add', 'stimulus']))
        where = draw(st.integers(0, 7))
        if kind == 'stimulus':
            # configuration change of the user (shares-changed cycle), mostly after the call(s)
            kind = draw(st.sampled_from(STIMULI))
            where = draw(st.sampled_from([3, 7, 7, 7]))
        if where == 0:
            # the message (1 ms latency) is handled in the instant of a user call
            at = max(0, draw(st.sampled_from(ops))['at'] - draw(st.sampled_from([1, 1, 1, 0, 2])))
        elif where < 6:
            at = draw(st.integers(0, max(1, first_op)))
        else:
            at = draw(st.integers(0, first_op + 8000)) if kind not in STIMULI else \
                max(o['at'] + o['gap'] for o in ops) + draw(st.integers(0, 8000))
        user = draw(st.integers(0, npeers))          # npeers = the unrelated user
        status = draw(st.sampled_from([2, 2, 1, 1, 0]))
        # filler messages in front: the trigger is handled `pad` loop iterations into its arrival instant
        pad = draw(st.integers(0, 10)) if where == 0 else 0
        trig.append({'at': at, 'kind': kind, 'user': user, 'status': status, 'pad': pad})
    limits = [1, 2, 4] if mid else ([0] if reoffer else [0, 0, 1, 4])
    return {'mode': mode, 'up_kbps': draw(st.sampled_from(limits)), 'down_kbps': draw(st.sampled_from(limits)),
            'exec_ms': draw(st.sampled_from([1, 3, 5] if reoffer else [0, 0, 1, 3])), 'peers': peers,
            'triggers': trig, 'ops': ops}


@st.composite
def offline_case(draw):
    """The peer's OFFLINE status is handled while abort / pause / remove of its INITIALIZING transfer is in
    progress: 0..9 loop iterations or 0..5 ms after the call started (slow cancellation: connect in progress,
    connection closing, file removal with slow file-system calls), optionally ONLINE again later."""
    role = draw(st.sampled_from(['U', 'D']))
    p = draw(_peer(role, slow_bias=True))
    p['xfers'] = [{'at': draw(st.sampled_from([0, 0, 40, 300])), 'size': draw(st.integers(3001, 20000))}]
    p['indirect'] = draw(st.sampled_from(['silent', 'silent', 'cannot', 'pierce']))
    s = p['xfers'][0]['at']
    if role == 'D':
        if draw(st.booleans()):
            # the client has to connect: slow or hanging connect
            p.update({'drop_link': True, 'direct': draw(st.sampled_from(['accept', 'accept', 'hang'])),
                      'direct_ms': draw(st.sampled_from([3000, 6000, 9000])), 'indirect_ms': 59000,
                      'silent': False, 'allow': True, 'reply_ms': draw(st.sampled_from([2, 3000])),
                      'offset_ms': draw(st.sampled_from([2, 3000]))})
            lo, hi = s + 70, s + min(p['direct_ms'], 9000) - 50
        else:
            # the request is delivered over the peer's own link, the reply is slow or never comes
            p.update({'drop_link': False, 'silent': draw(st.booleans()), 'allow': True,
                      'reply_ms': draw(st.sampled_from([6000, 9000, 29000]))})
            lo, hi = s + 70, s + 5500
    else:
        second = draw(st.booleans())     # second attempt: the partial file exists, abort / remove have to delete it
        p.update({'direct': 'accept', 'direct_ms': draw(st.sampled_from([2, 30])), 'auto_start': True,
                  'start_ms': draw(st.sampled_from([5, 50])), 'fileconn_ms': draw(st.sampled_from([3000, 9000, 70000])),
                  'fault': 'reset' if second else None, 'fault_k': draw(st.integers(1, 3000)), 'fault_n': 1,
                  'drop_link': False})
        first = s + 60 + p['direct_ms'] + p['start_ms']
        if second:
            lo = first + p['fileconn_ms'] + 70 + p['start_ms']
            hi = lo + 2500
            if p['fileconn_ms'] > 9000:
                p['fileconn_ms'] = 3000
                lo = first + 3000 + 70 + p['start_ms']
                hi = lo + 2500
        else:
            lo, hi = first + 10, first + min(p['fileconn_ms'], 9000) - 50
    peers = [p]
    if draw(st.integers(0, 3)) == 0:
        peers.append(draw(_peer(draw(st.sampled_from(['U', 'D'])), slow_bias=draw(st.booleans()))))
    at = draw(st.integers(lo, max(lo, hi)))
    steps = draw(st.sampled_from([0, 0, 1, 2]))
    ops = [{'peer': 0, 'xfer': 0, 'op': draw(st.sampled_from(OPS)), 'at': at, 'steps': steps}]
    if draw(st.integers(0, 2)) > 0:
        j, pad = 0, steps + draw(st.integers(0, 9))
    else:
        j, pad = draw(st.integers(1, 5)), draw(st.integers(0, 3))
    trig = [{'at': at - 1 + j, 'kind': 'status', 'user': 0, 'status': 0, 'pad': pad}]
    if draw(st.integers(0, 2)) > 0:
        trig.append({'at': at + draw(st.sampled_from([300, 1000, 4000])), 'kind': 'status', 'user': 0,
                     'status': draw(st.sampled_from([2, 2, 1])), 'pad': 0})
    for _ in range(draw(st.integers(0, 2))):
        trig.append({'at': draw(st.integers(0, at + 3000)), 'kind': draw(st.sampled_from(['status', 'adduser', 'add'])),
                     'user': draw(st.integers(0, len(peers))), 'status': draw(st.sampled_from([2, 1])), 'pad': 0})
    return {'mode': draw(st.sampled_from(['fallback', 'race'])), 'up_kbps': 0, 'down_kbps': 0,
            'exec_ms': draw(st.sampled_from([0, 1, 3, 5])), 'peers': peers, 'triggers': trig, 'ops': ops}


def _user_stim(draw):
    return {'kind': draw(st.sampled_from(['block', 'block', 'unshare'])),
            'delay': draw(st.sampled_from([1, 100, 1500, 4000])), 'undo': draw(st.sampled_from([1200, 3000, 8000]))}


def _peer_msg(draw, delay_hi=5000, upload=False):
    if upload:
        return {'kind': draw(st.sampled_from(['requeue', 'requeue', 'requeue', 'reply_refused'])),
                'reason': draw(st.sampled_from(REASONS)), 'delay': draw(st.sampled_from([1, 100, 1000, 4000]))}
    return {'kind': draw(st.sampled_from(PEER_MSGS + ('queue_failed', 'queue_failed'))),
            'reason': draw(st.sampled_from(REASONS + ['', '', '', ''])),
            'delay': draw(st.sampled_from([1, 2, 100, 1000]) | st.integers(1, delay_hi))}


@st.composite
def peermsg_case(draw):
    """After pause / abort / remove returned the peer says something about the file that is not a new queue request or
    offer: PeerTransferQueueFailed / PeerTransferReply(allowed=False) with a generated reason (incl. the empty string)
    or PeerUploadFailed; biased to downloads whose own queue attempt still waited for a slow connect (not remotely
    queued) when the call was made."""
    role = draw(st.sampled_from(['U', 'U', 'D']))
    p = draw(_peer(role, slow_bias=True))
    p['xfers'] = [{'at': draw(st.sampled_from([0, 0, 40])), 'size': draw(st.integers(1000, 20000))}
                  for _ in range(draw(st.sampled_from([1, 1, 2])))]
    if role == 'U':
        slow = draw(st.integers(0, 3)) > 0
        p.update({'direct': draw(st.sampled_from(['accept', 'accept', 'hang', 'refuse'])),
                  'direct_ms': draw(st.sampled_from([3000, 6000, 9900])) if slow else 2,
                  'indirect': draw(st.sampled_from(['silent', 'cannot', 'pierce'])),
                  'indirect_ms': draw(st.sampled_from([3000, 20000])), 'auto_start': draw(st.booleans()),
                  'start_ms': draw(st.sampled_from([500, 3000])), 'offer_ms': None,
                  'late_offer_ms': draw(st.sampled_from([None, None, None, 1, 3000]))})
        hi = 2500 if slow else 1200
    else:
        hi = 3000
    xi = draw(st.integers(0, len(p['xfers']) - 1))
    at = p['xfers'][xi]['at'] + draw(st.integers(60, hi))
    op = draw(st.sampled_from(['pause', 'pause', 'pause', 'abort', 'remove']))
    then = draw(st.sampled_from([None, None, None, 'abort'])) if op == 'pause' else None
    peers = [p]
    if draw(st.integers(0, 3)) == 0:
        peers.append(draw(_peer(draw(st.sampled_from(['U', 'D'])), slow_bias=draw(st.booleans()))))
    ops = [{'peer': 0, 'xfer': xi, 'op': op, 'at': at, 'steps': draw(st.sampled_from([0, 0, 1, 3])), 'then': then,
            'gap': draw(st.sampled_from([0, 60, 1000])) if then else 0, 'steps2': 0, 'after_state': None, 'delay': 0,
            'peer_msg': _peer_msg(draw, upload=(role == 'D'))}]
    trig = []
    for _ in range(draw(st.integers(0, 2))):
        trig.append({'at': draw(st.integers(0, at + 8000)), 'kind': draw(st.sampled_from(['status', 'adduser', 'add'])),
                     'user': draw(st.integers(0, len(peers))), 'status': draw(st.sampled_from([2, 2, 1])), 'pad': 0})
    return {'mode': draw(st.sampled_from(['fallback', 'race'])), 'up_kbps': 0, 'down_kbps': 0,
            'exec_ms': draw(st.sampled_from([0, 0, 1])), 'peers': peers, 'triggers': trig, 'ops': ops}


@st.composite
def upfail_case(draw):
    """An upload breaks in the middle: the peer closes its message connections and resets the file connection after k
    bytes of a rate-limited upload, so the client's write fails (FAILED) and the failure notice needs a new, slow
    connection to the peer; remove (abort / pause are refused for a FAILED transfer) is called 0..connect time after
    the transfer became FAILED."""
    p = draw(_peer('D', slow_bias=True))
    d = draw(st.sampled_from([500, 1500, 3000, 5000]))
    p.update({'direct': 'accept', 'direct_ms': d, 'indirect': draw(st.sampled_from(['silent', 'cannot', 'pierce'])),
              'indirect_ms': draw(st.sampled_from([3000, 20000])), 'drop_link': draw(st.integers(0, 3)) > 0,
              'silent': False, 'allow': True, 'reply_ms': 2, 'offset_ms': 2,
              'reset_k': draw(st.sampled_from([0, 1000, 3000]))})
    p['xfers'] = [{'at': draw(st.sampled_from([0, 40])), 'size': draw(st.integers(8000, 30000))}
                  for _ in range(draw(st.sampled_from([1, 1, 2])))]
    peers = [p]
    if draw(st.integers(0, 4)) == 0:
        peers.append(draw(_peer(draw(st.sampled_from(['U', 'D'])), slow_bias=draw(st.booleans()))))
    op = draw(st.sampled_from(['remove', 'remove', 'remove', 'remove', 'abort', 'pause']))
    ops = [{'peer': 0, 'xfer': 0, 'op': op, 'at': 0, 'steps': draw(st.sampled_from([0, 0, 1, 3])), 'then': None, 'gap': 0,
            'steps2': 0, 'after_state': draw(st.sampled_from(['FAILED', 'FAILED', 'FAILED', 'UPLOADING'])),
            'delay': draw(st.sampled_from([0, 1, 5]) | st.integers(0, d + 200)),
            'peer_msg': _peer_msg(draw) if draw(st.integers(0, 3)) == 0 else None}]
    trig = []
    for _ in range(draw(st.integers(0, 2))):
        trig.append({'at': draw(st.integers(0, 20000)), 'kind': draw(st.sampled_from(['status', 'adduser', 'add'])),
                     'user': draw(st.integers(0, len(peers))), 'status': draw(st.sampled_from([2, 2, 1])), 'pad': 0})
    return {'mode': draw(st.sampled_from(['fallback', 'race'])), 'up_kbps': draw(st.sampled_from([2, 4])),
            'down_kbps': 0, 'exec_ms': draw(st.sampled_from([0, 0, 1])), 'peers': peers, 'triggers': trig, 'ops': ops}


@st.composite
def both_case(draw):
    """Both negotiations of a download in flight: the client's remote-queue attempt hangs in a slow connection attempt
    (slow / hanging / late refusing direct connect, slow indirect path) while the peer connects in and offers the file,
    so that the download is INITIALIZING (or DOWNLOADING) as well; the call lands while both tasks exist and the
    horizon lets the hanging attempt resolve either way. Optionally the peer offers the file again after the call."""
    p = draw(_peer('U', slow_bias=True))
    reach = draw(st.sampled_from(['accept-late', 'accept-late', 'refuse-late', 'hang', 'timeout']))
    if reach == 'accept-late':
        p.update({'direct': 'accept', 'direct_ms': draw(st.sampled_from([5000, 7000, 9900]))})
    elif reach == 'refuse-late':
        p.update({'direct': 'refuse', 'direct_ms': draw(st.sampled_from([5000, 9000]))})
    elif reach == 'hang':
        p.update({'direct': 'hang', 'direct_ms': 2})
    else:
        p.update({'direct': 'accept', 'direct_ms': 12000})
    p.update({'indirect': draw(st.sampled_from(['silent', 'cannot', 'pierce'])),
              'indirect_ms': draw(st.sampled_from([3000, 8000, 20000])),
              'offer_ms': draw(st.sampled_from([60, 100, 1000, 3000])), 'auto_start': draw(st.booleans()),
              'start_ms': draw(st.sampled_from([5, 500])), 'fileconn_ms': draw(st.sampled_from([5, 3000, 9000, 70000])),
              'fault': draw(st.sampled_from([None, 'stall', 'stall'])), 'fault_k': draw(st.integers(0, 3000)),
              'drop_link': False, 'late_offer_ms': draw(st.sampled_from([None, None, 1, 500, 3000]))})
    n = draw(st.sampled_from([1, 1, 2]))
    p['xfers'] = [{'at': draw(st.sampled_from([0, 0, 40])), 'size': draw(st.integers(3001, 30000))} for _ in range(n)]
    xi = draw(st.integers(0, n - 1))
    s = p['xfers'][xi]['at']
    lo = s + p['offer_ms'] + 3
    hi = max(lo, min(s + 50 + min(p['direct_ms'], 10000) - 20, lo + min(p['fileconn_ms'], 3500) + 500))
    at = draw(st.integers(lo, hi))
    peers = [p]
    if draw(st.integers(0, 3)) == 0:
        peers.append(draw(_peer(draw(st.sampled_from(['U', 'D'])), slow_bias=draw(st.booleans()))))
    op = draw(st.sampled_from(OPS))
    then = None
    if op == 'pause':
        then = draw(st.sampled_from([None, None, 'abort', 'remove']))
    ops = [{'peer': 0, 'xfer': xi, 'op': op, 'at': at, 'steps': draw(st.sampled_from([0, 0, 1, 3])), 'then': then,
            'gap': draw(st.sampled_from([0, 60, 2000])) if then else 0, 'steps2': 0}]
    trig = []
    for _ in range(draw(st.integers(0, 2))):
        trig.append({'at': draw(st.integers(0, at + 8000)), 'kind': draw(st.sampled_from(['status', 'adduser', 'add'])),
                     'user': draw(st.integers(0, len(peers))), 'status': draw(st.sampled_from([2, 2, 1])), 'pad': 0})
    return {'mode': draw(st.sampled_from(['fallback', 'race'])), 'up_kbps': 0,
            'down_kbps': draw(st.sampled_from([0, 0, 2])), 'exec_ms': draw(st.sampled_from([0, 0, 1, 3])),
            'peers': peers, 'triggers': trig, 'ops': ops}


@st.composite
def sequence_case(draw):
    """Call sequences on one transfer (pause awaited, later abort / remove; abort then remove) from QUEUED, INITIALIZING
    and mid-file, followed inside the observation window by configuration changes of the user that make the transfer
    manager re-evaluate its uploads (friend list, block list of another user, rescan, shared-directory update)."""
    role = draw(st.sampled_from(['D', 'D', 'D', 'U']))
    p = draw(_peer(role, slow_bias=True))
    variant = draw(st.sampled_from(['connect', 'reply', 'mid', 'queued', 'fresh', 'fresh']))
    exec_fresh = draw(st.sampled_from([0, 1, 3, 5]))
    if variant == 'fresh':
        role = 'D'      # the call lands between the arrival of the peer's queue request and the start of the upload
    n = 2 if variant == 'queued' else draw(st.sampled_from([1, 1, 2]))
    p['xfers'] = [{'at': draw(st.sampled_from([0, 0, 40])), 'size': draw(st.integers(6000, 30000))} for _ in range(n)]
    p['indirect'] = draw(st.sampled_from(['silent', 'cannot', 'pierce']))
    kbps = 0
    if role == 'D':
        if variant in ('connect', 'queued', 'fresh'):
            p.update({'drop_link': True, 'direct': 'accept', 'direct_ms': draw(st.sampled_from([3000, 6000, 9000])),
                      'silent': False, 'allow': True, 'reply_ms': 2, 'offset_ms': 2})
            lo, hi = 120, p['direct_ms'] - 100
            if variant == 'fresh':
                # queue request arrives after 1 ms, the shared item / file size look-ups and the cycle that starts the
                # upload follow within a few file-system calls
                lo, hi = p['xfers'][0]['at'] + 1, p['xfers'][0]['at'] + 3 + 3 * exec_fresh
        elif variant == 'reply':
            p.update({'drop_link': False, 'silent': draw(st.booleans()), 'allow': True,
                      'reply_ms': draw(st.sampled_from([6000, 9000, 29000]))})
            lo, hi = 120, 5500
        else:
            p.update({'drop_link': draw(st.booleans()), 'direct': 'accept', 'direct_ms': draw(st.sampled_from([2, 30])),
                      'silent': False, 'allow': True, 'reply_ms': 2, 'offset_ms': 2})
            kbps = draw(st.sampled_from([1, 2, 4]))
            lo, hi = 300, 1500
        xi = (n - 1) if variant == 'queued' else 0      # the second upload of a user waits in the queue
    else:
        p.update({'direct': 'accept', 'direct_ms': draw(st.sampled_from([2, 3000, 6000])), 'auto_start': True,
                  'start_ms': draw(st.sampled_from([5, 500])), 'fileconn_ms': draw(st.sampled_from([5, 3000, 9000])),
                  'fault': draw(st.sampled_from([None, 'stall'])), 'fault_k': draw(st.integers(1, 3000)),
                  'drop_link': False, 'late_offer_ms': draw(st.sampled_from([None, 1, 1000, 6000]))})
        lo, hi = 60, p['direct_ms'] + p['start_ms'] + p['fileconn_ms'] + 500
        xi = draw(st.integers(0, n - 1))
    peers = [p]
    if draw(st.integers(0, 3)) == 0:
        peers.append(draw(_peer(draw(st.sampled_from(['U', 'D'])), slow_bias=draw(st.booleans()))))
    at = draw(st.integers(lo, max(lo, hi)))
    first = draw(st.sampled_from(['pause', 'pause', 'pause', 'abort']))
    then = draw(st.sampled_from(['abort', 'abort', 'remove'])) if first == 'pause' else 'remove'
    if variant == 'fresh' and draw(st.booleans()):
        first, then = draw(st.sampled_from(OPS)), None
    gap = draw(st.sampled_from([0, 1, 60, 1000, 4000]))
    extra_kind = draw(st.sampled_from([None, 'peer', 'user', 'user']))
    ops = [{'peer': 0, 'xfer': xi, 'op': first, 'at': at, 'after_state': None, 'delay': 0,
            'peer_msg': _peer_msg(draw, upload=(role == 'D')) if extra_kind == 'peer' else None,
            'user_stim': _user_stim(draw) if extra_kind == 'user' else None,
            'steps': draw(st.sampled_from([0, 2, 4, 6] if variant == 'fresh' else [0, 0, 1, 3])), 'then': then,
            'gap': gap, 'steps2': draw(st.sampled_from([0, 0, 1, 3]))}]
    trig = []
    for _ in range(draw(st.integers(1, 3))):
        trig.append({'at': at + gap + draw(st.sampled_from([1, 200, 1500, 5000]) | st.integers(0, 9000)),
                     'kind': draw(st.sampled_from(STIMULI)), 'user': len(peers), 'status': 2, 'pad': 0})
    for _ in range(draw(st.integers(0, 2))):
        trig.append({'at': draw(st.integers(0, at + gap + 6000)), 'kind': draw(st.sampled_from(['status', 'adduser', 'add'])),
                     'user': draw(st.integers(0, len(peers))), 'status': draw(st.sampled_from([2, 2, 1])), 'pad': 0})
    if variant == 'fresh' and draw(st.booleans()):
        # an unrelated status message handled in the instant of the call requests a management cycle right then
        trig.append({'at': max(0, at - 1), 'kind': 'status', 'user': len(peers), 'status': 2,
                     'pad': draw(st.integers(0, 6))})
    exec_ms = exec_fresh if variant == 'fresh' else draw(st.sampled_from([0, 0, 1, 3]))
    return {'mode': draw(st.sampled_from(['fallback', 'race'])), 'up_kbps': kbps, 'down_kbps': 0,
            'exec_ms': exec_ms, 'peers': peers, 'triggers': trig, 'ops': ops}


# ---------------------------------------------------------------------------
# sanitising (run_case is total: shrunk documents are clamped into the generator's domain)

def _int(v, lo, hi, default):
    try:
        if isinstance(v, bool):
            v = int(v)
        v = int(v)
    except Exception:
        v = default
    return max(lo, min(hi, v))


def _clean_peer_msg(m):
    if not isinstance(m, dict) or m.get('kind') not in PEER_MSGS:
        return None
    reason = m.get('reason')
    return {'kind': m['kind'], 'reason': reason if reason in REASONS else 'Cancelled',
            'delay': _int(m.get('delay'), 1, 20000, 1)}


def _clean_user_stim(m):
    if not isinstance(m, dict) or m.get('kind') not in USER_STIMS:
        return None
    return {'kind': m['kind'], 'delay': _int(m.get('delay'), 1, 20000, 1), 'undo': _int(m.get('undo'), 1, 20000, 1000)}


def _sanitise(case):
    if not isinstance(case, dict):
        return None
    peers = []
    for p in (case.get('peers') or [])[:3]:
        if not isinstance(p, dict):
            continue
        role = 'D' if p.get('role') == 'D' else 'U'
        xfers = []
        for x in (p.get('xfers') or [])[:3]:
            if not isinstance(x, dict):
                continue
            xfers.append({'at': _int(x.get('at'), 0, 20000, 0), 'size': _int(x.get('size'), 1, 60000, 1000)})
        if not xfers:
            continue
        q = {'role': role,
             'direct': p.get('direct') if p.get('direct') in DIRECT else 'accept',
             'direct_ms': _int(p.get('direct_ms'), 1, 15000, 2),
             'indirect': p.get('indirect') if p.get('indirect') in INDIRECT else 'pierce',
             'indirect_ms': _int(p.get('indirect_ms'), 1, 80000, 2),
             'xfers': xfers}
        if role == 'U':
            q['auto_start'] = bool(p.get('auto_start', True))
            q['start_ms'] = _int(p.get('start_ms'), 2, 20000, 10)
            q['fileconn_ms'] = _int(p.get('fileconn_ms'), 2, 80000, 5)
            q['fault'] = p.get('fault') if p.get('fault') in ('stall', 'reset', 'eof') else None
            q['fault_k'] = _int(p.get('fault_k'), 0, 60000, 0)
            q['fault_n'] = _int(p.get('fault_n'), 1, 2, 1)
            q['drop_link'] = bool(p.get('drop_link', False))
            q['offer_ms'] = None if p.get('offer_ms') is None else _int(p.get('offer_ms'), 1, 60000, 100)
            q['late_offer_ms'] = None if p.get('late_offer_ms') is None else _int(p.get('late_offer_ms'), 1, 60000, 1)
        else:
            q['drop_link'] = bool(p.get('drop_link', False))
            q['silent'] = bool(p.get('silent', False))
            q['allow'] = bool(p.get('allow', True))
            q['reply_ms'] = _int(p.get('reply_ms'), 2, 40000, 2)
            q['offset_ms'] = _int(p.get('offset_ms'), 2, 40000, 2)
            q['reset_k'] = None if p.get('reset_k') is None else _int(p.get('reset_k'), 0, 60000, 1000)
        peers.append(q)
    if not peers:
        return None
    ops = []
    seen = set()
    for o in (case.get('ops') or [])[:2]:
        if not isinstance(o, dict):
            continue
        pi = _int(o.get('peer'), 0, 10 ** 6, 0) % len(peers)
        xi = _int(o.get('xfer'), 0, 10 ** 6, 0) % len(peers[pi]['xfers'])
        if (pi, xi) in seen:
            continue
        seen.add((pi, xi))
        ops.append({'peer': pi, 'xfer': xi, 'op': o.get('op') if o.get('op') in OPS else 'abort',
                    'at': _int(o.get('at'), 0, 80000, 0), 'steps': _int(o.get('steps'), 0, 8, 0),
                    'then': o.get('then') if o.get('then') in ('abort', 'remove') else None,
                    'gap': _int(o.get('gap'), 0, 20000, 0), 'steps2': _int(o.get('steps2'), 0, 8, 0),
                    'after_state': o.get('after_state') if o.get('after_state') in WAIT_STATES else None,
                    'delay': _int(o.get('delay'), 0, 20000, 0), 'peer_msg': _clean_peer_msg(o.get('peer_msg')),
                    'user_stim': _clean_user_stim(o.get('user_stim'))})
    if not ops:
        return None
    trig = []
    for t in (case.get('triggers') or [])[:8]:
        if not isinstance(t, dict):
            continue
        trig.append({'at': _int(t.get('at'), 0, 90000, 0),
                     'kind': t.get('kind') if t.get('kind') in TRIGGER_KINDS else 'status',
                     'user': _int(t.get('user'), 0, 10 ** 6, 0) % (len(peers) + 1),
                     'status': _int(t.get('status'), 0, 2, 2), 'pad': _int(t.get('pad'), 0, 12, 0)})
    return {'mode': 'race' if case.get('mode') == 'race' else 'fallback',
            'up_kbps': _int(case.get('up_kbps'), 0, 64, 0), 'down_kbps': _int(case.get('down_kbps'), 0, 64, 0),
            'exec_ms': _int(case.get('exec_ms'), 0, 20, 0),
            'peers': peers, 'triggers': trig, 'ops': ops}


# ---------------------------------------------------------------------------
# observation helpers

class _Registry:
    """Loop task factory: sees every task at creation (harness-side loop hook, no source change)."""

    def __init__(self, loop):
        self.loop = loop
        self.neg = []        # dicts: task, routine, transfer, created, done_at
        self.conn = []       # dicts: task, kind, username, typ, created, done_at
        self.dups = []       # (time, routine, transfer, count)

    def factory(self, loop, coro, **kw):
        task = asyncio.Task(coro, loop=loop, **kw)
        try:
            self._see(task, coro)
        except Exception:       # observation must never disturb the system
            pass
        return task

    def _see(self, task, coro):
        qn = getattr(coro, '__qualname__', '')
        frame = getattr(coro, 'cr_frame', None)
        if frame is None:
            return
        if qn in NEG_ROUTINES:
            transfer = frame.f_locals.get('transfer')
            if transfer is None:
                return
            routine = NEG_ROUTINES[qn]
            others = [e for e in self.neg if e['transfer'] is transfer and e['routine'] == routine
                      and not e['task'].done()]
            entry = {'task': task, 'routine': routine, 'transfer': transfer, 'created': self.loop.time(),
                     'done_at': None}
            self.neg.append(entry)
            task.add_done_callback(lambda t, e=entry: e.__setitem__('done_at', self.loop.time()))
            if others:
                self.dups.append((self.loop.time(), routine, transfer, len(others) + 1))
        elif qn in CONN_ROUTINES:
            entry = {'task': task, 'kind': CONN_ROUTINES[qn], 'username': frame.f_locals.get('username'),
                     'typ': frame.f_locals.get('typ'), 'created': self.loop.time(), 'done_at': None}
            self.conn.append(entry)
            task.add_done_callback(lambda t, e=entry: e.__setitem__('done_at', self.loop.time()))

    def pending_for(self, transfer):
        return [e for e in self.neg if e['transfer'] is transfer and not e['task'].done()]


def _snapshot(t):
    out = {}
    for f in FIELDS:
        if f == 'state':
            out[f] = t.state.VALUE.name
        else:
            v = getattr(t, f, None)
            out[f] = round(v, 6) if isinstance(v, float) else v
    return out


def _reach_class(p):
    if p['direct'] == 'accept' and p['direct_ms'] < 10000:
        return 'direct-fast' if p['direct_ms'] < 100 else 'direct-slow'
    ind = p['indirect'] if p['indirect'] != 'silent' and p['indirect_ms'] < 60000 else 'silent'
    return f"{p['direct'] if p['direct'] != 'accept' else 'timeout'}+{ind}"


# ---------------------------------------------------------------------------

def run_case(case) -> CaseResult:
    res = CaseResult()
    c = _sanitise(case)
    if c is None:
        return res
    tmp = tempfile.mkdtemp(prefix='c06-')
    try:
        _run(c, res, tmp)
    finally:
        shutil.rmtree(tmp, ignore_errors=True)
    return res


def _run(c, res, tmp):
    from aioslsk.events import TransferAddedEvent
    from aioslsk.exceptions import InvalidStateTransition
    from aioslsk.network.network import PeerConnectMode
    from aioslsk.protocol import messages as M
    from aioslsk.protocol.primitives import UserStats
    from aioslsk.transfer.model import TransferDirection
    from aioslsk.user.model import BlockingFlag

    peers = c['peers']
    names = ['u%d' % i for i in range(len(peers))]
    OTHER = 'zed'
    out = {'ops': [], 'polled_dups': []}
    has_d = any(p['role'] == 'D' for p in peers)

    share = os.path.join(tmp, 'share', 'music')
    os.makedirs(share)
    dl = os.path.join(tmp, 'dl')
    os.makedirs(dl)
    # per transfer: file name / remote path
    for pi, p in enumerate(peers):
        for xi, x in enumerate(p['xfers']):
            x['fname'] = 'p%dx%d.bin' % (pi, xi)
            if p['role'] == 'D':
                with open(os.path.join(share, x['fname']), 'wb') as fh:
                    fh.write(xfer.content(pi * 7 + xi, x['size']))
            else:
                x['rpath'] = '@@peer\\music\\' + x['fname']

    async def main(world):
        loop = world.loop
        reg = _Registry(loop)
        loop.set_task_factory(reg.factory)
        if c['exec_ms']:
            # file-system calls (exists / remove / getsize / open) take virtual time, as on a real thread pool
            loop.executor_delay = lambda: c['exec_ms'] / 1000.0
        s = simworld.mk_settings('me')
        s.network.peer.connect_mode = PeerConnectMode.RACE if c['mode'] == 'race' else PeerConnectMode.FALLBACK
        s.shares.download = dl
        s.transfers.report_interval = 10.0     # progress events are irrelevant here; fewer wake-ups in the 200 s horizon
        if has_d:
            xfer.share_dir_settings(s, share)
        muted = set()                 # (user, remote path): the peer says nothing more about that file
        offline_times = {}            # user -> [times an OFFLINE status was sent]
        scripts = []
        for pi, p in enumerate(peers):
            kw = dict(direct=p['direct'], direct_delay=p['direct_ms'] / 1000.0, indirect=p['indirect'],
                      indirect_delay=p['indirect_ms'] / 1000.0, latency=LAT)
            if p['role'] == 'U':
                files = {x['rpath']: xfer.content(pi * 7 + xi, x['size']) for xi, x in enumerate(p['xfers'])}
                up = xfer.ScriptedUploader(world, names[pi], files, **kw)
                up.auto_start = False
                up.ticket_counter = 1000 * (pi + 1)    # tickets of different peers do not collide
                up.file_conn_delay = p['fileconn_ms'] / 1000.0

                def plan(att, up=up, p=p):
                    if p['drop_link']:
                        # the negotiation is over: the peer drops its message connections (a later re-queue has
                        # to connect again)
                        for link in up.peer.links:
                            if link.typ == 'P' and not link.ep.dead:
                                link.ep.close()
                    nth = sum(1 for a in up.attempts if a.path == att.path and a.file_link is not None)
                    if p['fault'] and nth < p['fault_n']:
                        return {'fault': p['fault'], 'k': p['fault_k']}
                    return {}
                up.plan = plan
                up.scheduled = set()

                def start(path, up=up):
                    up.scheduled.discard(path)
                    if (up.name, path) in muted:
                        return
                    up.start_upload(path)

                def on_queue(path, up=up, p=p, start=start):
                    # one upload object per file, like a real peer: a repeated queue request for a file that is
                    # already queued / being offered changes nothing
                    if (up.name, path) in muted:
                        return True
                    if path not in up.files:
                        return False
                    live = path in up.scheduled or any(
                        a.path == path and not a.done and not (a.reply is not None and not a.reply.allowed)
                        and not (a.file_link is not None and a.file_link.ep.dead)
                        for a in up.attempts)
                    if not live and p['auto_start']:
                        up.scheduled.add(path)
                        loop.call_later(p['start_ms'] / 1000.0, start, path)
                    return True
                up.on_queue = on_queue

                def offer(path, late=False, up=up):
                    # unsolicited offer; a late one (after the user call) is sent although the file is muted: the
                    # client has to refuse it, which is a legitimate reply
                    if not late and ((up.name, path) in muted or path in up.scheduled or any(
                            a.path == path and not a.done and not (a.reply is not None and not a.reply.allowed)
                            and not (a.file_link is not None and a.file_link.ep.dead) for a in up.attempts)):
                        return
                    up.start_upload(path)
                up.offer = offer
                scripts.append(up)
            else:
                down = xfer.ScriptedDownloader(world, names[pi], **kw)
                down.silent = p['silent']
                down.allow = p['allow']
                down.reply_delay = p['reply_ms'] / 1000.0
                down.offset_delay = p['offset_ms'] / 1000.0
                if p['reset_k'] is not None:
                    # the peer vanishes in the middle of the first upload of a file: it closes its message
                    # connections and resets the file connection after k bytes (the client's next write fails)
                    down.broken = set()

                    def on_file_data(link, down=down, k=p['reset_k'], orig=down._on_file_data):
                        orig(link)
                        att = getattr(link, 'attempt', None)
                        if att is None or att.path in down.broken or len(att.received) < k:
                            return
                        down.broken.add(att.path)
                        for other in down.peer.links:
                            if other.typ == 'P' and not other.ep.dead:
                                other.ep.close()
                        link.ep.reset(delay=0.005)
                    down.peer.on_file_data = on_file_data
                scripts.append(down)

        client = await world.start_client(s)
        tm = client.transfers
        if c['up_kbps']:
            client.network.set_upload_speed_limit(c['up_kbps'])
        if c['down_kbps']:
            client.network.set_download_speed_limit(c['down_kbps'])
        # management cycles (instance-level wrapper, harness side)
        cycles = []
        orig_manage = tm.manage_transfers

        def manage_wrapper():
            cycles.append(loop.time())
            return orig_manage()
        tm.manage_transfers = manage_wrapper

        transitions = []      # (time, transfer, old, new)
        added = []            # (time, transfer)

        state_waiters = []    # (username, remote path, direction name, state name, future)

        class Listener:
            async def on_transfer_state_changed(self, transfer, old, new):
                transitions.append((loop.time(), transfer, old.name, new.name))
                for u, rp, d, st_name, fut in state_waiters:
                    if not fut.done() and new.name == st_name and transfer.username == u and \
                            transfer.remote_path == rp and transfer.direction.name == d:
                        fut.set_result(None)
        listener = Listener()

        async def on_added(event):
            added.append((loop.time(), event.transfer))
            event.transfer.state_listeners.append(listener)
        client.events.register(TransferAddedEvent, on_added)
        out['keep'] = (on_added, listener)

        if has_d:
            await client.shares.scan()
            rp = {}
            for d in client.shares.shared_directories:
                for item in d.items:
                    rp[item.filename] = item.get_remote_path()
            for p in peers:
                if p['role'] == 'D':
                    for x in p['xfers']:
                        x['rpath'] = rp.get(x['fname'])
        await asyncio.sleep(0.5)
        t0 = loop.time()
        out['t0'] = t0

        def find(pi, xi):
            p, x = peers[pi], peers[pi]['xfers'][xi]
            if x.get('rpath') is None:
                return None
            direction = TransferDirection.DOWNLOAD if p['role'] == 'U' else TransferDirection.UPLOAD
            for _, t in added:
                if t.username == names[pi] and t.remote_path == x['rpath'] and t.direction == direction:
                    return t
            return None

        def check_dups_polled(where):
            # every driver step: <= 1 pending task per routine and transfer
            seen = {}
            for e in reg.neg:
                if not e['task'].done():
                    seen.setdefault((id(e['transfer']), e['routine']), []).append(e)
            for (_, routine), es in sorted(seen.items(), key=lambda kv: kv[0][1]):
                if len(es) > 1:
                    t = es[0]['transfer']
                    out['polled_dups'].append((round(loop.time() - t0, 4), routine, t.username, t.remote_path,
                                               len(es), where))

        async def do_op(o):
            rec = {'op': o, 'status': 'no-transfer'}
            out['ops'].append(rec)
            if o['after_state']:
                # the call is aimed relative to the moment the transfer reaches a state (+ delay ms + steps)
                pw, xw = peers[o['peer']], peers[o['peer']]['xfers'][o['xfer']]
                t = find(o['peer'], o['xfer'])
                if xw.get('rpath') is None:
                    return
                if t is None or t.state.VALUE.name != o['after_state']:
                    fut = loop.create_future()
                    state_waiters.append((names[o['peer']], xw['rpath'], 'DOWNLOAD' if pw['role'] == 'U' else 'UPLOAD',
                                          o['after_state'], fut))
                    rec['status'] = 'no-state'
                    try:
                        await asyncio.wait_for(fut, 90.0)
                    except asyncio.TimeoutError:
                        return
                    rec['status'] = 'no-transfer'
                if o['delay']:
                    await asyncio.sleep(o['delay'] / 1000.0)
                if o['steps']:
                    await simloop.step(o['steps'])
            t = find(o['peer'], o['xfer'])
            if t is None:
                return
            rec['transfer'] = t
            rec['user'] = t.username
            rec['path'] = t.remote_path
            rec['direction'] = t.direction.name
            rec['pre'] = _snapshot(t)
            pend = reg.pending_for(t)
            rec['pending'] = sorted({e['routine'] for e in pend})
            handles = (getattr(t, '_remotely_queue_task', None), getattr(t, '_transfer_task', None))
            rec['orphans'] = sorted({e['routine'] for e in pend if e['task'] not in handles})
            rec['overlap'] = max([sum(1 for ct in cycles if ct > e['created'] + EPS) for e in pend] or [0])
            rec['had_dups'] = sorted({r for _, r, tr, _ in reg.dups if tr is t})
            rec['t_call'] = loop.time()
            rec['neg_index'] = len(reg.neg)
            rec['status'] = 'running'
            rec['final_op'] = o['op']

            async def call(kind):
                try:
                    if kind == 'abort':
                        await tm.abort(t)
                    elif kind == 'pause':
                        await tm.pause(t)
                    else:
                        await tm.remove(t)
                except InvalidStateTransition:
                    return 'refused'
                except asyncio.CancelledError:
                    raise
                except Exception as exc:
                    rec['error'] = type(exc).__name__ + ': ' + str(exc)[:200]
                    return 'error'
                return 'returned'

            status = await call(o['op'])
            rec['t_ret'] = loop.time()
            if status != 'returned':
                rec['status'] = status
                return
            rec['status'] = 'returned'
            rec['t_first'] = rec['t_ret']           # activity is judged from the first return on
            rec['snap'] = _snapshot(t)
            rec['pending_at_return'] = sorted({e['routine'] for e in reg.pending_for(t)})
            rec['started_during_call'] = sorted({e['routine'] for e in reg.neg[rec['neg_index']:]
                                                 if e['transfer'] is t and not e['task'].done()})
            rec['in_manager_at_return'] = any(x is t for x in tm.transfers)
            muted.add((t.username, t.remote_path))
            pp = peers[o['peer']]
            if pp['role'] == 'U' and pp['late_offer_ms'] is not None and \
                    not (o['peer_msg'] and o['peer_msg']['kind'] == 'queue_failed'):
                # (an offer for a download the peer itself has failed meanwhile would legitimately restart it)
                loop.call_later(pp['late_offer_ms'] / 1000.0, scripts[o['peer']].offer, t.remote_path, True)
            if o['then'] and o['op'] != 'remove':
                # call sequence on the same transfer (pause, later abort / remove): nothing may happen in between and
                # the frozen-field oracle applies from the return of the last call
                if o['gap']:
                    await asyncio.sleep(o['gap'] / 1000.0)
                if o['steps2']:
                    await simloop.step(o['steps2'])
                pre2 = _snapshot(t)
                rec['between'] = {f: (rec['snap'][f], pre2[f]) for f in FIELDS if rec['snap'][f] != pre2[f]}
                rec['t_first_snap'] = rec['snap']
                idx2 = len(reg.neg)
                status = await call(o['then'])
                rec['seq'] = o['op'] + '>' + o['then'] + ':' + status
                if status == 'error':
                    rec['status'] = 'error'
                    return
                if status == 'returned':
                    rec['final_op'] = o['then']
                    rec['t_ret'] = loop.time()
                    rec['snap'] = _snapshot(t)
                    rec['pending_at_return'] = sorted(set(rec['pending_at_return']) |
                                                      {e['routine'] for e in reg.pending_for(t)})
                    rec['started_during_call'] = sorted(set(rec['started_during_call']) | {
                        e['routine'] for e in reg.neg[idx2:] if e['transfer'] is t and not e['task'].done()})
                    rec['in_manager_at_return'] = any(x is t for x in tm.transfers)
            send_peer_msg(o, rec, t)
            user_stimulus(o, rec, t)

        def user_stimulus(o, rec, t):
            # after the user aborted / removed the transfer a second abort reason becomes true and disappears again:
            # the user blocks and later unblocks that peer, or un-shares and later re-shares (+ rescan) the directory.
            # Not generated after a pause: there the block itself legitimately aborts the upload (reason Blocked)
            us = o['user_stim']
            if us is None or rec['status'] != 'returned' or rec['final_op'] not in ('abort', 'remove') or \
                    len(c['ops']) != 1:
                return
            if us['kind'] == 'unshare' and not has_d:
                return
            rec['user_stim'] = us

            def do():
                if us['kind'] == 'block':
                    s.users.blocked[t.username] = BlockingFlag.ALL
                elif dir_shared[0]:
                    dir_shared[0] = False
                    client.shares.remove_shared_directory(share)

            def undo():
                if us['kind'] == 'block':
                    s.users.blocked.pop(t.username, None)
                elif not dir_shared[0]:
                    dir_shared[0] = True
                    client.shares.add_shared_directory(share)
                    side_tasks.append(asyncio.ensure_future(client.shares.scan()))
            loop.call_later(us['delay'] / 1000.0, do)
            loop.call_later((us['delay'] + us['undo']) / 1000.0, undo)

        def send_peer_msg(o, rec, t):
            # the peer says something about the file after the (last) call returned: a refusal / failure notice, never
            # a new queue request or offer
            pm = o['peer_msg']
            if pm is None or rec['status'] != 'returned':
                return
            sc = scripts[o['peer']]
            rec['peer_msg'] = dict(pm, sent=loop.time() + pm['delay'] / 1000.0)

            def go():
                if not world.net.can_connect_in(world.client_port(False)):
                    return
                if pm['kind'] == 'requeue':
                    # the peer repeats its queue request for a file the user paused / aborted: the client may refuse
                    # it (PeerTransferQueueFailed) or ignore it, it may not restart the upload. (Not sent after a
                    # remove or for a finished upload: there it is a legitimate new request)
                    if rec['direction'] == 'UPLOAD' and rec['final_op'] in ('pause', 'abort') and \
                            t.state.VALUE.name in ('PAUSED', 'ABORTED'):
                        sc.queue(t.remote_path)
                    return
                if pm['kind'] == 'queue_failed':
                    msg = M.PeerTransferQueueFailed.Request(t.remote_path, pm['reason'])
                elif pm['kind'] == 'upload_failed':
                    msg = M.PeerUploadFailed.Request(t.remote_path)
                else:
                    tk = sorted(m.ticket for _, m in getattr(sc, 'transfer_requests', []) if m.filename == t.remote_path)
                    msg = M.PeerTransferReply.Request(tk[-1] if tk else 1, False, reason=pm['reason'])
                sc._control().send_msg(msg)
            loop.call_later(pm['delay'] / 1000.0, go)

        events = []
        for pi, p in enumerate(peers):
            for xi, x in enumerate(p['xfers']):
                events.append((x['at'], 0, len(events), ('xfer', pi, xi)))
        for tr in c['triggers']:
            events.append((tr['at'], 1, len(events), ('trigger', tr)))
        for o in c['ops']:
            events.append((o['at'], 2, len(events), ('op', o)))
        events.sort(key=lambda e: e[:3])
        op_tasks = []
        side_tasks = []
        nstim = [0]
        dir_shared = [True]
        ghost = 0
        last = 0
        for at, _, _, ev in events:
            delay = t0 + at / 1000.0 - loop.time()
            if delay > 0:
                await asyncio.sleep(delay)
            last = max(last, at)
            check_dups_polled('before:' + ev[0])
            if ev[0] == 'xfer':
                _, pi, xi = ev
                p, x = peers[pi], peers[pi]['xfers'][xi]
                if x.get('rpath') is None:
                    continue
                if p['role'] == 'U':
                    if (names[pi], x['rpath']) not in muted:
                        await tm.download(names[pi], x['rpath'])
                        if p['offer_ms'] is not None:
                            loop.call_later(p['offer_ms'] / 1000.0, scripts[pi].offer, x['rpath'])
                else:
                    down = scripts[pi]
                    link = down.queue(x['rpath'])
                    if p['drop_link']:
                        link.ep.close(delay=0.005)
            elif ev[0] == 'trigger':
                tr = ev[1]
                user = names[tr['user']] if tr['user'] < len(names) else OTHER
                # filler messages sent back-to-back before the trigger: the link delivers one queued segment per
                # loop iteration, so the trigger is handled `pad` iterations later within its arrival instant
                for _ in range(tr['pad'] if tr['kind'] in ('status', 'adduser') else 0):
                    world.server.send(M.GetUserStats.Response(OTHER, UserStats(1000, 5, 10, 2)))
                if tr['kind'] == 'status':
                    if tr['status'] == 0:
                        offline_times.setdefault(user, []).append(loop.time())
                    world.server.send(M.GetUserStatus.Response(user, tr['status'], False))
                elif tr['kind'] in ('friend', 'block', 'rescan', 'sharedir'):
                    # configuration changes of the user that make the transfer manager re-evaluate its uploads
                    # (shares-changed management cycle); none of them concerns a scripted peer or a shared file
                    stim = tr['kind']
                    if stim == 'sharedir' and not (has_d and dir_shared[0]):
                        stim = 'friend'
                    nstim[0] += 1
                    if stim == 'friend':
                        s.users.friends.add('pal%d' % nstim[0])
                    elif stim == 'block':
                        s.users.blocked['foe%d' % nstim[0]] = BlockingFlag.ALL
                    elif stim == 'rescan':
                        side_tasks.append(asyncio.ensure_future(client.shares.scan()))
                    else:
                        client.shares.update_shared_directory(share)
                elif tr['kind'] == 'adduser':
                    st_ = tr['status'] or 1        # AddUser never reports a peer offline here
                    world.server.send(M.AddUser.Response(user, exists=True, status=st_,
                                                         user_stats=UserStats(1000, 5, 10, 2), country_code='BE'))
                else:
                    ghost += 1
                    await tm.download('ghost', '@@g\\x\\g%d.bin' % ghost)
            else:
                o = ev[1]
                if o['steps'] and not o['after_state']:
                    await simloop.step(o['steps'])
                last = max(last, at + (o['gap'] if o['then'] else 0))
                op_tasks.append(asyncio.ensure_future(do_op(o)))
                await simloop.step(1)
                check_dups_polled('after:op')
        # quiesce: every pending connect, timeout and retry gets its chance
        if any(o['after_state'] for o in c['ops']):
            # calls aimed at a state wait for it (at most 90 s)
            await asyncio.wait(op_tasks, timeout=125.0)
        extra = max([o['peer_msg']['delay'] for o in c['ops'] if o['peer_msg']] +
                    [o['user_stim']['delay'] + o['user_stim']['undo'] for o in c['ops'] if o['user_stim']] + [0]) / 1000.0
        end = max(t0 + last / 1000.0, loop.time() if any(o['after_state'] for o in c['ops']) else 0.0) + extra + HORIZON
        while loop.time() < end - EPS:
            await asyncio.sleep(min(5.0, end - loop.time()))
            check_dups_polled('quiesce')
        for t in op_tasks:
            if not t.done():
                t.cancel()
        await asyncio.gather(*op_tasks, *side_tasks, return_exceptions=True)

        # ---- collect ---------------------------------------------------------
        out['end'] = loop.time()
        out['final'] = {id(rec['transfer']): _snapshot(rec['transfer']) for rec in out['ops'] if 'transfer' in rec}
        out['pending_end'] = {id(rec['transfer']): sorted({e['routine'] for e in reg.pending_for(rec['transfer'])})
                              for rec in out['ops'] if 'transfer' in rec}
        out['dups'] = [(round(t - t0, 4), r, tr.username, tr.remote_path, n) for t, r, tr, n in reg.dups]
        out['dup_ids'] = {(id(tr), r) for _, r, tr, _ in reg.dups}
        out['neg_tasks'] = [(id(e['transfer']), e['routine'], e['created'], e['done_at']) for e in reg.neg]
        out['link_times'] = {names[pi]: sorted(l.ep.link.created for l in sc.peer.links)
                             for pi, sc in enumerate(scripts)}
        out['conn_tasks'] = [{'kind': e['kind'], 'username': e['username'], 'typ': e['typ'], 'created': e['created'],
                              'done_at': e['done_at']} for e in reg.conn]
        out['added'] = [(t, tr.username, tr.remote_path, tr.direction.name, id(tr)) for t, tr in added]
        out['transitions'] = [(t, id(tr), o, n) for t, tr, o, n in transitions]
        out['offline'] = offline_times
        out['cycles'] = len(cycles)
        frames = []      # (arrival time, user, class name, filename, ticket, allowed, link created)
        file_tickets = []  # (arrival time, user, ticket)
        for pi, sc in enumerate(scripts):
            for link in sc.peer.links:
                for t, m in link.messages:
                    if isinstance(m, tuple):
                        continue
                    frames.append((t, names[pi], type(m).__qualname__.split('.')[0], getattr(m, 'filename', None),
                                   getattr(m, 'ticket', None), getattr(m, 'allowed', None)))
            if peers[pi]['role'] == 'D':
                for ticket, att in sc.attempts.items():
                    if att.file_link is not None:
                        file_tickets.append((att.file_link.ep.link.created, names[pi], ticket))
        out['frames'] = frames
        out['file_tickets'] = file_tickets
        # tickets belonging to a file
        tickets = {}
        for pi, sc in enumerate(scripts):
            if peers[pi]['role'] == 'U':
                for att in sc.attempts:
                    tickets.setdefault((names[pi], att.path), set()).add(att.ticket)
            else:
                for t, m in sc.transfer_requests:
                    tickets.setdefault((names[pi], m.filename), set()).add(m.ticket)
        out['tickets'] = tickets
        ips = {sc.peer.ip: names[pi] for pi, sc in enumerate(scripts)}
        out['opened'] = [(t, ips[h], o) for t, h, _, o in world.net.opened if h in ips]
        out['c2p'] = [(t, m.username, m.typ) for t, _, m in world.server.frames
                      if isinstance(m, M.ConnectToPeer.Request)]
        out['stopped'] = {id(rec['transfer']): rec['t_ret'] for rec in out['ops'] if rec['status'] == 'returned'}
        loop.set_task_factory(None)
        await client.stop()

    _, loop_errors = simworld.run_world(main, max_iterations=6_000_000)
    _judge(c, out, res, names, loop_errors)


def _judge(c, out, res, names, loop_errors):
    t0 = out['t0']
    peers = c['peers']

    def rel(t):
        return round(t - t0, 4)

    # ---- at all times: <= 1 negotiation task per routine and transfer -------------------------
    dup_routines = sorted({r for _, r, _, _, _ in out['dups']} | {r for _, r, _, _, _, _ in out['polled_dups']})
    for r in dup_routines:
        ex = [d for d in out['dups'] if d[1] == r][:4] or [d for d in out['polled_dups'] if d[1] == r][:4]
        res.violate(f'C06/duplicate-negotiation:{r}',
                    f'(t, routine, user, file, pending tasks of that routine for that transfer) {ex}; mode={c["mode"]}')

    # behavioural: <= 1 PeerTransferQueue per file between two transitions of the transfer
    by_file = {}
    for t, user, cls, fname, ticket, allowed in out['frames']:
        if cls == 'PeerTransferQueue':
            by_file.setdefault((user, fname), []).append(t)
    ids = {(u, p, d): i for _, u, p, d, i in out['added']}
    for (user, fname), times in sorted(by_file.items()):
        times.sort()
        tid = ids.get((user, fname, 'DOWNLOAD'))
        for a, b in zip(times, times[1:]):
            moved = any(i == tid and a - 0.01 < t <= b for t, i, _, _ in out['transitions'])
            off = any(a - 0.01 < t <= b for t in out['offline'].get(user, []))
            if not moved and not off:
                root = 'C06/duplicate-negotiation:queue-remotely>' if (tid, 'queue-remotely') in out['dup_ids'] else 'C06/'
                res.violate(root + 'duplicate-frames:PeerTransferQueue',
                            f'{user} {fname}: PeerTransferQueue received at {rel(a)} and {rel(b)} without a state '
                            f'transition or offline status in between; mode={c["mode"]}')
                break

    # ---- per stopped transfer ---------------------------------------------------------------------
    nontrivial = False
    keys = []
    for rec in out['ops']:
        o = rec['op']
        res.label('op:' + o['op'], 'op-status:' + rec['status'])
        if rec['status'] == 'no-transfer' or 'pre' not in rec:
            continue     # the call was never made (transfer missing / the awaited state was not reached in 90 s)
        p = peers[o['peer']]
        pre = rec['pre']
        point = f"{rec['direction'][:2]}:{pre['state']}" + ('+rq' if pre['remotely_queued'] else '')
        res.label('point:' + point, 'pending:' + ('+'.join(rec['pending']) or 'none'))
        if rec['pending']:
            res.label('overlap:%s' % ('0' if rec['overlap'] == 0 else ('1' if rec['overlap'] == 1 else '2+')))
        if rec['pending'] and rec['overlap'] >= 1:
            nontrivial = True
        keys.append([rec['direction'], o['op'], o['then'], pre['state'], pre['remotely_queued'], rec['pending'],
                     c['mode'], _reach_class(p), min(rec['overlap'], 3), o['steps']])
        if rec['status'] == 'running':
            res.violate(f'C06/call-never-returned:{o["op"]}', f'{o} state before={pre} pending={rec["pending"]}')
            continue
        if rec['status'] == 'error':
            res.violate(f'C06/unexpected-exception:{rec["error"].split(":")[0]}@{o["op"]}', f'{o}: {rec["error"]}')
            continue
        if rec['status'] != 'returned':
            continue
        tid = id(rec['transfer'])
        # activity (frames, connections, tasks) is judged from the return of the first call of a sequence on, the
        # frozen fields from the return of the last one
        user, path, T = rec['user'], rec['path'], rec['t_first']
        final_op = rec['final_op']
        if rec.get('seq'):
            res.label('seq:' + rec['seq'])
        had_dup = sorted({r for (i, r) in out['dup_ids'] if i == tid})
        if had_dup:
            root = f'C06/duplicate-negotiation:{had_dup[0]}>'
        elif rec['orphans']:
            root = f'C06/lost-task-handle:{rec["orphans"][0]}>'
        elif rec['started_during_call']:
            root = f'C06/negotiation-started-during-call:{rec["started_during_call"][0]}>'
        elif o['op'] == 'remove' and pre['state'] in ('COMPLETE', 'FAILED', 'ABORTED') and rec['pending_at_return']:
            # remove() of a transfer that cannot be aborted any more left its negotiation task running
            root = f'C06/remove-of-finished-transfer-keeps-task:{rec["pending_at_return"][0]}>'
            res.violate(root[:-1], f'remove() of a {pre["state"]} transfer returned at {rel(T)} while '
                                   f'{rec["pending_at_return"]} of {user} {path} is still pending; mode={c["mode"]}')
        else:
            root = 'C06/'
        ctx = (f'{o["op"]} of {rec["direction"]} {user} {path} called at {rel(rec["t_call"])} (state {pre["state"]}, '
               f'pending {rec["pending"]}, not in handle {rec["orphans"]}) returned at {rel(T)}'
               + (f', then {rec["seq"]} at {rel(rec["t_ret"])}' if rec.get('seq') else '') + f'; mode={c["mode"]}')
        if rec['orphans'] and not had_dup:
            res.violate(f'C06/lost-task-handle:{rec["orphans"][0]}',
                        f'a pending negotiation task is no longer referenced by the transfer: {ctx}')
        elif rec['started_during_call'] and not had_dup:
            res.violate(f'C06/negotiation-started-during-call:{rec["started_during_call"][0]}',
                        f'a negotiation task created while the call was in progress is pending at return: {ctx}')

        # (4) no pending negotiation task at return / at the end
        for r in sorted(set(rec['pending_at_return']) | set(out['pending_end'].get(tid, []))):
            res.violate(f'{root}task-pending-after-return:{r}', ctx)

        created_after = sorted({r for i, r, created, _ in out['neg_tasks'] if i == tid and created > T + EPS})
        for r in created_after:
            res.violate(f'{root}task-created-after-return:{r}', ctx)

        # remotely_queued is only set when the queue message was delivered: impossible without any connection
        if rec['direction'] == 'DOWNLOAD' and rec['snap']['remotely_queued'] and \
                not any(t <= T + EPS for t in out['link_times'].get(user, [])):
            res.violate(f'{root}remotely-queued-without-connection',
                        f'remotely_queued is set at return although no connection with {user} ever existed; {ctx}')

        # (3) fields frozen (between the calls of a sequence, and after the last one)
        for f, (a, b) in sorted(rec.get('between', {}).items()):
            if f == 'remotely_queued' and b is False and any(t + LAT >= T - EPS for t in out['offline'].get(user, [])):
                continue
            res.violate(f'{root}field-changed-after-return:{f}', f'{f}: {a!r} -> {b!r} before the next call; {ctx}')
        fin = out['final'][tid]
        # documented effects of a message the peer sent about the file after the call returned: a queue failure fails
        # a PAUSED download with the peer's reason, an upload failure notice clears remotely_queued
        pm = rec.get('peer_msg')
        alt = {}
        if pm and rec['direction'] == 'DOWNLOAD' and rec['in_manager_at_return']:
            if pm['kind'] == 'queue_failed' and rec['snap']['state'] == 'PAUSED':
                alt = {'state': 'FAILED', 'fail_reason': pm['reason']}
            elif pm['kind'] == 'upload_failed':
                alt = {'remotely_queued': False}
        if alt.get('state') and fin['state'] == alt['state'] and fin['fail_reason'] != alt['fail_reason']:
            res.violate(f'{root}field-changed-after-return:fail_reason',
                        f'fail_reason is {fin["fail_reason"]!r} after the peer failed the queue request with reason '
                        f'{alt["fail_reason"]!r}; {ctx}')
        for f in FIELDS:
            if fin[f] != rec['snap'][f]:
                if f in alt and fin[f] == alt[f]:
                    continue
                if f == 'remotely_queued' and fin[f] is False and \
                        any(t + LAT >= T - EPS for t in out['offline'].get(user, [])):
                    continue        # an OFFLINE status of the user handled after T legitimately resets the flag
                res.violate(f'{root}field-changed-after-return:{f}',
                            f'{f}: {rec["snap"][f]!r} -> {fin[f]!r}; {ctx}')
        # expected effect of the call itself
        want = {'abort': 'ABORTED', 'pause': 'PAUSED'}.get(final_op)
        if want and rec['snap']['state'] != want:
            res.violate(f'{root}state-at-return:{final_op}:{rec["snap"]["state"]}', ctx)
        if final_op == 'remove' and rec['in_manager_at_return']:
            res.violate(f'{root}still-in-manager-after-remove', ctx)

        # (1) frames naming the file after T + latency
        tks = out['tickets'].get((user, path), set())
        late = T + LAT + EPS
        seen_kinds = set()
        for t, u, cls, fname, ticket, allowed in sorted(out['frames'], key=lambda f: f[0]):
            if u != user or t <= late:
                continue
            hit = None
            if cls in ('PeerTransferQueue', 'PeerTransferRequest', 'PeerPlaceInQueueRequest', 'PeerUploadFailed') \
                    and fname == path:
                hit = cls
            elif cls == 'PeerTransferReply' and ticket in tks and allowed:
                hit = 'PeerTransferReply:allowed'
            if hit and hit not in seen_kinds:
                seen_kinds.add(hit)
                res.violate(f'{root}frame-after-return:{hit}', f'{cls} arrived at {rel(t)}; {ctx}')
        for t, u, ticket in out['file_tickets']:
            if u == user and ticket in tks and t > T + EPS and 'file' not in seen_kinds:
                seen_kinds.add('file')
                res.violate(f'{root}frame-after-return:file-connection-ticket',
                            f'file connection for ticket {ticket} opened at {rel(t)}; {ctx}')

        # (2) connections on its behalf (attributed per user: a root cause seen on any transfer of that user counts)
        croot = root
        if croot == 'C06/':
            udups = sorted({r for _, r, u, _, _ in out['dups'] if u == user})
            uorph = sorted({r for rec2 in out['ops'] if rec2.get('user') == user for r in rec2.get('orphans', [])})
            ustart = sorted({r for rec2 in out['ops'] if rec2.get('user') == user
                             for r in rec2.get('started_during_call', [])})
            if udups:
                croot = f'C06/duplicate-negotiation:{udups[0]}>'
            elif uorph:
                croot = f'C06/lost-task-handle:{uorph[0]}>'
            elif ustart:
                croot = f'C06/negotiation-started-during-call:{ustart[0]}>'
        def justified(t):
            for ta, u, pth, d, i in out['added']:
                if u != user or i == tid or ta > t + EPS:
                    continue
                stop = out['stopped'].get(i)
                if stop is None or stop >= t - EPS:
                    return True
            return False
        flagged = set()
        for t, u, outcome in out['opened']:
            if u == user and t > T + EPS and not justified(t) and 'direct' not in flagged:
                flagged.add('direct')
                res.violate(f'{croot}connection-after-return:direct:{c["mode"]}',
                            f'connection attempt to {user} ({outcome}) at {rel(t)}; {ctx}')
        for t, u, typ in out['c2p']:
            if u == user and t > T + LAT + EPS and not justified(t - LAT) and 'indirect' not in flagged:
                flagged.add('indirect')
                res.violate(f'{croot}connection-after-return:indirect:{c["mode"]}',
                            f'ConnectToPeer({typ}) for {user} reached the server at {rel(t)}; {ctx}')
        for e in out['conn_tasks']:
            if e['username'] != user or e['created'] > T + EPS:
                continue
            done = e['done_at']
            if (done is None or done > T + EPS) and not justified(T) and e['kind'] not in flagged:
                flagged.add(e['kind'])
                res.violate(f'{croot}connect-task-after-return:{e["kind"]}',
                            f'{e["kind"]} task ({e["typ"]}) created at {rel(e["created"])} '
                            f'{"still pending at the end" if done is None else "ended at %s" % rel(done)}; {ctx}')

    res.nontrivial = nontrivial
    res.key = keys
    res.label('mode:' + c['mode'])
    for p in peers:
        res.label('reach:' + _reach_class(p))
    if out['dups'] or out['polled_dups']:
        res.label('duplicates-seen')
    res.info = {'cycles': out['cycles'], 'ops': [{k: v for k, v in rec.items() if k not in ('transfer',)}
                                                 for rec in out['ops']]}


def run_shard(ctx):
    k = 1 if ctx.tier == 'quick' else 27         # cases per shard = k * the numbers below
    # targeted profiles first: on an overloaded machine the soft time budget then cuts the broad exploration
    ctx.explore(sequence_case(), 36 * k, salt=6)
    ctx.explore(peermsg_case(), 28 * k, salt=8)
    ctx.explore(upfail_case(), 22 * k, salt=9)
    ctx.explore(both_case(), 22 * k, salt=7)
    ctx.explore(offline_case(), 25 * k, salt=5)
    ctx.explore(case_strategy(focus='reoffer'), 22 * k, salt=4)
    ctx.explore(case_strategy(focus='mid'), 20 * k, salt=3)
    ctx.explore(case_strategy(focus='D'), 20 * k, salt=2)
    ctx.explore(case_strategy(focus='U'), 20 * k, salt=1)
    ctx.explore(case_strategy(), 70 * k, salt=0)


MANIFEST_ENTRY = {
    'technique': 'property-based testing (Hypothesis): generated negotiation scripts, peer reachability, management-cycle '
                 'triggers and user-call timings against a real SoulSeekClient on a virtual-time loop with in-memory TCP, '
                 'a simulated server and scripted transfer peers; silence / frozen-field / task-census oracle',
    'level_text': 'Generated-schedule exploration of the real client (TransferManager, Network, state machine) in both '
                  'transfer directions: every frame that reaches a scripted endpoint, every connection attempt, every '
                  'asyncio task created for a remote-queue or initialisation routine and the transfer fields are '
                  'compared with "nothing after the call returned" for 200 virtual seconds, and the number of pending '
                  'negotiation tasks per transfer is checked at every task creation.',
    'level_note': 'Schedules are sampled (times on a 1 ms grid plus 0..6 loop iterations), not enumerated; frames written '
                  'after the return within the same virtual instant are tolerated. Trusted base: virtual loop, in-memory '
                  'TCP with 1 ms latency, the simulated server and scripted peers in vfw/, the loop task factory used as '
                  'task census.',
}



def _u(**kw):
    p = {'role': 'U', 'direct': 'accept', 'direct_ms': 6000, 'indirect': 'silent', 'indirect_ms': 2,
         'xfers': [{'at': 0, 'size': 1000}], 'auto_start': True, 'start_ms': 10, 'fileconn_ms': 5, 'fault': None,
         'fault_k': 0, 'fault_n': 1, 'drop_link': False}
    p.update(kw)
    return p


def _case(**kw):
    c = {'mode': 'fallback', 'up_kbps': 0, 'down_kbps': 0, 'exec_ms': 0, 'triggers': []}
    c.update(kw)
    return c


# One deterministic minimal case per genuine defect found on the pinned tree (regression replays once repaired).
KNOWN_REPLAYS = {
    # manage_transfers starts another _queue_remotely task on every cycle while the first is still connecting (6 s
    # connect, one unrelated status message); abort() cancels only the last one
    'C06/duplicate-negotiation:queue-remotely': _case(
        peers=[_u()], triggers=[{'at': 1000, 'kind': 'status', 'user': 1, 'status': 2}],
        ops=[{'peer': 0, 'xfer': 0, 'op': 'abort', 'at': 3600, 'steps': 0}]),
    # a failed upload initialisation is retried at once; the done-callback of the finished task then clears the handle
    # of the new one, so abort() cancels nothing
    'C06/lost-task-handle:initialize-upload': _case(
        peers=[{'role': 'D', 'direct': 'refuse', 'direct_ms': 3000, 'indirect': 'cannot', 'indirect_ms': 1000,
                'xfers': [{'at': 0, 'size': 1000}], 'drop_link': True, 'silent': False, 'allow': True, 'reply_ms': 2,
                'offset_ms': 2}],
        ops=[{'peer': 0, 'xfer': 0, 'op': 'abort', 'at': 5000, 'steps': 0}]),
    # connect mode RACE: cancelling the caller leaves the direct / indirect connect tasks running
    'C06/connection-after-return:direct:race': _case(
        mode='race', peers=[_u(direct_ms=3000)], ops=[{'peer': 0, 'xfer': 0, 'op': 'abort', 'at': 10, 'steps': 0}]),
    # two aborts in the same instant: the cycle requested by the first runs while the second awaits its cancelled task
    'C06/negotiation-started-during-call:queue-remotely': _case(
        peers=[_u(direct='hang', xfers=[{'at': 0, 'size': 1000}, {'at': 500, 'size': 1000}]),
               _u(direct='hang', xfers=[{'at': 0, 'size': 1000}, {'at': 500, 'size': 1000}])],
        ops=[{'peer': 0, 'xfer': 1, 'op': 'abort', 'at': 2000, 'steps': 0},
             {'peer': 1, 'xfer': 1, 'op': 'abort', 'at': 2000, 'steps': 0}]),
    # the peer offers the file by itself while the client's own remote-queue attempt still hangs in a 6 s connect; the
    # 1 kB download completes, remove() cannot abort a COMPLETE transfer and leaves the remote-queue task running
    'C06/remove-of-finished-transfer-keeps-task:queue-remotely': _case(
        peers=[_u(offer_ms=100, late_offer_ms=None)], ops=[{'peer': 0, 'xfer': 0, 'op': 'remove', 'at': 1000, 'steps': 0}]),
    # abort of an INCOMPLETE download removes the file (3 ms per file-system call); the peer's new offer arrives
    # meanwhile and is accepted
    'C06/negotiation-started-during-call:initialize-download': _case(
        exec_ms=3, peers=[_u(direct_ms=2, indirect='pierce', xfers=[{'at': 0, 'size': 5000}], start_ms=100,
                             fault='reset', fault_k=500)],
        ops=[{'peer': 0, 'xfer': 0, 'op': 'abort', 'at': 252, 'steps': 0}]),
}
