"""C03 — transfer state changes follow the documented state graph (DESIGN §3 C03)."""
from __future__ import annotations

import asyncio
import itertools
import json
import os
import shutil
import tempfile
import types

from hypothesis import strategies as st

from vfw import simloop
from vfw.runner import CaseResult

PROPERTY = 'C03'
LEVEL = 'exploration'
RULE = (
    "Restart tier: transfers in every state x direction x progress situation (one per case, enumerated; 2..6 per case "
    "sampled) are stored through a real TransferShelveCache by one TransferManager and loaded by a fresh one "
    "(load_data), with a recording TransferStateListener attached from a TransferAddedEvent listener and the manager's "
    "own listener observed; every (old,new) announced while loading must be a pinned edge and the loaded state must be "
    "the repair read_cache makes on HEAD (INITIALIZING -> QUEUED, DOWNLOADING/UPLOADING -> COMPLETE if all bytes were "
    "transfered else INCOMPLETE, times reset, every other state kept; remotely_queued cleared); non-trivial if the "
    "stored state needs repair. Operation tier: "
    "Case = start state (10) x direction x local-file situation (none / file on disk / path without file / path is a "
    "directory so that os.remove really raises IsADirectoryError / file on disk whose removal raises PermissionError or "
    "OSError(EBUSY), injected in the executor job; all 9^2 depth-2 sequences per start state are enumerated for each "
    "failing situation, HEAD's behaviour pinned in the model: the failure is logged, local_path is forgotten, the abort "
    "goes on) x progress "
    "situation (filesize in {unknown, 0, n} x bytes_transfered in {0, partial, == filesize, > filesize}, kept consistent "
    "with the start state; all 9^2 sequences of depth 2 are enumerated for each of the 12 situations) x initial "
    "time and queue fields, a list of operations from {queue, queue(remotely), pause, abort(reason), fail(reason), "
    "complete, incomplete, initialize, start_transferring} issued through transfer.state.X() or through "
    "TransferManager.abort/queue/pause on a real Transfer added to a real TransferManager, and the slow ingredients: "
    "dummy _transfer_task / _remotely_queue_task that need d loop iterations to honour cancellation, an executor "
    "delay on the file removal, a listener that yields k iterations inside the notification. 'History' cases await "
    "each operation before the next (every start state x direction x all 9^3 sequences of depth 3 and all 12^2 "
    "sequences including the manager entry points are enumerated, depth 4..8 is sampled); 'schedule' cases start 2..3 "
    "operations as separate tasks 0..6 loop iterations apart (all 9^2 pairs per start state x direction are enumerated "
    "under a fixed slow configuration, the rest is sampled), optionally one of them from inside the transfer task "
    "itself (a transfer task finishing), optionally with the coroutine object created when the operation is scheduled "
    "and awaited one iteration later (asyncio.gather(transfer.state.a(), transfer.state.b()), the pattern of "
    "TransferManager.manage_shares_changed; all 9^2 pairs enumerated), optionally with the caller of one operation "
    "cancelled 0..8 iterations after it was started (while it waits for the lock, during task cancellation / file "
    "removal, or while the slow listener is being notified; enumerated for every legal first operation x every second "
    "operation x k in {1,2,3}). Three listeners are registered: the TransferManager, a recording listener that yields "
    "k iterations, and a recording listener behind it; optionally a fourth one in front of the recorders re-enters the "
    "API for the same transfer from inside its callback (manager / transfer.state x queue / pause / abort, bounded by "
    "asyncio.wait_for(0.5 s); enumerated for every legal first operation x 6 nested requests x every second "
    "operation). Oracle: the transfer lock is replaced by an observing subclass that snapshots "
    "all transfer fields, the file and the tasks' cancel requests at every acquire/release; a sequential reference "
    "model (pinned graph pinned/transfer_graph.json plus the per-transition effects) is applied in lock-acquisition "
    "order; every notification (old,new) must be a pinned edge and chain; every result (True/False, "
    "InvalidStateTransition) and every field after every operation must equal the model; an operation that reports "
    "refusal must leave every snapshot field unchanged. A divergence of an operation that ran on a state object "
    "which was no longer the transfer's state when it got the lock is reported under C03/stale-dispatch:* (one root "
    "cause) and ends the evaluation of that case. Non-trivial = schedule in which an operation waited for the lock "
    "or the state changed between call and lock acquisition, or a case containing a refused operation; distinct = "
    "distinct case document. Cases with a cancelled caller or a re-entrant listener (safety part only; a nested request that "
    "times out on the non re-entrant lock is its outcome and has no effect): every (old,new) either listener saw is a pinned edge and is "
    "a transition that was really made (every Transfer.transition call is recorded: state before -> state set), no listener is told the same "
    "transition more often than it was made, refusals are free of side effects (a listener that is skipped because "
    "the caller was cancelled mid-notification is not a violation); non-trivial if the cancellation hit a running "
    "operation."
)
ASSUMPTIONS = [
    "restart tier: the state repair of TransferManager.read_cache is pinned from HEAD (it maps an interrupted upload "
    "to INCOMPLETE as well, silently, before the transfer is added); persistence of the other fields is C17's subject",
    "asyncio.Lock is FIFO and every entry point (state method wrapper, TransferManager.abort/queue/pause) reaches "
    "Lock.acquire without yielding, so the observed acquisition order is the order in which the case starts the "
    "operations (the order is observed, not assumed, by the instrumented lock)",
    "the effects of an *accepted* transition (which fields are reset, when complete_time is set, file removal for "
    "downloads only, task cancellation) are taken from transfer/state.py, the TransferManager docstrings and "
    "tests/unit/transfer/test_transfer_state.py; the legal edges are the pinned graph",
    "start states are installed the way the unit tests and TransferManager.read_cache do it "
    "(transfer.state = TransferState.init_from_state(...)) with fields set consistently with that state",
    "operations issued from inside the transfer task are restricted to those a transfer task really issues "
    "(no abort/pause of itself)",
    "a caller of a user-API operation is cancelled only where the case says so (op field 'c' = loop iterations after "
    "its task was started); cases containing such a cancellation are judged by the safety part only (every notification is a "
    "pinned edge and a transition really made, none is delivered twice, refusals without side effect), because a "
    "cancelled operation may legitimately be left half done (tasks cancelled or file removed without a transition) "
    "and the property does not promise that listeners behind the one being notified are still told",
    "observation wraps Transfer._state_lock in a proxy that delegates to the library's own lock object and only "
    "records (the lock type is the library's), wraps the instance's transition() to record the transitions really "
    "made, and the dummy tasks "
    "are asyncio.Task subclasses that only record cancel(); the virtual clock is advanced by 1 ms at every lock "
    "acquire/release so that time stamps set by different operations are distinguishable",
]
BUDGET_S = {'quick': 240, 'thorough': 1800}

_HERE = os.path.dirname(os.path.abspath(__file__))
with open(os.path.join(os.path.dirname(_HERE), 'pinned', 'transfer_graph.json'), encoding='utf-8') as _fh:
    _GRAPH = json.load(_fh)
STATES = list(_GRAPH['states'])
EDGES = {k: frozenset(v) for k, v in _GRAPH['edges'].items()}
_TARGETS = dict(_GRAPH['operations'])

OPS = ['queue', 'queue_remotely', 'pause', 'abort', 'fail', 'complete', 'incomplete', 'initialize',
       'start_transferring']
MANAGER_OPS = ('queue', 'pause', 'abort')
IN_TASK_OPS = ('queue', 'queue_remotely', 'fail', 'complete', 'incomplete', 'initialize', 'start_transferring')
EXEC_DELAYS = [0.0, 0.002, 0.5]
TRANSFERRING = ('DOWNLOADING', 'UPLOADING')
REASONS = [None, 'Requested', 'Blocked', 'File not shared', 'Cancelled', 'File not shared.', 'x']

# local-file situations (case field 'file'): what a removal of the local file meets
#   0 no local_path; 1 file on disk; 2 local_path without a file; 3 local_path is a directory (os.remove really raises
#   IsADirectoryError); 4 / 5 file on disk but os.remove raises PermissionError / OSError(EBUSY) (injected in the
#   executor job, the way a file in use or a read-only file system fails)
FILE_SITUATIONS = 6
FILE_ON_DISK = (1, 3, 4, 5)          # something exists at local_path
FILE_REMOVABLE = (1,)
# re-entrant listener (case field 're'): the nested request it issues from inside its notification callback
REENTRANT_CALLS = [('queue', True), ('pause', True), ('abort', True), ('queue', False), ('pause', False), ('abort', False)]
NESTED_TIMEOUT = 0.5

# progress fields of the start state (case field 'prog' = index of filesize * 4 + index of bytes kind)
FILESIZES = [None, 0, 1000]
BYTES_KINDS = ['none', 'partial', 'all', 'more']


def progress_fields(prog, state):
    """(filesize, bytes_transfered) of progress situation ``prog``, kept consistent with the start state: a COMPLETE
    transfer has received exactly its (known) size, a VIRGIN transfer has received nothing."""
    filesize = FILESIZES[prog // len(BYTES_KINDS)]
    kind = BYTES_KINDS[prog % len(BYTES_KINDS)]
    if state == 'COMPLETE':
        filesize = 1000 if filesize is None else filesize
        return filesize, filesize
    if state == 'VIRGIN' or kind == 'none':
        return filesize, 0
    if kind == 'partial':
        return filesize, (filesize // 2) if filesize else 400
    if kind == 'all':
        return filesize, 1000 if filesize is None else filesize
    return filesize, (filesize or 0) + 400


INIT_START_TIME = 1_600_000_100.0
INIT_COMPLETE_TIME = 1_600_000_120.0

FIELDS = ('state', 'fail_reason', 'abort_reason', 'remotely_queued', 'local_path', 'file', 'filesize',
          'bytes_transfered', 'place_in_queue', 'queue_attempts', 'last_queue_attempt', 'upload_request_attempts',
          'last_upload_request_attempt', 'start_time', 'complete_time', 'cancel_transfer_task', 'cancel_queue_task')


def op_target(name: str, download: bool) -> str:
    tgt = _TARGETS['queue' if name == 'queue_remotely' else name]
    if '|' in tgt:
        return 'DOWNLOADING' if download else 'UPLOADING'
    return tgt


# ---------------------------------------------------------------------------
# case normalisation (run_case is total: every value is clamped into the domain)

def _int(v, lo, hi, default=0):
    try:
        v = int(v)
    except Exception:
        return default
    return max(lo, min(hi, v))


def normalise(case):
    if not isinstance(case, dict):
        return None
    state = STATES[_int(case.get('state', 0), 0, 10 ** 6) % len(STATES)]
    download = bool(_int(case.get('dir', 0), 0, 10 ** 6) % 2)
    # the transferring state matches the direction
    if state == 'DOWNLOADING' and not download:
        state = 'UPLOADING'
    elif state == 'UPLOADING' and download:
        state = 'DOWNLOADING'
    file = _int(case.get('file', 0), 0, 10 ** 6) % FILE_SITUATIONS
    if download and state == 'ABORTED':
        file = 0        # an aborted download has no local file any more
    started = bool(case.get('started', False))
    if state in TRANSFERRING or state == 'COMPLETE':
        started = True
    if state == 'VIRGIN':
        started = False
    ops = []
    intask = None
    raw_ops = case.get('ops')
    for raw in (raw_ops if isinstance(raw_ops, list) else [])[:8]:
        if not isinstance(raw, dict):
            continue
        name = OPS[_int(raw.get('o', 0), 0, 10 ** 6) % len(OPS)]
        reason = raw.get('r')
        if not isinstance(reason, str):
            reason = None
        else:
            reason = reason[:24]
        via_manager = bool(raw.get('m', False)) and name in MANAGER_OPS
        in_task = bool(raw.get('t', False)) and name in IN_TASK_OPS and not via_manager and intask is None
        if in_task:
            intask = len(ops)
        # 'early': the coroutine object is created (``transfer.state.X()`` evaluated) when the operation is
        # scheduled and awaited by its task one iteration later, like TransferManager.manage_shares_changed does
        early = bool(raw.get('e', False)) and not via_manager and not in_task
        # 'c': the caller's task is cancelled that many loop iterations after it was started (None = never), the
        # way asyncio.wait_for(manager.abort(t), timeout) or a cancelled user task does
        cancel = raw.get('c')
        cancel = None if (cancel is None or in_task) else _int(cancel, 0, 8)
        ops.append(types.SimpleNamespace(name=name, reason=reason, manager=via_manager, in_task=in_task,
                                         early=early, gap=_int(raw.get('g', 0), 0, 6), cancel=cancel))
    tasks = _int(case.get('tasks', 0), 0, 3)
    if intask is not None:
        tasks |= 1
    # re-entrant listener: None, or index into REENTRANT_CALLS; 're_at' = on which of its notifications it re-enters
    re_call = case.get('re')
    if re_call is not None:
        re_call = REENTRANT_CALLS[_int(re_call, 0, 10 ** 6) % len(REENTRANT_CALLS)]
    re_at = _int(case.get('re_at', 0), 0, 3)
    # progress situation: absent -> the default of the start state; else index into FILESIZES x BYTES_KINDS
    prog = case.get('prog')
    if prog is not None:
        prog = _int(prog, 0, 10 ** 6) % (len(FILESIZES) * len(BYTES_KINDS))
    return types.SimpleNamespace(
        state=state, download=download, file=file, started=started, rq=bool(case.get('rq', False)), prog=prog,
        seq=bool(case.get('seq', True)), ops=ops, intask=intask, tasks=tasks,
        has_cancel=any(op.cancel is not None for op in ops), re=re_call, re_at=re_at,
        d=_int(case.get('d', 0), 0, 4), x=EXEC_DELAYS[_int(case.get('x', 0), 0, 10 ** 6) % len(EXEC_DELAYS)],
        ly=_int(case.get('ly', 0), 0, 3))


# ---------------------------------------------------------------------------
# reference model

def initial_fields(c, path):
    """Field values of the start state; used both to set up the real transfer and as the model's start."""
    s = c.state
    f = {
        'state': s,
        'fail_reason': 'F-init' if s == 'FAILED' else None,
        'abort_reason': 'Requested' if s == 'ABORTED' else None,
        'remotely_queued': c.rq and s in ('QUEUED', 'INITIALIZING', 'INCOMPLETE', 'PAUSED'),
        'local_path': path if c.file else None,
        'file': c.file in FILE_ON_DISK,
        'filesize': None if s == 'VIRGIN' else 1000,
        'bytes_transfered': 0,
        'place_in_queue': None, 'queue_attempts': 0, 'last_queue_attempt': 0.0,
        'upload_request_attempts': 0, 'last_upload_request_attempt': 0.0,
        'start_time': None, 'complete_time': None,
        'cancel_transfer_task': 0, 'cancel_queue_task': 0,
    }
    if s == 'COMPLETE':
        f['bytes_transfered'] = 1000
    elif c.started:
        f['bytes_transfered'] = 400
    if c.prog is not None:
        f['filesize'], f['bytes_transfered'] = progress_fields(c.prog, s)
    if s not in ('VIRGIN', 'COMPLETE') and s not in TRANSFERRING:
        f.update(place_in_queue=3, queue_attempts=2, last_queue_attempt=5.0,
                 upload_request_attempts=1, last_upload_request_attempt=6.0)
    if c.started:
        f['start_time'] = INIT_START_TIME
        if s in ('COMPLETE', 'INCOMPLETE', 'FAILED', 'ABORTED', 'PAUSED'):
            f['complete_time'] = INIT_COMPLETE_TIME
    return f


def model_apply(m, aux, op, k, download, removable=True):
    """Apply operation ``op`` (k-th in lock order) to model fields ``m``; returns the expected result
    'T' (done) / 'F' (refused) / 'C' (the issuing transfer task was cancelled before it got the lock)."""
    if op.in_task and aux['transfer_task'] != 'alive':
        return 'C'
    s = m['state']
    name = op.name
    tgt = op_target(name, download)
    if tgt not in EDGES[s]:
        res = 'F'
    else:
        res = 'T'
        transferring = s in TRANSFERRING

        def set_complete_time():
            if m['start_time'] is not None:
                m['complete_time'] = ('op', k)

        def reset_time_vars():
            m['start_time'] = None
            m['complete_time'] = None

        def cancel_tasks():
            for key in ('transfer_task', 'queue_task'):
                if aux[key] == 'alive':
                    aux[key] = 'cancelled'
                    m['cancel_' + key] += 1

        if name == 'abort':
            cancel_tasks()
            if transferring:
                set_complete_time()
            if download and m['local_path'] is not None:
                # a removal that fails with OSError is logged and the abort carries on (state.py _remove_local_file):
                # the path is forgotten, whatever is on disk stays
                if removable:
                    m['file'] = False
                m['local_path'] = None
            m['abort_reason'] = 'Requested' if op.manager else op.reason
        elif name == 'pause':
            if s != 'VIRGIN':
                cancel_tasks()
            if transferring:
                set_complete_time()
        elif name == 'fail':
            m['fail_reason'] = op.reason
            if transferring:
                set_complete_time()
        elif name in ('complete', 'incomplete'):
            set_complete_time()
        elif name == 'initialize':
            if s == 'INCOMPLETE':
                reset_time_vars()
        elif name == 'start_transferring':
            m['start_time'] = ('op', k)
            m['complete_time'] = None
            m.update(place_in_queue=None, remotely_queued=False, queue_attempts=0, last_queue_attempt=0.0,
                     upload_request_attempts=0, last_upload_request_attempt=0.0)
        else:   # queue / queue_remotely
            if s in ('COMPLETE', 'INCOMPLETE', 'FAILED', 'PAUSED', 'ABORTED'):
                reset_time_vars()
            if s in ('COMPLETE', 'ABORTED') and download:
                m['bytes_transfered'] = 0
                m['local_path'] = None      # the file itself stays on disk
                m['filesize'] = None
            if s in ('FAILED', 'ABORTED'):
                m['fail_reason'] = None
                m['abort_reason'] = None
            m['remotely_queued'] = (name == 'queue_remotely') and not op.manager
        m['state'] = tgt
    if op.in_task:
        aux['transfer_task'] = 'finished'
    return res


def _field_diffs(model, snap, windows):
    """Names of the fields in which an observed snapshot differs from the model fields."""
    bad = []
    for f in FIELDS:
        want, got = model[f], snap[f]
        if isinstance(want, tuple):      # ('op', k): a time stamp taken while operation k held the lock
            lo, hi = windows.get(want[1], (None, None))
            if not (isinstance(got, float) and lo is not None and lo - 1e-9 <= got <= hi + 1e-9):
                bad.append(f)
        elif want != got or (want is None) != (got is None):
            bad.append(f)
    return bad


# ---------------------------------------------------------------------------
# observation helpers

_SINK = {'log': None}


class _LoggedTask(asyncio.Task):
    """asyncio.Task that records cancel() requests made while it is still running."""

    def cancel(self, msg=None):
        log = _SINK['log']
        if log is not None and not self.done():
            log(self)
        return super().cancel(msg)


class _ObservedLock:
    """Observing proxy around the transfer's own lock object (whatever its type): reports successful acquisitions and
    releases, delegates everything else; the library's lock keeps deciding who waits."""

    def __init__(self, inner, hook):
        self._inner = inner
        self._hook = hook

    def locked(self):
        return self._inner.locked()

    async def acquire(self):
        waited = self._inner.locked() or bool(getattr(self._inner, '_waiters', None))
        result = await self._inner.acquire()
        self._hook('acq', waited)
        return result

    def release(self):
        if self._inner.locked():
            self._hook('rel', False)
        self._inner.release()

    async def __aenter__(self):
        await self.acquire()
        return None

    async def __aexit__(self, exc_type, exc, tb):
        self.release()

    def __getattr__(self, name):
        return getattr(self._inner, name)


_SETTINGS = []
_SHARD_DIR = {'dir': None}


def _settings():
    if not _SETTINGS:
        from aioslsk.settings import CredentialsSettings, Settings
        _SETTINGS.append(Settings(credentials=CredentialsSettings(username='me', password='pw')))
    return _SETTINGS[0]


# ---------------------------------------------------------------------------

def run_case(case) -> CaseResult:
    res = CaseResult()
    if isinstance(case, dict) and case.get('restart'):
        _run_restart(case, res)
        return res
    c = normalise(case)
    if c is None or not c.ops:
        return res
    # one scratch directory per shard (created and removed by run_shard: mkdir/rmdir dominate the cost of a case
    # otherwise); a directory of its own when run_case is called outside run_shard (replay, shrinking)
    tmpdir = own = None
    if c.file:
        if _SHARD_DIR['dir'] and os.path.isdir(_SHARD_DIR['dir']):
            tmpdir = _SHARD_DIR['dir']
        else:
            tmpdir = own = tempfile.mkdtemp(prefix='c03-')
    try:
        _run(c, res, tmpdir)
    finally:
        _SINK['log'] = None
        if own:
            shutil.rmtree(own, ignore_errors=True)
        elif tmpdir:
            leftover = os.path.join(tmpdir, 'file.bin')
            try:
                if os.path.isdir(leftover):
                    os.rmdir(leftover)
                else:
                    os.unlink(leftover)
            except OSError:
                pass
    return res


def _run(c, res, tmpdir):
    from aioslsk.events import EventBus
    from aioslsk.exceptions import InvalidStateTransition
    from aioslsk.transfer import model as tmodel
    from aioslsk.transfer.manager import TransferManager
    from aioslsk.transfer.model import Transfer, TransferDirection
    from aioslsk.transfer.state import TransferState

    path = os.path.join(tmpdir, 'file.bin') if tmpdir else None
    content = b'0123456789' * 40
    if c.file in (1, 4, 5):
        with open(path, 'wb') as fh:
            fh.write(content)
    elif c.file == 3:
        os.mkdir(path)
    init = initial_fields(c, path)
    ops = c.ops
    n = len(ops)

    recs = [{'i': i, 'result': 'U', 'captured': None, 'call_ev': None, 'acq_ev': None, 'waited': False,
             'before': None, 'after': None, 'snap_call': None, 'snap_ret': None,
             'window': None, 'call_window': None, 'notes': []} for i in range(n)]
    notes = []              # (old, new, op index or None) seen by the slow listener
    notes_last = []         # (old, new) seen by the listener behind the slow one
    task_op = {}            # asyncio task -> index of the operation it is executing
    cancel_counts = {'transfer_task': 0, 'queue_task': 0}
    dummies = {}
    holder = {'op': None, 'depth': 0}
    truth = []              # (old, new) of every Transfer.transition() call, in order
    nested = []             # outcomes of the re-entrant listener's nested requests
    ev = itertools.count(1)
    flags = {'second_cancel': False, 'unknown_acquirer': 0}

    async def main(loop):
        if c.x:
            loop.executor_delay = lambda: c.x
        if c.file in (4, 5):
            # the executor job that removes the local file fails like the OS does for a file in use
            run_in_executor = loop.run_in_executor

            def failing_remove(*a, **kw):
                if c.file == 4:
                    raise PermissionError(13, 'Permission denied', path)
                raise OSError(16, 'Device or resource busy', path)

            def faulty_run_in_executor(executor, func, *args):
                if getattr(func, 'func', func) is os.remove:
                    func = failing_remove
                return run_in_executor(executor, func, *args)

            loop.run_in_executor = faulty_run_in_executor
        vtime = tmodel.time.time

        def bump():
            loop._vtime += 0.001
            return vtime()

        manager = TransferManager(_settings(), EventBus(), types.SimpleNamespace(), types.SimpleNamespace(),
                                  types.SimpleNamespace())
        t = Transfer('peer', '@@abc\\dir\\file.bin',
                     TransferDirection.DOWNLOAD if c.download else TransferDirection.UPLOAD)
        t.state = TransferState.init_from_state(getattr(TransferState.State, c.state), t)
        for f in ('fail_reason', 'abort_reason', 'remotely_queued', 'local_path', 'filesize', 'bytes_transfered',
                  'place_in_queue', 'queue_attempts', 'last_queue_attempt', 'upload_request_attempts',
                  'last_upload_request_attempt', 'start_time', 'complete_time'):
            setattr(t, f, init[f])

        def snap():
            return {
                'state': t.state.VALUE.name,
                'fail_reason': t.fail_reason, 'abort_reason': t.abort_reason,
                'remotely_queued': t.remotely_queued, 'local_path': t.local_path,
                'file': bool(path) and os.path.exists(path) and (
                    os.path.isdir(path) or os.path.getsize(path) == len(content)),
                'filesize': t.filesize, 'bytes_transfered': t.bytes_transfered,
                'place_in_queue': t.place_in_queue, 'queue_attempts': t.queue_attempts,
                'last_queue_attempt': t.last_queue_attempt,
                'upload_request_attempts': t.upload_request_attempts,
                'last_upload_request_attempt': t.last_upload_request_attempt,
                'start_time': t.start_time, 'complete_time': t.complete_time,
                'cancel_transfer_task': cancel_counts['transfer_task'],
                'cancel_queue_task': cancel_counts['queue_task'],
            }

        def lock_hook(what, waited):
            now = bump()
            if what == 'acq':
                i = task_op.get(asyncio.current_task())
                if holder['depth'] and i is not None and i == holder['op']:
                    holder['depth'] += 1
                    return
                holder['depth'] = 1
                holder['op'] = i
                if i is None:
                    flags['unknown_acquirer'] += 1
                    return
                r = recs[i]
                r['acq_ev'] = next(ev)
                r['waited'] = waited
                r['before'] = snap()
                r['window'] = [now, now]
            else:
                if holder['depth'] > 1:
                    holder['depth'] -= 1
                    return
                holder['depth'] = 0
                i = holder['op']
                holder['op'] = None
                if i is None:
                    return
                r = recs[i]
                r['after'] = snap()
                r['window'][1] = now

        t._state_lock = _ObservedLock(t._state_lock, lock_hook)

        # the transitions really made, recorded where the state is set (observation only)
        make_transition = t.transition

        async def observed_transition(state):
            truth.append((t.state.VALUE.name, state.VALUE.name))
            return await make_transition(state)

        t.transition = observed_transition

        class Recorder:
            """Second listener (behind the TransferManager): records, then is slow (yields c.ly iterations)."""
            async def on_transfer_state_changed(self, transfer, old, new):
                i = holder['op'] if holder['op'] is not None else task_op.get(asyncio.current_task())
                notes.append((old.name, new.name, i))
                if i is not None:
                    recs[i]['notes'].append((old.name, new.name))
                await simloop.step(c.ly)

        class LastRecorder:
            """Third listener, behind the slow one: only records."""
            async def on_transfer_state_changed(self, transfer, old, new):
                notes_last.append((old.name, new.name))

        class Reenterer:
            """Listener that issues a request for the same transfer from inside its notification callback, bounded
            by wait_for (on a non re-entrant lock the nested request can only time out)."""
            seen = 0

            async def on_transfer_state_changed(self, transfer, old, new):
                self.seen += 1
                if self.seen != c.re_at + 1:
                    return
                name, via_manager = c.re
                rec = {'call': ('manager.' if via_manager else 'state.') + name, 'at': (old.name, new.name),
                       'before': snap(), 'notes_before': len(notes_last)}
                nested.append(rec)
                try:
                    if via_manager:
                        try:
                            await asyncio.wait_for(getattr(manager, name)(t), NESTED_TIMEOUT)
                            rec['result'] = 'T'
                        except InvalidStateTransition:
                            rec['result'] = 'F'
                    else:
                        coro = t.state.abort(reason='nested') if name == 'abort' else getattr(t.state, name)()
                        value = await asyncio.wait_for(coro, NESTED_TIMEOUT)
                        rec['result'] = 'T' if value is True else 'F' if value is False else 'X:returned=%r' % (value,)
                except asyncio.TimeoutError:
                    rec['result'] = 'TO'
                except asyncio.CancelledError:
                    rec['result'] = 'C'
                    raise
                except Exception as exc:       # noqa: BLE001
                    rec['result'] = 'X:' + type(exc).__name__
                finally:
                    rec['after'] = snap()
                    rec['notes_after'] = len(notes_last)

        await manager.add(t)
        if c.re is not None:
            t.state_listeners.append(Reenterer())
        t.state_listeners.append(Recorder())
        t.state_listeners.append(LastRecorder())

        done = [loop.create_future() for _ in range(n)]

        def state_call(i):
            """Evaluate ``transfer.state.X(...)``: picks the current state object, returns the coroutine."""
            op = ops[i]
            recs[i]['captured'] = t.state.VALUE.name
            state = t.state
            if op.name == 'queue':
                return state.queue()
            if op.name == 'queue_remotely':
                return state.queue(remotely=True)
            if op.name == 'abort':
                return state.abort(reason=op.reason)
            if op.name == 'fail':
                return state.fail(reason=op.reason)
            return getattr(state, op.name)()

        async def run_op(i, coro=None):
            op = ops[i]
            r = recs[i]
            cur = asyncio.current_task()
            task_op[cur] = i
            t0 = bump()
            r['call_ev'] = next(ev)
            r['snap_call'] = snap()
            result = 'N'
            try:
                # no suspension point between here and Lock.acquire (see ASSUMPTIONS)
                if op.manager:
                    r['captured'] = t.state.VALUE.name
                    try:
                        await getattr(manager, op.name)(t)
                        result = 'T'
                    except InvalidStateTransition:
                        result = 'F'
                else:
                    value = await (coro if coro is not None else state_call(i))
                    result = 'T' if value is True else 'F' if value is False else 'X:returned=%r' % (value,)
            except asyncio.CancelledError:
                result = 'C'
                raise
            except Exception as exc:       # noqa: BLE001 - undocumented exception = violation
                result = 'X:' + type(exc).__name__
            finally:
                r['result'] = result
                r['snap_ret'] = snap()
                r['call_window'] = [t0, bump()]
                task_op.pop(cur, None)
                if not done[i].done():
                    done[i].set_result(None)

        trigger = asyncio.Event()
        forever = asyncio.Event()

        async def dummy(kind):
            try:
                if kind == 'transfer_task' and c.intask is not None:
                    await trigger.wait()
                    await run_op(c.intask)
                else:
                    await forever.wait()
            except asyncio.CancelledError:
                if c.intask is not None and kind == 'transfer_task' and not done[c.intask].done():
                    done[c.intask].set_result(None)
                try:
                    await simloop.step(c.d)      # slow to honour the cancellation
                except asyncio.CancelledError:
                    flags['second_cancel'] = True
                raise

        def log_cancel(task):
            for kind, tk in dummies.items():
                if tk is task:
                    cancel_counts[kind] += 1

        _SINK['log'] = log_cancel
        if c.tasks & 1:
            tk = _LoggedTask(dummy('transfer_task'), loop=loop, name='c03-transfer-task')
            dummies['transfer_task'] = tk
            t._transfer_task = tk
            tk.add_done_callback(t._transfer_task_complete)
        if c.tasks & 2:
            tk = _LoggedTask(dummy('queue_task'), loop=loop, name='c03-remotely-queue-task')
            dummies['queue_task'] = tk
            t._remotely_queue_task = tk
            tk.add_done_callback(t._remotely_queue_task_complete)
        await simloop.step(2)       # the dummies are parked on their events

        op_tasks = []
        early_coros = []
        cancellers = []

        async def cancel_later(task, k):
            await simloop.step(k)
            task.cancel()

        for i, op in enumerate(ops):
            await simloop.step(op.gap)
            if op.in_task:
                tk = dummies['transfer_task']
                if tk.done() and not done[i].done():
                    done[i].set_result(None)
                trigger.set()
            else:
                coro = state_call(i) if op.early else None
                if coro is not None:
                    early_coros.append(coro)
                tk = loop.create_task(run_op(i, coro), name='c03-op-%d' % i)
                tk.add_done_callback(lambda _t, i=i: done[i].done() or done[i].set_result(None))
                op_tasks.append(tk)
                if op.cancel is not None:
                    cancellers.append(loop.create_task(cancel_later(tk, op.cancel), name='c03-cancel-%d' % i))
            if c.seq:
                await asyncio.wait([done[i]], timeout=50.0)
                await asyncio.sleep(1.0)
        await asyncio.wait(done, timeout=50.0)
        for i in range(n):
            if not done[i].done():
                recs[i]['result'] = 'N'
        await simloop.step(c.d + 4)
        await asyncio.sleep(0.01)
        final = snap()
        _SINK['log'] = None
        for tk in op_tasks:
            if tk.done() and not tk.cancelled() and tk.exception() is not None:
                raise tk.exception()
        for coro in early_coros:
            coro.close()        # a caller cancelled before its first step never awaited its coroutine
        return final, dict(flags)

    (final, end_flags), loop_errors = simloop.run_case_on_loop(main, max_iterations=200_000)
    _evaluate(c, res, init, recs, notes, notes_last, final, end_flags, loop_errors, truth, nested)


# ---------------------------------------------------------------------------
# restart tier: transfers stored by one TransferManager are loaded by a fresh one

# what TransferManager.read_cache documents / does on HEAD with a stored state (pinned): a transfer that was being
# negotiated goes back to the queue, one that was transferring becomes COMPLETE when all bytes were transfered and
# INCOMPLETE otherwise (uploads too), every other state is kept
def repaired_state(stored, filesize, bytes_transfered):
    if stored == 'INITIALIZING':
        return 'QUEUED'
    if stored in TRANSFERRING:
        return 'COMPLETE' if filesize == bytes_transfered else 'INCOMPLETE'
    return stored


def _run_restart(case, res):
    from aioslsk.events import EventBus, TransferAddedEvent
    from aioslsk.transfer.cache import TransferShelveCache
    from aioslsk.transfer.manager import TransferManager
    from aioslsk.transfer.model import Transfer, TransferDirection
    from aioslsk.transfer.state import TransferState

    items = []
    raw_items = case.get('items')
    for raw in (raw_items if isinstance(raw_items, list) else [])[:8]:
        if not isinstance(raw, dict):
            continue
        state = STATES[_int(raw.get('state', 0), 0, 10 ** 6) % len(STATES)]
        download = bool(_int(raw.get('dir', 0), 0, 10 ** 6) % 2)
        if state == 'DOWNLOADING' and not download:
            state = 'UPLOADING'
        elif state == 'UPLOADING' and download:
            state = 'DOWNLOADING'
        prog = raw.get('prog')
        if prog is not None:
            prog = _int(prog, 0, 10 ** 6) % (len(FILESIZES) * len(BYTES_KINDS))
        started = bool(raw.get('started', True)) or state in TRANSFERRING or state == 'COMPLETE'
        items.append(types.SimpleNamespace(state=state, download=download, prog=prog, file=0, rq=True,
                                           started=started and state != 'VIRGIN'))
    if not items:
        return
    tmpdir = tempfile.mkdtemp(prefix='c03-restart-')
    seen = {}          # remote path -> [(who, old, new)]
    loaded = {}

    def stub():
        return types.SimpleNamespace()

    async def main(loop):
        writer = TransferManager(_settings(), EventBus(), stub(), stub(), stub(), cache=TransferShelveCache(tmpdir))
        for idx, item in enumerate(items):
            t = Transfer('peer%d' % idx, '@@abc\\dir\\file%d.bin' % idx,
                         TransferDirection.DOWNLOAD if item.download else TransferDirection.UPLOAD)
            init = initial_fields(item, None)
            item.init = init
            t.state = TransferState.init_from_state(getattr(TransferState.State, item.state), t)
            for f in ('fail_reason', 'abort_reason', 'remotely_queued', 'filesize', 'bytes_transfered',
                      'place_in_queue', 'queue_attempts', 'upload_request_attempts', 'start_time', 'complete_time'):
                setattr(t, f, init[f])
            await writer.add(t)
        writer.write_cache()

        # the fresh client: a listener attaches a recording state listener to every transfer that is announced
        bus = EventBus()
        reader = TransferManager(_settings(), bus, stub(), stub(), stub(), cache=TransferShelveCache(tmpdir))

        class Recorder:
            async def on_transfer_state_changed(self, transfer, old, new):
                seen.setdefault(transfer.remote_path, []).append(('listener', old.name, new.name))

        recorder = Recorder()

        async def on_added(event):
            event.transfer.state_listeners.append(recorder)

        bus.register(TransferAddedEvent, on_added)
        manager_notified = reader.on_transfer_state_changed

        async def observed_manager_listener(transfer, old, new):
            seen.setdefault(transfer.remote_path, []).append(('manager', old.name, new.name))
            return await manager_notified(transfer, old, new)

        reader.on_transfer_state_changed = observed_manager_listener
        await reader.load_data()
        await simloop.step(3)
        for t in reader.transfers:
            loaded[t.remote_path] = {'state': t.state.VALUE.name, 'remotely_queued': t.remotely_queued,
                                     'start_time': t.start_time, 'complete_time': t.complete_time,
                                     'filesize': t.filesize, 'bytes_transfered': t.bytes_transfered,
                                     'listeners': len(t.state_listeners)}
        return len(reader.transfers)

    try:
        count, loop_errors = simloop.run_case_on_loop(main, max_iterations=200_000)
    finally:
        shutil.rmtree(tmpdir, ignore_errors=True)

    res.label('restart', 'restart:transfers=%d' % len(items))
    if count != len(items):
        res.violate('C03/restart:transfer-count', f'{len(items)} transfers stored, {count} loaded')
    for idx, item in enumerate(items):
        path = '@@abc\\dir\\file%d.bin' % idx
        what = (f"{'download' if item.download else 'upload'} stored as {item.state} with filesize="
                f"{item.init['filesize']} bytes_transfered={item.init['bytes_transfered']}")
        res.label('restart:stored=' + item.state)
        want = repaired_state(item.state, item.init['filesize'], item.init['bytes_transfered'])
        if want != item.state:
            res.nontrivial = True
            res.label(f'restart:repair:{item.state}->{want}')
        for who, a, b in seen.get(path, []):
            res.label(f'restart:announced:{a}->{b}')
            if b not in EDGES.get(a, ()):
                res.violate(f'C03/restart:illegal-edge:{a}->{b}',
                            f'while the cache was loaded the {who} was told {a}->{b} which is not an edge of the '
                            f'documented graph ({what}); all notifications: {seen.get(path)}')
        got = loaded.get(path)
        if got is None:
            res.violate('C03/restart:transfer-missing', f'{what} was not loaded; loaded: {sorted(loaded)}')
            continue
        if got['state'] != want:
            res.violate(f'C03/restart:loaded-state:{item.state}->{got["state"]}',
                        f'{what} was loaded as {got["state"]}, read_cache documents {want}')
        elif got['remotely_queued']:
            res.violate('C03/restart:remotely-queued-kept', what)
        elif item.state in TRANSFERRING and (got['start_time'] is not None or got['complete_time'] is not None):
            res.violate('C03/restart:times-kept', f'{what}: {got}')
        notes_seen = seen.get(path, [])
        if notes_seen:
            last = notes_seen[-1][2]
            if last != got['state']:
                res.violate('C03/restart:last-notification-is-not-the-state',
                            f'{what}: told {notes_seen}, state is {got["state"]}')
    if loop_errors:
        res.violate('C03/restart:loop-error', str(loop_errors[:2]))


# ---------------------------------------------------------------------------
# oracle

def _evaluate(c, res, init, recs, notes, notes_last, final, flags, loop_errors, truth, nested):
    ops = c.ops
    download = c.download
    n = len(ops)

    def is_stale(i):
        """The operation ran on a state object that was not the transfer's state when it got the lock."""
        if i is None:
            return False
        r = recs[i]
        return r['before'] is not None and r['captured'] is not None and r['before']['state'] != r['captured']

    def opdesc(i):
        r = recs[i]
        op = ops[i]
        return (f"op#{i} {'manager.' if op.manager else 'state.'}{op.name}"
                f"{'(in transfer task)' if op.in_task else ''}{'(coroutine created early)' if op.early else ''}"
                f"{'(caller cancelled after %d iterations)' % op.cancel if op.cancel is not None else ''} "
                f"called in {r['captured']}, "
                f"lock acquired in {r['before']['state'] if r['before'] else '-'} "
                f"(waited={r['waited']}), result={r['result']}, notifications={r['notes']}")

    history = (f"start={c.state} {'download' if download else 'upload'} file={c.file} "
               f"ops=[{'; '.join(opdesc(i) for i in range(n))}] notifications={[(a, b) for a, b, _ in notes]}")

    # ---- labels ---------------------------------------------------------
    waited = any(r['waited'] for r in recs)
    refused = any(r['result'] == 'F' for r in recs)
    stale_capture = any(is_stale(i) for i in range(n))
    res.label('history' if c.seq else 'schedule', 'start=' + c.state, 'download' if download else 'upload',
              'ops=%d' % n)
    if init['filesize'] is None:
        res.label('progress:filesize-unknown')
    elif init['filesize'] == 0:
        res.label('progress:empty-file')
    if init['filesize'] == init['bytes_transfered']:
        res.label('progress:all-bytes-transfered')
    elif init['filesize'] is not None and init['bytes_transfered'] > init['filesize']:
        res.label('progress:more-than-filesize')
    elif init['bytes_transfered']:
        res.label('progress:partial')
    if waited:
        res.label('waited-for-lock')
    if refused:
        res.label('has-refused-op')
    if stale_capture:
        res.label('state-changed-while-waiting')
    if c.intask is not None:
        res.label('op-in-transfer-task')
        if recs[c.intask]['result'] in ('C', 'U'):
            res.label('op-in-transfer-task-cancelled')
    if any(op.manager for op in ops):
        res.label('via-manager')
    if c.tasks:
        res.label('slow:task-cancellation' if c.d else 'tasks-present')
    if c.x:
        res.label('slow:file-removal')
    if c.ly:
        res.label('slow:listener')
    for a, b, _ in notes:
        res.label(f'edge:{a}->{b}')
    res.nontrivial = bool((not c.seq and (waited or stale_capture)) or refused)
    if c.has_cancel:
        res.label('caller-cancelled')
        for i, op in enumerate(ops):
            if op.cancel is None:
                continue
            r = recs[i]
            if r['result'] == 'U':
                res.label('cancelled:before-start')
            elif r['result'] != 'C':
                res.label('cancelled:after-return')
            elif r['before'] is None:
                res.label('cancelled:waiting-for-lock')
            elif r['notes']:
                res.label('cancelled:during-notification')
            else:
                res.label('cancelled:holding-lock-before-transition')
        res.nontrivial = res.nontrivial or any(r['result'] == 'C' for r in recs)
    if c.re is not None:
        res.label('re-entrant-listener')
        for rec in nested:
            res.label('nested-request:' + {'TO': 'timed-out', 'T': 'done', 'F': 'refused', 'C': 'cancelled'}.get(
                rec.get('result', '?'), 'other'))
        res.nontrivial = res.nontrivial or bool(nested)
    if c.file in (3, 4, 5):
        res.label('file-removal-fails:' + {3: 'IsADirectoryError', 4: 'PermissionError', 5: 'OSError'}[c.file])
    if c.has_cancel or c.re is not None:
        _evaluate_safety(c, res, recs, notes, notes_last, final, flags, loop_errors, history, truth, nested)
        return
    if [(a, b) for a, b, _ in notes] != notes_last:
        res.violate('C03/listeners-disagree',
                    f'the listener behind the slow one saw {notes_last}; {history}')

    # ---- 1. every notification is a pinned edge and the notifications chain
    prev = c.state
    stop = False
    for a, b, i in notes:
        # stale dispatch explains a notification only if the captured state's own method makes that transition
        stale = (is_stale(i) and b == op_target(ops[i].name, download)
                 and b in EDGES.get(recs[i]['captured'], ()))
        if a != prev:
            res.violate(('C03/stale-dispatch:' if stale else 'C03/') + f'broken-chain:{prev}!={a}->{b}',
                        f'notification ({a},{b}) follows a notification that ended in {prev}; {history}')
            stop = True
        if b not in EDGES.get(a, ()):
            if stale:
                res.violate(f'C03/stale-dispatch:illegal-edge:{a}->{b}',
                            f'listeners saw {a}->{b} which is not an edge of the documented graph: {opdesc(i)} ran '
                            f'the method of the {recs[i]["captured"]} state object it was called on although the '
                            f'transfer was in {a} when the lock was acquired; {history}')
            else:
                res.violate(f'C03/illegal-edge:{a}->{b}',
                            f'listeners saw {a}->{b} which is not an edge of the documented graph; {history}')
            stop = True
        prev = b
    for i, r in enumerate(recs):
        if r['result'] == 'N':
            res.violate(f'C03/op-never-returned:{ops[i].name}', history)
            stop = True
        elif r['result'].startswith('X:'):
            res.violate(f'C03/unexpected-exception:{r["result"][2:]}@{ops[i].name}', history)
            stop = True
    if flags['unknown_acquirer']:
        res.violate('C03/lock-taken-outside-operation', history)
        stop = True
    if loop_errors:
        res.violate('C03/loop-error', str(loop_errors[:2]) + ' ' + history)
    if stop:
        return

    # ---- 2. sequential model in lock order --------------------------------
    def order_key(i):
        r = recs[i]
        if r['acq_ev'] is not None:
            return (0, r['acq_ev'])
        if r['result'] in ('C', 'U', 'N') or r['call_ev'] is None:
            return (1, i)       # never got the lock (cancelled while waiting / before it started): never executed
        return (0, r['call_ev'])   # executed without taking the lock

    order = sorted(range(n), key=order_key)
    m = dict(init)
    aux = {'transfer_task': 'alive' if c.tasks & 1 else 'none', 'queue_task': 'alive' if c.tasks & 2 else 'none'}
    windows = {}
    for k in order:
        r = recs[k]
        w = r['window'] or r['call_window']
        if w:
            windows[k] = (w[0], w[1])

    for k in order:
        r = recs[k]
        op = ops[k]
        stale = is_stale(k)
        if stale:
            # stale dispatch explains the outcome only if it is what the captured state's own method does
            captured_accepts = op_target(op.name, download) in EDGES.get(r['captured'], ())
            stale = (r['result'] == 'T') == captured_accepts
        prefix = 'C03/stale-dispatch:' if stale else 'C03/'
        at = m['state']
        problems = []
        before = r['before'] if r['before'] is not None else r['snap_call']
        after = r['after'] if r['after'] is not None else r['snap_ret']
        got = 'C' if r['result'] == 'U' else r['result']

        # (a) nothing changed between the previous operation's release and this acquisition
        locked = r['before'] is not None and r['after'] is not None
        if before is not None and got != 'C' and (locked or c.seq):
            bad = _field_diffs(m, before, windows)
            if bad:
                res.violate(f'C03/changed-outside-operation:{",".join(bad)}',
                            f'before {opdesc(k)} the fields {bad} were '
                            f'{ {f: before[f] for f in bad} }, the model has { {f: m[f] for f in bad} }; {history}')
                return

        m_before = dict(m)
        want = model_apply(m, aux, op, k, download, removable=c.file in FILE_REMOVABLE)

        # (b) an operation that reports refusal has changed nothing (purely observational)
        if got == 'F' and before is not None and after is not None and (locked or c.seq):
            changed = [f for f in FIELDS if before[f] != after[f]]
            if r['notes']:
                changed.append('notification')
            if changed:
                problems.append((f'refused-side-effect:{op.name}@{before["state"]}:{",".join(changed)}',
                                 f'{opdesc(k)} reported refusal but changed '
                                 f'{ {f: (before.get(f), after.get(f)) for f in changed if f in before} }'))

        # (c) result equals the model's
        if got != want:
            names = {'T': 'done', 'F': 'refused', 'C': 'cancelled'}
            problems.append((f'wrong-result:{op.name}@{at}:{names.get(got, got)}-instead-of-{names[want]}',
                             f'{opdesc(k)}: the transfer was in {at}, the documented graph says '
                             f'{names[want]}, the library answered {names.get(got, got)}'))
        # (d) notifications of this operation
        exp_notes = [(at, m['state'])] if want == 'T' else []
        if r['notes'] != exp_notes and got == want:
            problems.append((f'wrong-notifications:{op.name}@{at}',
                             f'{opdesc(k)}: expected notifications {exp_notes}'))
        # (e) fields after the operation
        if after is not None and got == want and got != 'C' and (locked or c.seq) and not problems:
            bad = _field_diffs(m, after, windows)
            if bad:
                problems.append((f'wrong-effect:{op.name}@{at}' + ('' if stale else ':' + ','.join(bad)),
                                 f'{opdesc(k)}: after the operation { {f: after[f] for f in bad} }, the model has '
                                 f'{ {f: m[f] for f in bad} } (before: { {f: m_before[f] for f in bad} }, '
                                 f'time windows {windows})'))
        if problems:
            if stale:
                # one root cause: report the most specific consequence only
                key, detail = problems[0]
                for pk, pd in problems:
                    if pk.startswith('wrong-result'):
                        key, detail = pk, pd
                        break
                res.violate(prefix + key, detail + f' -- the method of the {r["captured"]} state object captured '
                                                   f'before waiting for the lock was executed; {history}')
            else:
                for key, detail in problems:
                    res.violate(prefix + key, detail + '; ' + history)
            return

    # ---- 3. final fields ---------------------------------------------------
    bad = _field_diffs(m, final, windows)
    if bad:
        res.violate(f'C03/final-mismatch:{",".join(bad)}',
                    f'after all operations returned { {f: final[f] for f in bad} }, the model has '
                    f'{ {f: m[f] for f in bad} }; {history}')


def _evaluate_safety(c, res, recs, notes, notes_last, final, flags, loop_errors, history, truth, nested):
    """Safety part only. A cancelled caller may leave an operation half done and may leave listeners behind the one
    being notified untold (the property promises neither): every (old,new) any listener saw is a pinned edge and a
    transition that was really made, no listener is told the same transition twice, refused operations changed
    nothing."""
    ops = c.ops
    # ``truth``: the transitions really made = every Transfer.transition() call (state before -> state it sets)
    history = f'{history} listener-behind-slow-one={notes_last} transitions-made={truth}'
    if nested:
        history += ' nested-requests=' + str([(r['call'], 'during', r['at'], r.get('result')) for r in nested])
    for rec in nested:
        result = rec.get('result', 'N')
        if result.startswith('X:') or result == 'N':
            res.violate(f'C03/unexpected-exception:{result[2:] or "never-returned"}@nested-{rec["call"]}', history)
        elif result == 'F' and 'after' in rec:
            changed = [f for f in FIELDS if rec['before'][f] != rec['after'][f]]
            if rec['notes_after'] != rec['notes_before']:
                changed.append('notification')
            if changed:
                res.violate(f'C03/refused-side-effect:nested-{rec["call"]}@{rec["before"]["state"]}:'
                            f'{",".join(changed)}',
                            f'the nested {rec["call"]} reported refusal but changed '
                            f'{ {f: (rec["before"].get(f), rec["after"].get(f)) for f in changed if f in rec["before"]} }'
                            f'; {history}')
    for who, seen in (('slow-listener', [(a, b) for a, b, _ in notes]), ('listener-behind-slow-one', notes_last)):
        untold = list(truth)
        for pair in seen:
            a, b = pair
            if b not in EDGES.get(a, ()):
                res.violate(f'C03/illegal-edge:{a}->{b}',
                            f'{who} was told {a}->{b} which is not an edge of the documented graph; {history}')
            elif pair in untold:
                untold.remove(pair)
            elif pair in truth:
                res.violate(f'C03/notification-repeated:{a}->{b}',
                            f'{who} was told {pair} more often than that transition was made; {history}')
            else:
                res.violate(f'C03/notification-of-no-transition:{a}->{b}',
                            f'{who} was told {pair} which is not a transition that was made; {history}')
    for i, r in enumerate(recs):
        if r['result'] == 'N':
            res.violate(f'C03/op-never-returned:{ops[i].name}', history)
        elif r['result'].startswith('X:'):
            res.violate(f'C03/unexpected-exception:{r["result"][2:]}@{ops[i].name}', history)
        elif r['result'] == 'F' and r['before'] is not None and r['after'] is not None:
            changed = [f for f in FIELDS if r['before'][f] != r['after'][f]]
            if r['notes']:
                changed.append('notification')
            if changed:
                res.violate(f'C03/refused-side-effect:{ops[i].name}@{r["before"]["state"]}:{",".join(changed)}',
                            f'op#{i} reported refusal but changed '
                            f'{ {f: (r["before"].get(f), r["after"].get(f)) for f in changed if f in r["before"]} }; '
                            f'{history}')
    if flags['unknown_acquirer']:
        res.violate('C03/lock-taken-outside-operation', history)
    if loop_errors:
        res.violate('C03/loop-error', str(loop_errors[:2]) + ' ' + history)


# ---------------------------------------------------------------------------
# generation

def _op(o, m=False, r=None, g=0, t=False, e=False, c=None):
    doc = {'o': o, 'm': m, 'r': r, 'g': g, 't': t, 'e': e}
    if c is not None:
        doc['c'] = c
    return doc


def _base(state, direction, ops, seq, **kw):
    doc = {'state': state, 'dir': direction, 'file': 1, 'started': True,
           'rq': True, 'seq': seq, 'ops': ops, 'tasks': 3, 'd': 1, 'x': 0, 'ly': 0}
    doc.update(kw)
    return doc


def _reason(o, i):
    return ('A%d' % i) if OPS[o] == 'abort' else ('F%d' % i) if OPS[o] == 'fail' else None


def enum_histories_depth3():
    for s in range(len(STATES)):
        for direction in (0, 1):
            for seq in itertools.product(range(len(OPS)), repeat=3):
                yield _base(s, direction, [_op(o, r=_reason(o, i)) for i, o in enumerate(seq)], True)


def enum_histories_progress(depth, progs):
    """All sequences of ``depth`` state operations per start state x direction x progress situation (filesize in
    {unknown, 0, n} x received bytes in {0, partial, == filesize, > filesize})."""
    for s in range(len(STATES)):
        for direction in (0, 1):
            for prog in progs:
                for seq in itertools.product(range(len(OPS)), repeat=depth):
                    yield _base(s, direction, [_op(o, r=_reason(o, i)) for i, o in enumerate(seq)], True,
                                prog=prog, tasks=0, d=0)


_ALL_PROGS = list(range(len(FILESIZES) * len(BYTES_KINDS)))
# unknown size / nothing, empty file complete, known size: partial, all, more
_MAIN_PROGS = [0, 4, 9, 10, 11]


# 12 entry points: the 9 state operations and the 3 manager methods
_ENTRY = [(o, False) for o in range(len(OPS))] + [(OPS.index(nm), True) for nm in MANAGER_OPS]


def enum_histories_manager_depth2():
    for s in range(len(STATES)):
        for direction in (0, 1):
            for pair in itertools.product(_ENTRY, repeat=2):
                yield _base(s, direction, [_op(o, m=via, r=_reason(o, i)) for i, (o, via) in enumerate(pair)], True,
                            started=False, file=2 if direction else 1)


def enum_pairs(gaps, configs, entries, early=False):
    """All pairs of concurrently issued operations per start state x direction under given slow configurations."""
    for s in range(len(STATES)):
        for direction in (0, 1):
            for (o1, m1), (o2, m2) in itertools.product(entries, repeat=2):
                for g in gaps:
                    for cfg in configs:
                        yield _base(s, direction,
                                    [_op(o1, m=m1, r=_reason(o1, 0), e=early),
                                     _op(o2, m=m2, r=_reason(o2, 1), g=g, e=early)],
                                    False, **cfg)


def enum_cancelled(ks, gaps, lys, second=False):
    """Pairs in which the caller of one operation is cancelled k iterations after it was started: the first one
    (legal in the start state, so that it holds the lock: cancelled during task cancellation, file removal or while
    the slow listener is being notified) followed by any operation, or (``second``) the second one, which waits for
    the lock behind the first."""
    for s in range(len(STATES)):
        for direction in (0, 1):
            for o1 in _accepted_ops(s, direction):
                for o2 in range(len(OPS)):
                    for k in ks:
                        for g in gaps:
                            for ly in lys:
                                yield _base(s, direction,
                                            [_op(o1, r=_reason(o1, 0), c=None if second else k),
                                             _op(o2, r=_reason(o2, 1), g=g, c=k if second else None)],
                                            False, tasks=3, d=2, x=0, ly=ly)


def enum_removal_failures(depth=2):
    """All sequences of ``depth`` state operations on a download whose local file cannot be removed (the path is a
    directory / os.remove raises PermissionError / OSError), per start state."""
    for s in range(len(STATES)):
        for file in (3, 4, 5):
            for seq in itertools.product(range(len(OPS)), repeat=depth):
                yield _base(s, 1, [_op(o, r=_reason(o, i)) for i, o in enumerate(seq)], True, file=file)


def enum_reentrant(gaps=(1,)):
    """A listener re-enters the API (manager / state x queue / pause / abort, bounded by wait_for) from inside the
    notification of a first operation that is legal in the start state, followed by any second operation."""
    for s in range(len(STATES)):
        for direction in (0, 1):
            for o1 in _accepted_ops(s, direction):
                for re_call in range(len(REENTRANT_CALLS)):
                    for o2 in range(len(OPS)):
                        for g in gaps:
                            yield _base(s, direction,
                                        [_op(o1, r=_reason(o1, 0)), _op(o2, r=_reason(o2, 1), g=g)],
                                        False, tasks=0, d=0, re=re_call, re_at=0)


def enum_restart():
    """One stored transfer per case: every state x direction x progress situation (+ the default one)."""
    for s in range(len(STATES)):
        for direction in (0, 1):
            for prog in [None] + _ALL_PROGS:
                yield {'restart': 1, 'items': [{'state': s, 'dir': direction, 'prog': prog, 'started': True}]}


@st.composite
def restart_strategy(draw):
    items = draw(st.lists(st.fixed_dictionaries({
        'state': st.integers(0, len(STATES) - 1), 'dir': st.integers(0, 1),
        'prog': st.sampled_from([None] + list(range(len(FILESIZES) * len(BYTES_KINDS)))),
        'started': st.booleans()}), min_size=2, max_size=6))
    return {'restart': 1, 'items': items}


def enum_pairs_in_task(gaps, configs):
    """Pairs in which one operation is issued by the transfer task itself (before or after the other)."""
    in_task = [OPS.index(nm) for nm in IN_TASK_OPS]
    for s in range(len(STATES)):
        for direction in (0, 1):
            for o1 in range(len(OPS)):
                for o2 in in_task:
                    for g in gaps:
                        for cfg in configs:
                            yield _base(s, direction, [_op(o1, r=_reason(o1, 0)), _op(o2, r=_reason(o2, 1), g=g, t=True)],
                                        False, **cfg)
                            yield _base(s, direction, [_op(o2, r=_reason(o2, 0), t=True), _op(o1, r=_reason(o1, 1), g=g)],
                                        False, **cfg)


def _accepted_ops(state_idx, direction):
    s = STATES[state_idx]
    download = bool(direction)
    if s == 'DOWNLOADING' and not download:
        s = 'UPLOADING'
    elif s == 'UPLOADING' and download:
        s = 'DOWNLOADING'
    return [i for i, nm in enumerate(OPS) if op_target(nm, download) in EDGES[s]]


@st.composite
def history_strategy(draw):
    s = draw(st.integers(0, len(STATES) - 1))
    direction = draw(st.integers(0, 1))
    nops = draw(st.integers(4, 8))
    ops = []
    for _ in range(nops):
        o = draw(st.integers(0, len(OPS) - 1))
        ops.append(_op(o, m=draw(st.booleans()), r=draw(st.sampled_from(REASONS))))
    extra = {}
    if draw(st.integers(0, 5)) == 0:
        extra = {'re': draw(st.integers(0, len(REENTRANT_CALLS) - 1)), 're_at': draw(st.integers(0, 2))}
    return {**extra,
            'state': s, 'dir': direction, 'file': draw(st.sampled_from([0, 1, 1, 2, 3, 4, 5])),
            'started': draw(st.booleans()),
            'prog': draw(st.sampled_from([None] + _ALL_PROGS)),
            'rq': draw(st.booleans()), 'seq': True, 'ops': ops, 'tasks': draw(st.integers(0, 3)),
            'd': draw(st.integers(0, 2)), 'x': draw(st.sampled_from([0, 0, 1])), 'ly': draw(st.sampled_from([0, 0, 1]))}


@st.composite
def schedule_strategy(draw):
    s = draw(st.integers(0, len(STATES) - 1))
    direction = draw(st.integers(0, 1))
    nops = draw(st.sampled_from([2, 2, 3]))
    accepted = _accepted_ops(s, direction)
    ops = []
    for i in range(nops):
        if i == 0 and draw(st.integers(0, 3)) > 0:
            # most first operations are legal in the start state, so that something holds the lock
            o = accepted[draw(st.integers(0, len(accepted) - 1))]
        else:
            o = draw(st.integers(0, len(OPS) - 1))
        ops.append(_op(o, m=draw(st.booleans()), r=draw(st.sampled_from(REASONS)),
                       g=draw(st.integers(0, 6)), t=draw(st.integers(0, 4)) == 0, e=draw(st.integers(0, 3)) == 0))
    if draw(st.integers(0, 2)) == 0:
        # the caller of one operation (mostly the first) is cancelled 0..8 iterations after it was started
        victim = min(draw(st.sampled_from([0, 0, 0, 1, 1, 2])), nops - 1)
        ops[victim]['c'] = draw(st.integers(0, 8))
        ops[victim]['t'] = False
    extra = {}
    if draw(st.integers(0, 3)) == 0:
        extra = {'re': draw(st.integers(0, len(REENTRANT_CALLS) - 1)), 're_at': draw(st.integers(0, 2))}
    return {**extra,
            'state': s, 'dir': direction, 'file': draw(st.sampled_from([0, 1, 1, 1, 2, 3, 4, 5])),
            'started': draw(st.booleans()), 'rq': draw(st.booleans()), 'seq': False, 'ops': ops,
            'prog': draw(st.sampled_from([None] + _ALL_PROGS)),
            'tasks': draw(st.sampled_from([0, 1, 2, 3, 3])), 'd': draw(st.integers(0, 4)),
            'x': draw(st.sampled_from([0, 0, 1, 2])), 'ly': draw(st.sampled_from([0, 1, 1, 2, 3]))}


_SLOW_FIXED = [{'tasks': 3, 'd': 2, 'x': 0, 'ly': 1}]
_NO_SLOW = [{'tasks': 0, 'd': 0, 'x': 0, 'ly': 0}]
_SLOW_MORE = [
    {'tasks': 3, 'd': 2, 'x': 0, 'ly': 1},
    {'tasks': 0, 'd': 0, 'x': 0, 'ly': 0},      # only the (fast) file removal yields
    {'tasks': 1, 'd': 4, 'x': 0, 'ly': 0},      # slow task cancellation only
    {'tasks': 0, 'd': 0, 'x': 2, 'ly': 0},      # slow file removal only
    {'tasks': 2, 'd': 1, 'x': 1, 'ly': 3, 'started': False},
]


def run_shard(ctx):
    _SHARD_DIR['dir'] = tempfile.mkdtemp(prefix='c03-shard-')
    try:
        _run_shard(ctx)
    finally:
        shutil.rmtree(_SHARD_DIR['dir'], ignore_errors=True)
        _SHARD_DIR['dir'] = None


def _run_shard(ctx):
    quick = ctx.tier == 'quick'
    state_entries = [(o, False) for o in range(len(OPS))]
    ctx.enumerate(enum_histories_depth3())
    ctx.enumerate(enum_histories_manager_depth2())
    ctx.enumerate(enum_restart())
    ctx.explore(restart_strategy(), 12 if quick else 300, salt=3)
    if quick:
        ctx.enumerate(enum_histories_progress(2, _ALL_PROGS))
        ctx.enumerate(enum_removal_failures(2))
        ctx.enumerate(enum_reentrant())
        ctx.enumerate(enum_cancelled([1, 2, 3], [0, 1], [3]))
        ctx.enumerate(enum_cancelled([1, 3], [1], [3], second=True))
        ctx.enumerate(enum_pairs([1], _SLOW_FIXED, state_entries))
        ctx.enumerate(enum_pairs([0], _NO_SLOW, state_entries, early=True))
        ctx.enumerate(enum_pairs_in_task([1], _SLOW_FIXED))
        ctx.explore(history_strategy(), 250, salt=1)
        ctx.explore(schedule_strategy(), 500, salt=2)
    else:
        ctx.enumerate(enum_histories_progress(2, _ALL_PROGS))
        ctx.enumerate(enum_histories_progress(3, _MAIN_PROGS))
        ctx.enumerate(enum_removal_failures(3))
        ctx.enumerate(enum_reentrant((0, 1, 3)))
        ctx.enumerate(enum_cancelled([0, 1, 2, 3, 4, 5, 6], [0, 1, 2, 4], [1, 2, 3]))
        ctx.enumerate(enum_cancelled([0, 1, 2, 3, 5], [0, 1, 3], [0, 2, 3], second=True))
        ctx.enumerate(enum_pairs([0, 1, 2, 3, 5], _SLOW_MORE, _ENTRY))
        ctx.enumerate(enum_pairs([0, 1, 2], _SLOW_MORE, state_entries, early=True))
        ctx.enumerate(enum_pairs_in_task([0, 1, 3, 6], _SLOW_MORE))
        ctx.explore(history_strategy(), 6000, salt=1)
        ctx.explore(schedule_strategy(), 12000, salt=2)
    ctx.extra['histories_depth3_enumerated'] = 0 if ctx.shard else len(STATES) * 2 * len(OPS) ** 3
    ctx.extra['histories_progress_depth2_enumerated'] = (
        0 if ctx.shard else len(STATES) * 2 * len(_ALL_PROGS) * len(OPS) ** 2)
    ctx.extra['histories_manager_depth2_enumerated'] = 0 if ctx.shard else len(STATES) * 2 * len(_ENTRY) ** 2


MANIFEST_ENTRY = {
    'technique': 'property-based testing (Hypothesis) plus bounded exhaustive enumeration: operation histories and '
                 'concurrent schedules on a virtual-time event loop against a sequential reference model and a pinned '
                 'state graph',
    'level_text': 'Every start state x direction x every sequence of three state operations (and every pair including '
                  'the TransferManager entry points) is executed against the real Transfer/TransferManager; longer '
                  'histories and 2..3-operation concurrent schedules (generated start offsets in loop iterations, '
                  'slow task cancellation, slow file removal, yielding listener, operations issued by the transfer '
                  'task) are enumerated for pairs and sampled otherwise. Each notification is checked against the '
                  'pinned graph; results, fields, file and task cancellations are compared with a sequential model '
                  'in observed lock order; refusals are checked to be free of side effects. Sampled schedules, no '
                  'proof.',
    'level_note': 'Trusted base: virtual-time loop, Hypothesis, asyncio.Lock fairness, the pinned graph '
                  '(pinned/transfer_graph.json, transcribed from transfer/state.py and cross-checked with USAGE.rst) '
                  'and the transcription of per-transition effects. Callers are never cancelled; whole-client '
                  'transfers (real transfer tasks) are the subject of C04-C06.',
}

KNOWN_REPLAYS = {
    # asyncio.gather(transfer.state.complete(), transfer.state.abort()) on a DOWNLOADING transfer: the finished
    # download is announced as COMPLETE -> ABORTED and its file is deleted
    'C03/stale-dispatch:illegal-edge:COMPLETE->ABORTED': {
        'state': STATES.index('DOWNLOADING'), 'dir': 1, 'file': 1, 'started': True, 'rq': False, 'seq': False,
        'ops': [_op(OPS.index('complete'), e=True), _op(OPS.index('abort'), e=True)],
        'tasks': 0, 'd': 0, 'x': 0, 'ly': 0},
    # pause() (cancelling the remotely-queue task) overlapped by queue(): InvalidStateTransition although PAUSED
    'C03/stale-dispatch:wrong-result:queue@PAUSED:refused-instead-of-done': {
        'state': STATES.index('QUEUED'), 'dir': 1, 'file': 0, 'started': False, 'rq': False, 'seq': False,
        'ops': [_op(OPS.index('pause'), m=True), _op(OPS.index('queue'), m=True, g=1)],
        'tasks': 2, 'd': 1, 'x': 0, 'ly': 0},
    # abort() (removing the file) overlapped by queue(): re-queued with the abort reason and progress kept
    'C03/stale-dispatch:wrong-effect:queue@ABORTED': {
        'state': STATES.index('PAUSED'), 'dir': 1, 'file': 1, 'started': True, 'rq': False, 'seq': False,
        'ops': [_op(OPS.index('abort'), m=True), _op(OPS.index('queue'), m=True, g=1)],
        'tasks': 0, 'd': 0, 'x': 0, 'ly': 0},
    # two overlapping aborts (the first one is removing the file): ABORTED -> ABORTED is announced
    'C03/stale-dispatch:illegal-edge:ABORTED->ABORTED': {
        'state': STATES.index('DOWNLOADING'), 'dir': 1, 'file': 1, 'started': True, 'rq': False, 'seq': False,
        'ops': [_op(OPS.index('abort'), m=True), _op(OPS.index('abort'), m=True, g=1)],
        'tasks': 0, 'd': 0, 'x': 0, 'ly': 0},
}
