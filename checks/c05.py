"""C05 — upload slots, one upload per user, priority, bounded start (DESIGN §3 C05)."""
from __future__ import annotations

import asyncio
import os
import shutil
import tempfile

from hypothesis import strategies as st

from vfw import simworld, xfer
from vfw.runner import CaseResult

PROPERTY = 'C05'
LEVEL = 'exploration'
RULE = (
    "Case = a real logged-in SoulSeekClient sharing 1..3 small files, 1..5 scripted downloaders (server-side status "
    "online/away/offline/unknown(AddUser never answered), friend flag, privilege flag (PrivilegedUsers list after "
    "login), delay of their PeerTransferReply 2/70/300 ms, control connection kept open or closed after each request "
    "so that the client must connect first (2 ms / 120 ms): INITIALIZING spans 0..10 management cycles; optionally a "
    "flaw of the FIRST negotiation attempt only: first PeerTransferRequest never answered (reply timeout after 30 s) "
    "| peer not connectable for the first file connection (direct refused, indirect CannotConnect) "
    "| one of the first three file connections cut after the ticket: 0..7 of the 8 offset bytes, then clean EOF or "
    "reset -- the client re-queues the upload from inside its negotiation task and "
    "has to start it again, possibly with nothing else happening afterwards), initial "
    "slot limit 0..4, upload bandwidth 1..4 KiB/s (uploads last 0.1..6 s of virtual time) and a history of <= 14 "
    "events: queue request (PeerTransferQueue from user u for file f; also re-queues COMPLETE/FAILED uploads), a "
    "repeated request for a file whose upload has ended (preferably of a user being served with another file), wait "
    "until the k-th active upload finishes, failure (downloader closes / resets the file connection), refusal "
    "(downloader answers allowed=False), abort / pause / queue through client.transfers, status change "
    "(GetUserStatus.Response), privilege list / AddPrivilegedUser, friend list change, limit change "
    "(settings.transfers.limits.upload_slots assigned, or the limits section / the whole transfers section of the "
    "settings replaced by a new object with the other values preserved), a restart on the same objects (all queued / running uploads aborted, then "
    "client.stop() + start() + login(), or TransferManager.stop() + start() alone, 0..300 ms after the last transfer "
    "event, new requests follow), a lost server connection (EOF / reset) with a manual connect_server() + login() "
    "10 ms..2 s later, and advance(dt) with dt in {0, 10 ms, 49 ms, 51 ms, 250 ms, 2 s}; then "
    "30 s of virtual time without external events followed by up to 50 windows of 2 s while uploads are still active "
    "or look stuck (covers reply timeout + retry + transfer). Observation: a TransferStateListener on every upload, a snapshot of what "
    "the client knows (upload states, user status/privileged from client.users, friends and limit from "
    "client.settings) taken at every call of TransferManager.manage_transfers (the decision instant), the "
    "PeerTransferRequest messages arriving at the scripted peers. Oracle: (1) at every notification and driver step "
    "the uploads in INITIALIZING/UPLOADING whose start was decided after the current limit was set number <= limit; and an "
    "upload is never started when that makes the total number of INITIALIZING/UPLOADING uploads (incl. those from "
    "before a limit change) exceed the limit read at its decision (documented behaviour after lowering the limit); (2) <= 1 such upload per user; (3) PeerTransferRequests received for an upload <= "
    "number of its QUEUED->INITIALIZING transitions; (4) no upload of a user known OFFLINE at the decision is "
    "started; (5) per management cycle: when an upload of user a was started, no user b with a QUEUED upload, not "
    "OFFLINE, without an active upload and of strictly higher class (privileged > friend > online/away > unknown, as "
    "known at the decision) was passed over (= none of b's uploads changed state before the next cycle); ties "
    "unconstrained; (6) after the quiet period, in no 2 s window without any state change does a QUEUED upload of a "
    "not-offline user without active upload exist while a slot is free -- where an INITIALIZING/UPLOADING upload "
    "that no task negotiates or sends any more (task handle None or done for the whole window) does not count as "
    "occupying a slot or as the one upload of its user. (7) at two management decisions in a row no user with an unfinished upload is "
    "without a tracking entry in the client, and at the end AddUser for every such user has reached the server on "
    "the current session; (8) an upload that stays INITIALIZING for 250 s without any state change while it blocks "
    "a waiting eligible upload is a violation of (6). Non-trivial = at some "
    "management cycle more eligible users had a QUEUED upload than slots were free; distinct = (population, initial "
    "limit, event-kind sequence)."
)
ASSUMPTIONS = [
    "in-memory TCP (ordered, lossless, latency 1 ms) and a protocol-level server model; scripted downloaders follow "
    "the transfer negotiation honestly except for the generated refusal / early close / reset and the generated "
    "first-attempt flaw (unanswered request, unreachable for the file connection, file connection cut before / inside the offset), after "
    "which they behave; peers that stay silent or unreachable for ever are outside the domain",
    "the start of an upload is attributed to the most recent manage_transfers call at which it was QUEUED (the "
    "decision instant); limit and user knowledge are read at that instant from the client's own objects, never from "
    "what the script intends",
    "which of several QUEUED uploads of one user is started, and the order among users of equal class, are not "
    "constrained",
    "'eventually' is decided at a horizon of 30 s of virtual time without external events plus up to 100 s while "
    "uploads are active, in 2 s windows: a violation needs a whole window without any transfer state change",
    "shares are mode 'everyone' and never change, nobody is blocked (entitlement is C08's subject)",
    "stop() + start() + login() on the same client object is generated only after the application has aborted every "
    "queued / running upload (tidy shutdown). Stopping with uploads in progress leaves them INITIALIZING / UPLOADING "
    "without a task after the restart (they keep their slot and their user's one upload for ever: kind "
    "...:slot-held-by-*-upload-without-task:after-stop-start when replayed with 'tidy': false), and the management "
    "cycle that load_data / start() requests runs before the login, so a queued upload is negotiated while the server "
    "connection is not usable (GetPeerAddress is never answered, AddUser is lost) -- reported as defects of the "
    "restart path, outside the registered domain",
    "client.transfers.queue() is called in the states its documentation lists (ABORTED, PAUSED, COMPLETE, FAILED) and "
    "in QUEUED / UPLOADING where it raises InvalidStateTransition, but not on an INITIALIZING upload: there it "
    "re-queues silently without cancelling the running negotiation, so one upload is negotiated and sent twice "
    "concurrently (a defect of the abort/queue machinery, C06/C03 territory; the per-transfer state, which this "
    "property is about, stays single-valued)",
]
BUDGET_S = {'quick': 150, 'thorough': 1500}

STATUSES = ['online', 'away', 'offline', 'unknown']
STATUS_CODE = {'offline': 0, 'away': 1, 'online': 2}
DTS = [0.0, 0.010, 0.049, 0.051, 0.250, 2.0]
REPLY_DELAYS = [0.002, 0.070, 0.300]
# control link of a downloader: kept open (the client answers on it) | closed after every queue request so that the
# client has to connect to the peer before it can send PeerTransferRequest (connect takes 2 ms | 120 ms)
LINK_MODES = ['keep', 'drop', 'drop-slow']
CONNECT_DELAY = {'keep': 0.002, 'drop': 0.002, 'drop-slow': 0.120}
# negotiation flaw of a downloader, applied to the FIRST attempt only (it behaves afterwards): the client puts the
# upload back to QUEUED from inside its own negotiation task and must start it again
#   silent-once      : the first PeerTransferRequest is never answered (reply timeout after 30 s)
#   unreachable-once : after the first positive reply the peer cannot be connected to (direct connect refused,
#                      indirect request answered by CannotConnect) until the client asks again
#   offset-cut       : the cut_at-th (1..3) file connection of this downloader is cut after the ticket: cut_n (0..7)
#                      of the 8 offset bytes are sent, then a clean close (EOF) or a reset; cut_n = 0 + EOF is the
#                      clean close before a single offset byte
FLAWS = ['none', 'silent-once', 'unreachable-once', 'offset-cut']
SPEEDS = [1, 2, 4]
# carrier of a run-time limit change: settings.transfers.limits.upload_slots = n | settings.transfers.limits =
# TransferLimitSettings(upload_slots=n) | settings.transfers = <copy of the section with new limits> (all three are
# plain validated assignments on the settings model; the oracle always reads client.settings...upload_slots)
LIMIT_HOW = ['attribute', 'limits-section', 'transfers-section']
# abort / pause of an active upload with a slow teardown: the close of its file connection is only confirmed
# (connection_lost) after this many seconds, so the transition holds the state lock over several management
# intervals while the upload is still UPLOADING; the call then runs beside the following events, and optionally the
# server announces some status (= a management cycle is requested) this long after the call
SLOW_CLOSE = [0.0, 0.1, 0.3, 0.5]
POKE_AT = [None, 0.02, 0.06, 0.15]
# 'restart': client.stop() this long after the last transfer state change (so that a management request may still be
# pending), then start() + login() again ON THE SAME client object after SESSION_GAP; 'relogin': the server drops the
# connection (EOF / reset), the application connects and logs in again after SESSION_GAP (no automatic reconnect)
RESTART_AFTER = [0.0, 0.010, 0.060, 0.300]
# what is stopped and started again: the whole client (stop(), start(), login()) | only the transfer service
# (TransferManager.stop() + its cancelled tasks awaited, TransferManager.start(); the session stays). A start() of the
# whole client always requests a shares cycle (load_from_settings announces every configured directory), the service
# alone does not
RESTART_SCOPE = ['client', 'transfer-service']
SESSION_GAP = [0.010, 0.060, 0.300, 2.0]
NEGOTIATION_MAX = 250.0  # no single negotiation attempt (one stay in INITIALIZING) can legitimately last this long
TRACK_BOUND = 5.0       # AddUser for a user with an unfinished upload must reach the server within 5 s of the session
TOLD_MARGIN = 0.010     # a server message counts as known to the client when it was sent >= 10 ms before a decision
OPS = ['queue', 'adv', 'finish', 'fail', 'refuse', 'abort', 'pause', 'requeue', 'status', 'privs', 'addpriv',
       'friend', 'limit', 'rerequest', 'restart', 'relogin']
MAX_EVENTS = 14
QUIET = 30.0            # virtual seconds without external events before liveness is judged ...
DRAIN_ROUNDS = 50       # ... then up to 50 further windows of 2 s while uploads are still active / look stuck
ACTIVE = ('INITIALIZING', 'UPLOADING')
CLASS_NAMES = ['unknown', 'online', 'friend', 'privileged']


# ---------------------------------------------------------------------------
# strategy

def _event():
    u = st.integers(0, 4)
    k = st.integers(0, 7)
    return st.one_of(
        st.builds(lambda a, b: {'op': 'queue', 'u': a, 'f': b}, u, st.integers(0, 2)),
        st.builds(lambda a, b: {'op': 'queue', 'u': a, 'f': b}, u, st.integers(0, 2)),
        st.builds(lambda a: {'op': 'adv', 'dt': a}, st.integers(0, len(DTS) - 1)),
        st.builds(lambda a: {'op': 'adv', 'dt': a}, st.integers(0, len(DTS) - 1)),
        st.builds(lambda a: {'op': 'adv', 'dt': a}, st.integers(0, len(DTS) - 1)),
        st.builds(lambda a: {'op': 'adv', 'dt': a}, st.integers(1, len(DTS) - 1)),
        st.builds(lambda a: {'op': 'finish', 'k': a}, k),
        st.builds(lambda a, b: {'op': 'fail', 'k': a, 'reset': b}, k, st.booleans()),
        st.builds(lambda a, b: {'op': 'refuse', 'u': a, 'on': b}, u, st.booleans()),
        st.builds(lambda a, sl, pk: {'op': 'abort', 'k': a, 'slow': sl, 'poke_at': pk}, k,
                  st.sampled_from([0, 0, 1, 2, 3]), st.integers(0, len(POKE_AT) - 1)),
        st.builds(lambda a, sl, pk: {'op': 'abort', 'k': a, 'slow': sl, 'poke_at': pk}, k,
                  st.sampled_from([0, 0, 1, 2, 3]), st.integers(0, len(POKE_AT) - 1)),
        st.builds(lambda a, sl, pk: {'op': 'pause', 'k': a, 'slow': sl, 'poke_at': pk}, k,
                  st.sampled_from([0, 0, 1, 2, 3]), st.integers(0, len(POKE_AT) - 1)),
        st.builds(lambda a: {'op': 'requeue', 'k': a}, k),
        st.builds(lambda a: {'op': 'rerequest', 'k': a}, k),
        st.builds(lambda a: {'op': 'rerequest', 'k': a}, k),
        st.builds(lambda a, b: {'op': 'status', 'u': a, 's': b}, u, st.integers(0, 2)),
        st.builds(lambda a: {'op': 'privs', 'mask': a}, st.integers(0, 31)),
        st.builds(lambda a: {'op': 'addpriv', 'u': a}, u),
        st.builds(lambda a, b: {'op': 'friend', 'u': a, 'on': b}, u, st.booleans()),
        st.builds(lambda a, h: {'op': 'limit', 'n': a, 'how': h}, st.integers(0, 4), st.integers(0, len(LIMIT_HOW) - 1)),
        st.builds(lambda a, h: {'op': 'limit', 'n': a, 'how': h}, st.integers(0, 4), st.integers(0, len(LIMIT_HOW) - 1)),
        st.builds(lambda a, g, sc, td, sv: {'op': 'restart', 'after': a, 'gap': g, 'scan': sc, 'tidy': td, 'scope': sv},
                  st.integers(0, len(RESTART_AFTER) - 1), st.integers(0, len(SESSION_GAP) - 1),
                  st.integers(0, 3).map(lambda v: v == 0), st.just(True), st.integers(0, len(RESTART_SCOPE) - 1)),
        st.builds(lambda a, g, sc, td, sv: {'op': 'restart', 'after': a, 'gap': g, 'scan': sc, 'tidy': td, 'scope': sv},
                  st.integers(0, len(RESTART_AFTER) - 1), st.integers(0, len(SESSION_GAP) - 1),
                  st.integers(0, 3).map(lambda v: v == 0), st.just(True), st.integers(0, len(RESTART_SCOPE) - 1)),
        st.builds(lambda r, g: {'op': 'relogin', 'reset': r, 'gap': g}, st.booleans(),
                  st.integers(0, len(SESSION_GAP) - 1)),
    )


@st.composite
def case_strategy(draw):
    n_users = draw(st.integers(1, 5))
    users = []
    for _ in range(n_users):
        users.append({
            'status': draw(st.sampled_from(['online', 'online', 'away', 'offline', 'unknown'])),
            'friend': draw(st.integers(0, 3)) == 0,
            'priv': draw(st.integers(0, 3)) == 0,
            'reply': draw(st.sampled_from([0, 0, 1, 2])),
            'link': draw(st.sampled_from([0, 0, 1, 2])),
            'flaw': draw(st.sampled_from([0, 0, 0, 1, 2, 3, 3])),
            'cut_n': draw(st.sampled_from([0, 0, 0, 1, 3, 7])),
            'cut_reset': draw(st.integers(0, 3)) == 0,
            'cut_at': draw(st.sampled_from([1, 1, 2, 3])),
        })
    sizes = draw(st.lists(st.sampled_from([400, 1100, 1600, 2500, 4000, 6000]), min_size=1, max_size=3))
    n_burst = draw(st.integers(1, 6))
    burst = [{'op': 'queue', 'u': draw(st.integers(0, 4)), 'f': draw(st.integers(0, 2))} for _ in range(n_burst)]
    rest = draw(st.lists(_event(), min_size=min(5, MAX_EVENTS - n_burst), max_size=MAX_EVENTS - n_burst))
    return {
        'limit': draw(st.sampled_from([1, 2, 1, 2, 0, 3, 4])),
        'speed': draw(st.sampled_from(SPEEDS)),
        'sizes': sizes,
        'users': users,
        'lead': draw(st.integers(0, len(DTS) - 1)),
        # re-announce a user's unchanged status after every limit change (a server does that at any time): avoids the
        # trigger of the known "limit raised, no cycle requested" finding so that the space behind it is explored
        'poke': draw(st.booleans()),
        'events': burst + rest,
    }


# ---------------------------------------------------------------------------
# sanitising (run_case is total: shrunk documents are clamped into the domain)

def _int(v, lo, hi, default=0):
    if isinstance(v, bool) or not isinstance(v, int):
        return default
    return max(lo, min(hi, v))


def _sanitise(case):
    if not isinstance(case, dict):
        return None
    users = []
    for u in (case.get('users') or [])[:5] if isinstance(case.get('users'), list) else []:
        if not isinstance(u, dict):
            continue
        users.append({'status': u.get('status') if u.get('status') in STATUSES else 'online',
                      'friend': bool(u.get('friend')), 'priv': bool(u.get('priv')),
                      'reply': _int(u.get('reply'), 0, len(REPLY_DELAYS) - 1),
                      'link': _int(u.get('link'), 0, len(LINK_MODES) - 1),
                      'flaw': _int(u.get('flaw'), 0, len(FLAWS) - 1),
                      'cut_n': _int(u.get('cut_n'), 0, 7), 'cut_reset': bool(u.get('cut_reset')),
                      'cut_at': _int(u.get('cut_at'), 1, 3, 1)})
    if not users:
        return None
    sizes = [_int(s, 200, 8000, 1100) for s in (case.get('sizes') if isinstance(case.get('sizes'), list) else [])][:3]
    if not sizes:
        sizes = [1100]
    events = []
    for e in (case.get('events') if isinstance(case.get('events'), list) else [])[:MAX_EVENTS]:
        if not isinstance(e, dict) or e.get('op') not in OPS:
            continue
        op = e['op']
        ev = {'op': op}
        if op in ('queue', 'refuse', 'status', 'addpriv', 'friend'):
            ev['u'] = _int(e.get('u'), 0, 4) % len(users)
        if op == 'queue':
            ev['f'] = _int(e.get('f'), 0, 2) % len(sizes)
        if op in ('abort', 'pause'):
            ev['slow'] = _int(e.get('slow'), 0, len(SLOW_CLOSE) - 1)
            ev['poke_at'] = _int(e.get('poke_at'), 0, len(POKE_AT) - 1)
        if op in ('finish', 'fail', 'abort', 'pause', 'requeue', 'rerequest'):
            ev['k'] = _int(e.get('k'), 0, 7)
        if op == 'fail':
            ev['reset'] = bool(e.get('reset'))
        if op in ('refuse', 'friend'):
            ev['on'] = bool(e.get('on'))
        if op == 'status':
            ev['s'] = _int(e.get('s'), 0, 2)
        if op == 'privs':
            ev['mask'] = _int(e.get('mask'), 0, 31)
        if op == 'limit':
            ev['n'] = _int(e.get('n'), 0, 4)
            ev['how'] = _int(e.get('how'), 0, len(LIMIT_HOW) - 1)
        if op == 'adv':
            ev['dt'] = _int(e.get('dt'), 0, len(DTS) - 1)
        if op == 'restart':
            ev['after'] = _int(e.get('after'), 0, len(RESTART_AFTER) - 1)
            ev['scan'] = bool(e.get('scan'))
            ev['tidy'] = True    # an untidy stop() + restart of the same object is outside the quantifier (DESIGN 11.3)
            ev['scope'] = _int(e.get('scope'), 0, len(RESTART_SCOPE) - 1)
        if op == 'relogin':
            ev['reset'] = bool(e.get('reset'))
        if op in ('restart', 'relogin'):
            ev['gap'] = _int(e.get('gap'), 0, len(SESSION_GAP) - 1)
        events.append(ev)
    speed = case.get('speed') if case.get('speed') in SPEEDS and not isinstance(case.get('speed'), bool) else 1
    return {'limit': _int(case.get('limit'), 0, 4, 1), 'speed': speed, 'sizes': sizes, 'users': users,
            'lead': _int(case.get('lead'), 0, len(DTS) - 1), 'poke': bool(case.get('poke')), 'events': events}


# ---------------------------------------------------------------------------
# observation + oracle

def _short(key):
    """(user, file name) without the share alias (derived from the temp directory name)."""
    return f'{key[0]}/{key[1][-6:]}'


def _user_class(info):
    """privileged > friend > online/away > unknown (info = (status name, privileged, friend))."""
    status, privileged, friend = info
    if privileged:
        return 3
    if friend:
        return 2
    if status in ('ONLINE', 'AWAY'):
        return 1
    return 0


class Observer:
    """TransferStateListener + decision snapshots + invariant evaluation. Never awaits, never raises into the
    library (harness faults are kept and re-raised after the run)."""

    def __init__(self, world, client, res: CaseResult):
        self.world = world
        self.loop = world.loop
        self.client = client
        self.res = res
        self.seq = 0
        self.uploads: dict = {}            # key (user, path) -> Transfer, insertion ordered
        self.trans: list = []              # (seq, time, key, old, new)
        self.cycles: list = []             # decision snapshots
        self.limit = client.settings.transfers.limits.upload_slots
        self.limit_seq = 0                 # seq at which the current limit value was set
        self.decided: dict = {}            # key -> seq of the decision that started it (last start)
        self.starts: dict = {}             # key -> number of QUEUED->INITIALIZING transitions
        self.waiters: dict = {}            # key -> asyncio.Event set when the upload leaves the active states
        self.harness_errors: list = []
        self.seen_kinds: set = set()
        self.max_active = 0
        self.contended = False
        self.priority_exercised = False
        self.exempt_seen = False
        self.last_change = 0.0
        self.stop_seq = None               # seq at the last client.stop()
        self.session_lost: list = []       # virtual times at which the server session ended (stop() / connection lost)

    # -- helpers ----------------------------------------------------------
    def now(self):
        return round(self.loop.time() - 1000.0, 6)

    def violate(self, kind, detail):
        if kind in self.seen_kinds:
            return
        self.seen_kinds.add(kind)
        self.res.violate(kind, f't={self.now()} {detail} | trace={self.trace_tail()}')

    def trace_tail(self, n=14):
        out = []
        for seq, t, key, old, new in self.trans[-n:]:
            out.append(f'{t}:{key[0]}/{key[1][-6:]}:{old}>{new}')
        return ' '.join(out)

    def state_of(self, key):
        return self.uploads[key].state.VALUE.name

    def user_info(self, name):
        """(status name, privileged, friend) exactly as the client's own objects say right now (no side effects)."""
        # WeakValueDictionary.get never raises; the public `users` property copies the whole weak dictionary, which
        # can raise KeyError when an entry dies during the copy (seen under a mutant, garbage-collector dependent)
        user = self.client.users._users.get(name)
        friend = name in self.client.settings.users.friends
        if user is None:
            # what get_user_object() would create: UNKNOWN, privileged iff in the stored list
            return ('UNKNOWN', name in self.client.users.privileged_users, friend)
        return (user.status.name, bool(user.privileged), friend)

    def active_keys(self):
        return [k for k in self.uploads if self.state_of(k) in ACTIVE]

    # -- event bus / listener ------------------------------------------------
    async def on_added(self, event):
        try:
            t = event.transfer
            if not t.is_upload():
                return
            key = (t.username, t.remote_path)
            if key not in self.uploads:
                self.uploads[key] = t
                t.state_listeners.append(self)
        except Exception as exc:   # pragma: no cover - harness fault
            self.harness_errors.append(repr(exc))

    async def on_transfer_state_changed(self, transfer, old, new):
        try:
            self._on_transition(transfer, old.name, new.name)
        except Exception as exc:   # pragma: no cover - harness fault
            import traceback
            self.harness_errors.append(traceback.format_exc())

    def _on_transition(self, transfer, old, new):
        key = (transfer.username, transfer.remote_path)
        if self.uploads.get(key) is not transfer:
            return
        self.seq += 1
        self.last_change = self.loop.time()
        self.trans.append((self.seq, self.now(), key, old, new))
        if new == 'INITIALIZING' and old == 'QUEUED':
            self.starts[key] = self.starts.get(key, 0) + 1
            snap = self.cycles[-1] if self.cycles else None
            if snap is not None and snap['states'].get(key) == 'QUEUED':
                self.decided[key] = snap['seq']
                snap['started'].append(key)
                info = snap['users'][key[0]]
                if info[0] == 'OFFLINE':
                    self.violate('C05/offline-user-started',
                                 f'upload {_short(key)} started although the client knew {key[0]} as OFFLINE at the decision '
                                 f'(cycle at t={snap["time"]})')
                total = len(self.active_keys())
                if total > snap['limit']:
                    recent = [k for k in self.active_keys() if self.decided.get(k, 0) > self.limit_seq]
                    if len(recent) <= self.limit:
                        self.violate('C05/started-over-limit-at-decision',
                                     f'upload {_short(key)} started with {total} uploads in INITIALIZING/UPLOADING '
                                     f'although the limit read at its decision (t={snap["time"]}) was {snap["limit"]} '
                                     f'(uploads from before a limit change count: the limit applies once the number '
                                     f'of current uploads has dropped to it)')
            else:
                # no decision at which it was QUEUED (cannot happen through manage_transfers): count it from now
                self.decided[key] = self.seq
                self.res.label('start-without-decision')
        if old in ACTIVE and new not in ACTIVE:
            ev = self.waiters.get(key)
            if ev is not None:
                ev.set()
        self.check_now(f'notification {key[0]}:{old}>{new}')

    # -- decision snapshot (wrapper around TransferManager.manage_transfers) ----
    def snapshot(self):
        self.seq += 1
        self._close_batch()
        states = {k: self.state_of(k) for k in self.uploads}
        names = sorted({k[0] for k in self.uploads})
        users = {n: self.user_info(n) for n in names}
        limit = self.client.settings.transfers.limits.upload_slots
        snap = {'seq': self.seq, 'time': self.now(), 't': self.loop.time(), 'limit': limit, 'states': states,
                'users': users, 'started': []}
        # the client owes tracking (reason TRANSFER) to every user with an unfinished upload: manage_user_tracking runs
        # right before every decision, so the reason must be on record for users that were already owed at the
        # previous decision (tracking state is reset with the session, the obligation is not)
        owed = {k[0] for k, s in states.items() if s not in ('COMPLETE', 'ABORTED', 'FAILED', 'VIRGIN')}
        snap['owed'] = owed
        entries = self.client.users._tracking_manager._tracked_users      # observation only
        snap['untracked'] = {n for n in owed if n not in entries}
        prev = self.cycles[-1] if self.cycles else None
        if prev is not None and snap['t'] - prev['t'] >= 0.04:
            for n in sorted(snap['untracked'] & prev.get('untracked', set())):
                which = ':after-relogin' if self.session_lost else ''
                self.violate(
                    f'C05/user-with-unfinished-upload-not-tracked{which}',
                    f'{n} has {[(k[1][-6:], s) for k, s in states.items() if k[0] == n]} but the client does not '
                    f'track {n} at all (no tracking entry; flags {self.client.users.get_tracking_flags(n)!r}, state '
                    f'{self.client.users.get_tracking_state(n).name}) at two management cycles in a row '
                    f'(t={prev["time"]}, t={snap["time"]}): it cannot learn that the user is offline / online; it '
                    f'holds {users[n]}')
        self.cycles.append(snap)
        active_users = {k[0] for k, s in states.items() if s in ACTIVE}
        eligible = {k[0] for k, s in states.items()
                    if s == 'QUEUED' and users[k[0]][0] != 'OFFLINE' and k[0] not in active_users}
        free = max(0, limit - sum(1 for s in states.values() if s in ACTIVE))
        snap['eligible'] = sorted(eligible)
        snap['free'] = free
        if len(eligible) > free:
            self.contended = True
        if free > 0 and len({_user_class(users[n]) for n in eligible}) > 1 and len(eligible) > free:
            self.priority_exercised = True

    def _close_batch(self):
        """Priority oracle for the previous decision: evaluated when the next one is taken / at the end."""
        if not self.cycles:
            return
        snap = self.cycles[-1]
        if snap.get('closed'):
            return
        snap['closed'] = True
        if not snap['started']:
            return
        touched = {key[0] for seq, _, key, _, _ in self.trans if seq > snap['seq']}
        snap['touched'] = touched
        for key in snap['started']:
            a = key[0]
            ca = _user_class(snap['users'][a])
            for b in snap['eligible']:
                if b == a or b in touched:
                    continue
                cb = _user_class(snap['users'][b])
                if cb > ca:
                    self.violate(
                        f'C05/priority-inverted:{CLASS_NAMES[ca]}-before-{CLASS_NAMES[cb]}',
                        f'cycle at t={snap["time"]} (limit {snap["limit"]}, free {snap["free"]}) started {_short(key)} of '
                        f'{a}{snap["users"][a]} while eligible {b}{snap["users"][b]} kept all its uploads QUEUED; '
                        f'states={ {k[0] + "/" + k[1][-6:]: s for k, s in snap["states"].items()} }')

    # -- the client must (again) track every user it owes an upload -------------------
    def check_tracked(self, frames):
        """End of run (>= 30 s quiet): for every user with an unfinished upload (not COMPLETE / ABORTED / FAILED) that
        did not change state during the last TRACK_BOUND seconds, an AddUser request must have reached the server on
        the CURRENT session (which is at least TRACK_BOUND old) and not been revoked by RemoveUser: without it the
        client gets no status for the user ('offline users never', online/away > unknown need that knowledge)."""
        M = simworld.M()
        now = self.loop.time()
        logins = [t for t, _, msg in frames if isinstance(msg, M.Login.Request)]
        if not logins or now - logins[-1] < TRACK_BOUND or any(t >= logins[-1] for t in self.session_lost):
            return
        recent = {key[0] for _, t, key, _, _ in self.trans if t + 1000.0 > now - TRACK_BOUND}
        owed = sorted({k[0] for k in self.uploads
                       if self.state_of(k) not in ('COMPLETE', 'ABORTED', 'FAILED', 'VIRGIN')} - recent)
        for n in owed:
            tracked = False
            for t, _, msg in frames:
                if t < logins[-1]:
                    continue
                if isinstance(msg, M.AddUser.Request) and msg.username == n:
                    tracked = True
                elif isinstance(msg, M.RemoveUser.Request) and msg.username == n:
                    tracked = False
            if not tracked:
                which = 'after-relogin' if len(logins) > 1 else 'first-session'
                self.violate(
                    f'C05/user-with-unfinished-upload-not-tracked:{which}',
                    f'{n} has {[(k[1][-6:], self.state_of(k)) for k in self.uploads if k[0] == n]} but no AddUser '
                    f'request for {n} reached the server on the current session (login at '
                    f't={round(logins[-1] - 1000.0, 3)}, now t={self.now()}): the client cannot learn the status of '
                    f'the user; it holds {self.user_info(n)}')

    # -- second source of truth: what the server has told the client ----------------
    def check_told(self, told, frames):
        """Judge every decision that started an upload against what the simulated server had TOLD the client about
        the users (status: AddUser.Response / GetUserStatus.Response while the client tracked the user; privilege:
        PrivilegedUsers / AddPrivilegedUser / GetUserStatus.Response), counting only messages sent at least
        TOLD_MARGIN before the decision and giving no verdict while anything newer is in flight or the tracking of
        the user started / ended around the decision. Catches defects in how the client acquires its knowledge, which
        the oracle on the client's own objects cannot see."""
        M = simworld.M()
        status_told: dict = {}     # user -> [(t, status name)]
        priv_told: dict = {}       # user -> [(t, bool)]
        track: dict = {}           # user -> [(t, 'add' | 'remove')]
        names = sorted({k[0] for k in self.uploads})
        code = {0: 'OFFLINE', 1: 'AWAY', 2: 'ONLINE'}
        for t, msg in told:
            if isinstance(msg, M.AddUser.Response):
                if msg.exists and msg.status in code:
                    status_told.setdefault(msg.username, []).append((t, code[msg.status]))
            elif isinstance(msg, M.GetUserStatus.Response):
                if msg.status in code:
                    status_told.setdefault(msg.username, []).append((t, code[msg.status]))
                priv_told.setdefault(msg.username, []).append((t, bool(msg.privileged)))
            elif isinstance(msg, M.PrivilegedUsers.Response):
                for n in names:
                    priv_told.setdefault(n, []).append((t, n in msg.users))
            elif isinstance(msg, M.AddPrivilegedUser.Response):
                priv_told.setdefault(msg.username, []).append((t, True))
        marks = sorted([(t, None, msg) for t, _, msg in frames] + [(t, 'lost', None) for t in self.session_lost],
                       key=lambda x: x[0])
        for t, lost, msg in marks:
            if lost or isinstance(msg, M.Login.Request):
                # the session ends / a new one begins: the client forgets users and privileges, nobody is tracked
                for n in names:
                    track.setdefault(n, []).append((t, 'remove'))
                    if lost:
                        priv_told.setdefault(n, []).append((t, False))
            elif isinstance(msg, M.AddUser.Request):
                track.setdefault(msg.username, []).append((t, 'add'))
            elif isinstance(msg, M.RemoveUser.Request):
                track.setdefault(msg.username, []).append((t, 'remove'))
        for n in priv_told:
            priv_told[n].sort(key=lambda x: x[0])

        def status_at(u, d):
            msgs = [m for m in status_told.get(u, []) if m[0] <= d]
            if not msgs:
                return 'UNKNOWN'                      # never told anything: the client cannot know a status
            start = None
            for t, what in track.get(u, []):
                if t > d + TOLD_MARGIN:
                    break
                if what == 'add':
                    if start is None:
                        start = t
                else:
                    start = None
            if start is None or start > d - TOLD_MARGIN:
                return None                           # not (yet / any more) tracked around the decision
            if any(start - TOLD_MARGIN <= t < start for t, _ in msgs):
                return None                           # told while the tracking was being set up
            inside = [m for m in msgs if m[0] >= start]
            if not inside:
                return 'UNKNOWN'
            if inside[-1][0] > d - TOLD_MARGIN:
                return None                           # newest message still in flight / just arrived
            return inside[-1][1]

        def priv_at(u, d):
            msgs = [m for m in priv_told.get(u, []) if m[0] <= d]
            if not msgs:
                return False
            if msgs[-1][0] > d - TOLD_MARGIN:
                return None
            return msgs[-1][1]

        def class_at(u, d, friend):
            st_, pv = status_at(u, d), priv_at(u, d)
            if st_ is None or pv is None:
                return None
            return _user_class((st_, pv, friend))

        for snap in self.cycles:
            d = snap['t']
            # consistency of the two sources (evidence only): determinate told status vs the client's object
            for n, info in snap['users'].items():
                ts = status_at(n, d)
                if ts is not None and ts != info[0]:
                    self.res.label('told-differs-from-client-knowledge')
            for key in snap['started']:
                a = key[0]
                if status_at(a, d) == 'OFFLINE':
                    which = ':after-relogin' if any(t <= d for t in self.session_lost) else ''
                    self.violate(f'C05/offline-user-started:told-by-server{which}',
                                 f'upload {_short(key)} was started by the cycle at t={snap["time"]} although the last '
                                 f'thing the server had told about {a} (>= {TOLD_MARGIN} s earlier, user tracked, nothing '
                                 f'newer in flight) was OFFLINE; the client held {snap["users"][a]}; told='
                                 f'{[(round(t - 1000.0, 4), v) for t, v in status_told.get(a, [])]}')
                ca_client = _user_class(snap['users'][a])
                ca = class_at(a, d, snap['users'][a][2])
                if ca is None:
                    continue
                for b in snap['eligible']:
                    if b == a or b in snap.get('touched', ()):
                        continue
                    if _user_class(snap['users'][b]) > ca_client:
                        continue                      # already reported from the client's own knowledge
                    if status_at(b, d) == 'OFFLINE':
                        continue
                    cb = class_at(b, d, snap['users'][b][2])
                    if cb is not None and cb > ca:
                        which = ':after-relogin' if any(t <= d for t in self.session_lost) else ''
                        self.violate(
                            f'C05/priority-inverted:told-by-server{which}:{CLASS_NAMES[ca]}-before-{CLASS_NAMES[cb]}',
                            f'cycle at t={snap["time"]} (limit {snap["limit"]}, free {snap["free"]}) started '
                            f'{_short(key)} of {a} while eligible {b} kept all its uploads QUEUED; by what the server '
                            f'had told, {a} is {CLASS_NAMES[ca]} and {b} is {CLASS_NAMES[cb]}; the client held '
                            f'{a}{snap["users"][a]} {b}{snap["users"][b]}')

    # -- invariants (every notification, every driver step) ---------------------
    def check_now(self, where):
        active = self.active_keys()
        self.max_active = max(self.max_active, len(active))
        recent = [k for k in active if self.decided.get(k, 0) > self.limit_seq]
        if len(recent) < len(active):
            self.exempt_seen = True
        if len(recent) > self.limit:
            self.violate('C05/slots-exceeded',
                         f'{len(recent)} uploads in INITIALIZING/UPLOADING started under limit {self.limit}: '
                         f'{[(k[0], k[1][-6:], self.state_of(k)) for k in recent]} at {where}')
        per_user: dict = {}
        for k in active:
            per_user.setdefault(k[0], []).append(k)
        for name in sorted(per_user):
            if len(per_user[name]) > 1:
                self.violate('C05/two-active-uploads-for-user',
                             f'{name} has {[(k[1][-6:], self.state_of(k)) for k in per_user[name]]} at {where}')

    def check_requests(self, downs):
        for name in sorted(downs):
            counts: dict = {}
            for _, msg in downs[name].transfer_requests:
                counts[msg.filename] = counts.get(msg.filename, 0) + 1
            for path in sorted(counts):
                n_start = self.starts.get((name, path), 0)
                if counts[path] > n_start:
                    self.violate('C05/duplicate-transfer-request',
                                 f'{name} received {counts[path]} PeerTransferRequest for {path[-6:]} but the upload '
                                 f'left QUEUED for INITIALIZING {n_start} time(s)')

    def set_limit(self, n):
        if n == self.limit:
            return
        self.seq += 1
        self.limit = n
        self.limit_seq = self.seq

    # -- bounded liveness --------------------------------------------------------
    def dead_active(self):
        """Uploads that occupy a slot (INITIALIZING / UPLOADING) although no task is negotiating or sending them."""
        out = []
        for k in self.uploads:
            if self.state_of(k) in ACTIVE:
                task = self.uploads[k]._transfer_task
                if task is None or task.done():
                    out.append(k)
        return sorted(out)

    def stuck(self, ignore=()):
        states = {k: self.state_of(k) for k in self.uploads if k not in ignore}
        active_users = {k[0] for k, s in states.items() if s in ACTIVE}
        n_active = sum(1 for s in states.values() if s in ACTIVE)
        limit = self.client.settings.transfers.limits.upload_slots
        if n_active >= limit:
            return []
        return sorted(k for k, s in states.items()
                      if s == 'QUEUED' and k[0] not in active_users and self.user_info(k[0])[0] != 'OFFLINE')


class _MemSharesCache:
    """Shares cache of the application (SharesCache protocol) kept in memory: the shared directories survive a
    stop() / start() of the client without a new scan, as with the shelve cache."""

    def __init__(self):
        self.directories: list = []

    def read(self):
        return self.directories

    def write(self, shared_directories):
        self.directories = shared_directories


def _slow_file_close(down, path, delay):
    """Make the client's side of the open file connection of this upload slow to close: is_closing() is true and the
    FIN leaves at once, connection_lost (what StreamWriter.wait_closed waits for) comes after ``delay`` seconds."""
    atts = [a for a in down.by_path.get(path, []) if a.file_link is not None and not a.closed]
    if not atts:
        return False
    ep = atts[-1].file_link.ep
    tr = ep.link.sides[1 - ep.index]
    if not hasattr(tr, '_protocol') or tr.dead or tr.is_closing():
        return False

    def close():
        if tr._closing:
            return
        tr._closing = True
        tr._link.side_closed(tr._index)

        def lost():
            if not tr._lost:
                tr._lost = True
                tr._protocol.connection_lost(None)
        tr._loop.call_later(delay, lost)
    tr.close = close
    tr.abort = close
    return True


def _install_flaw(world, down, flaw, res, params):
    """Make ONE negotiation attempt with this downloader (the first; for 'offset-cut' the cut_at-th file connection)
    fail in a way that sends the upload back to QUEUED; the other attempts are served normally. Everything stays
    recorded by the ScriptedDownloader."""
    if flaw == 'none':
        return
    import struct
    M = simworld.M()
    peer = down.peer
    st_ = {'armed': True, 'blocked': False, 'fconn': 0}
    orig_on_message = down._on_message
    orig_on_file_data = down._on_file_data

    def unblock():
        if st_['blocked']:
            st_['blocked'] = False
            peer.set_direct('accept')
            peer.indirect = 'pierce'

    def on_message(link, msg):
        if isinstance(msg, M.PeerTransferRequest.Request):
            if st_['blocked']:
                unblock()                       # the client asks again: reachable from now on
            elif st_['armed'] and flaw == 'silent-once':
                st_['armed'] = False
                res.label('flaw-fired:' + flaw)
                down.silent = True
                try:
                    orig_on_message(link, msg)  # recorded, not answered
                finally:
                    down.silent = False
                return
            elif st_['armed'] and flaw == 'unreachable-once' and down.allow:
                st_['armed'] = False
                st_['blocked'] = True
                res.label('flaw-fired:' + flaw)
                peer.set_direct('refuse')
                peer.indirect = 'cannot'
                world.loop.call_later(down.reply_delay + 3.0, unblock)   # fallback only
        orig_on_message(link, msg)

    def on_file_data(link):
        if flaw == 'offset-cut' and getattr(link, 'attempt', None) is None and len(link.raw) >= 4 \
                and not getattr(link, 'counted', False):
            link.counted = True
            st_['fconn'] += 1
            if st_['armed'] and st_['fconn'] == params['cut_at']:
                # ticket received: send cut_n bytes of the offset, then hang up (clean EOF) or reset
                st_['armed'] = False
                n = params['cut_n']
                how = 'reset' if params['cut_reset'] else 'eof'
                res.label(f'flaw-fired:offset-cut:{how}:{"0" if n == 0 else "1-7"}-bytes')
                if n:
                    link.ep.send(struct.pack('<Q', 0)[:n])
                if params['cut_reset']:
                    link.ep.reset()
                else:
                    link.ep.close()
                return
        orig_on_file_data(link)

    peer.on_message = on_message
    peer.on_file_data = on_file_data


_LAST: dict = {}
# per-case scratch directory: memory backed when available (creating / removing a directory on the disk behind /tmp
# costs 10..70 ms under load, more than the case itself)
_TMP_BASE = '/dev/shm' if os.path.isdir('/dev/shm') and os.access('/dev/shm', os.W_OK | os.X_OK) else None


def run_case(case) -> CaseResult:
    res = CaseResult()
    c = _sanitise(case)
    if c is None or not c['events']:
        return res
    from aioslsk.events import TransferAddedEvent
    from aioslsk.exceptions import InvalidStateTransition, TransferNotFoundError
    from aioslsk.protocol import messages as M
    from aioslsk.settings import TransferLimitSettings

    names = ['u%d' % i for i in range(len(c['users']))]
    tmp = tempfile.mkdtemp(prefix='vfw-c05-', dir=_TMP_BASE)
    out: dict = {}

    async def main(world: simworld.World):
        loop = world.loop
        settings = simworld.mk_settings('me')
        xfer.share_dir_settings(settings, tmp)
        settings.transfers.limits.upload_slots = c['limit']
        settings.users.friends = {n for n, u in zip(names, c['users']) if u['friend']}
        downs = {}
        answered = {}       # unknown status = the server never answers AddUser for that user (until a status event)
        for n, u in zip(names, c['users']):
            delay = CONNECT_DELAY[LINK_MODES[u['link']]]
            d = xfer.ScriptedDownloader(world, n, direct_delay=delay, indirect_delay=delay)
            d.reply_delay = REPLY_DELAYS[u['reply']]
            _install_flaw(world, d, FLAWS[u['flaw']], res, u)
            downs[n] = d
            su = world.server.users[n]
            su['status'] = STATUS_CODE.get(u['status'], 2)
            su['privileged'] = u['priv']
            answered[n] = u['status'] != 'unknown'
        world.server.add_user_behaviour = \
            lambda username, attempt: None if answered.get(username, True) else 'silent'
        told: list = []     # (virtual time the message leaves the server, message): everything the server tells

        def send_recorded(msg, session=-1, delay=0.0, _send=world.server.send):
            if not isinstance(msg, (bytes, bytearray)):
                told.append((loop.time() + (delay or world.server.reply_delay or 0.0), msg))
            return _send(msg, session, delay)
        world.server.send = send_recorded
        world.server.post_login = [M.PrivilegedUsers.Response(users=[n for n, u in zip(names, c['users']) if u['priv']])]

        client = await world.start_client(settings, shares_cache=_MemSharesCache())
        client.network.set_upload_speed_limit(c['speed'])
        obs = Observer(world, client, res)
        out['obs'] = obs
        client.events.register(TransferAddedEvent, obs.on_added)
        orig_manage = client.transfers.manage_transfers

        def manage_transfers_observed():
            try:
                obs.snapshot()
            except Exception:   # pragma: no cover - harness fault
                import traceback
                obs.harness_errors.append(traceback.format_exc())
            return orig_manage()
        client.transfers.manage_transfers = manage_transfers_observed

        await client.shares.scan()
        paths = sorted(i.get_remote_path() for d in client.shares.shared_directories for i in d.items)
        if len(paths) != len(c['sizes']):
            raise RuntimeError(f'share scan found {paths}')
        await asyncio.sleep(0.3 + DTS[c['lead']])

        def poke():
            # the server announces the status of some user without transfers (any GetUserStatus requests a cycle)
            world.server.send(M.GetUserStatus.Response('bystander', 2, False))

        def close_if_unused(link):
            # the downloader hangs up unless the client has already answered on this connection
            if not link.messages:
                link.ep.close()

        def send_queue(uidx, path):
            down = downs[names[uidx]]
            if c['users'][uidx]['link']:
                # a fresh connection per request, closed right after it (connections opened by the client, on
                # which replies to its PeerTransferRequests travel, are left alone)
                link = down.queue(path, link=down.peer.connect('P'))
                loop.call_later(0.004, close_if_unused, link)
            else:
                down.queue(path)

        pending_calls: list = []

        async def user_call(api, transfer):
            try:
                await getattr(client.transfers, api)(transfer)
                res.label(f'call:{api}:ok')
            except (InvalidStateTransition, TransferNotFoundError):
                res.label(f'call:{api}:refused')
            except Exception as exc:
                obs.violate(f'C05/unexpected-exception:{type(exc).__name__}@transfers.{api}', repr(exc))

        for ev in c['events']:
            op = ev['op']
            if op == 'queue':
                send_queue(ev['u'], paths[ev['f']])
            elif op == 'rerequest':
                # the downloader asks again for a file whose upload has ended (COMPLETE / FAILED are put back in
                # the queue), preferably one of a user who is being served with another file right now
                ended = [k for k in obs.uploads if obs.state_of(k) in ('COMPLETE', 'FAILED')]
                served = {k[0] for k in obs.active_keys()}
                ended = [k for k in ended if k[0] in served] or ended
                if ended:
                    key = ended[ev['k'] % len(ended)]
                    send_queue(names.index(key[0]), key[1])
                    res.label('rerequest:served-user' if key[0] in served else 'rerequest:idle-user')
            elif op == 'adv':
                await asyncio.sleep(DTS[ev['dt']])
            elif op == 'finish':
                active = sorted(obs.active_keys())
                if active:
                    key = active[ev['k'] % len(active)]
                    evt = obs.waiters[key] = asyncio.Event()
                    try:
                        await asyncio.wait_for(evt.wait(), 40.0)
                        res.label('finish:waited')
                    except asyncio.TimeoutError:
                        res.label('finish:timeout')
                    obs.waiters.pop(key, None)
            elif op == 'fail':
                active = sorted(obs.active_keys())
                if active:
                    key = active[ev['k'] % len(active)]
                    atts = [a for a in downs[key[0]].by_path.get(key[1], []) if a.file_link is not None and not a.closed]
                    if atts:
                        att = atts[-1]
                        att.closed = True
                        if ev['reset']:
                            att.file_link.ep.reset()
                        else:
                            att.file_link.ep.close()
                        res.label('fail:cut')
                    else:
                        res.label('fail:no-file-connection')
            elif op == 'refuse':
                downs[names[ev['u']]].allow = not ev['on']
            elif op in ('abort', 'pause', 'requeue'):
                keys = list(obs.uploads)
                if op != 'requeue' and SLOW_CLOSE[ev['slow']] > 0:
                    # a slow teardown needs something to tear down: address the active uploads when there are any
                    keys = [k for k in keys if obs.state_of(k) == 'UPLOADING'] or obs.active_keys() or keys
                if keys:
                    transfer = obs.uploads[keys[ev['k'] % len(keys)]]
                    if op == 'requeue' and transfer.state.VALUE.name == 'INITIALIZING':
                        # outside the documented domain of TransferManager.queue (see ASSUMPTIONS)
                        res.label('call:queue:skipped-initializing')
                    elif op != 'requeue' and SLOW_CLOSE[ev['slow']] > 0:
                        key = (transfer.username, transfer.remote_path)
                        if _slow_file_close(downs[key[0]], key[1], SLOW_CLOSE[ev['slow']]):
                            res.label('slow-teardown:file-connection')
                        pending_calls.append(asyncio.ensure_future(user_call(op, transfer)))
                        if POKE_AT[ev['poke_at']] is not None:
                            loop.call_later(POKE_AT[ev['poke_at']], poke)
                    else:
                        await user_call('queue' if op == 'requeue' else op, transfer)
            elif op == 'status':
                n = names[ev['u']]
                su = world.server.users[n]
                su['status'] = ev['s']
                answered[n] = True
                world.server.send(M.GetUserStatus.Response(n, ev['s'], bool(su['privileged'])))
            elif op == 'privs':
                lst = [n for i, n in enumerate(names) if ev['mask'] >> i & 1]
                for n in names:
                    world.server.users[n]['privileged'] = n in lst
                world.server.send(M.PrivilegedUsers.Response(users=lst))
            elif op == 'addpriv':
                n = names[ev['u']]
                world.server.users[n]['privileged'] = True
                world.server.send(M.AddPrivilegedUser.Response(n))
            elif op == 'friend':
                n = names[ev['u']]
                if ev['on']:
                    client.settings.users.friends.add(n)
                else:
                    client.settings.users.friends.discard(n)
            elif op == 'restart':
                # stop() `after` seconds after the last transfer state change (or at once when that is longer ago)
                if obs.trans:
                    wait = obs.last_change + RESTART_AFTER[ev['after']] - loop.time()
                    if 0 < wait <= 0.3:
                        await asyncio.sleep(wait)
                if ev['tidy']:
                    # the application shuts down tidily: it aborts every upload that is queued or running before it
                    # stops the client (generated histories always do; see ASSUMPTIONS for what happens otherwise)
                    for _ in range(3):
                        todo = [k for k in obs.uploads if obs.state_of(k) in ('QUEUED',) + ACTIVE]
                        if not todo:
                            break
                        for key in todo:
                            await user_call('abort', obs.uploads[key])
                else:
                    res.label('restart:untidy')
                if RESTART_SCOPE[ev['scope']] == 'transfer-service':
                    cancelled = await client.transfers.stop()
                    await asyncio.gather(*cancelled, return_exceptions=True)
                    obs.stop_seq = obs.seq
                    await asyncio.sleep(SESSION_GAP[ev['gap']])
                    await client.transfers.start()
                    res.label('restart:transfer-service')
                else:
                    obs.session_lost.append(loop.time())
                    await client.stop()
                    obs.stop_seq = obs.seq     # everything up to here happened before / during the stop
                    await asyncio.sleep(SESSION_GAP[ev['gap']])
                    world.server.post_login = [M.PrivilegedUsers.Response(
                        users=[n for n in names if world.server.users[n].get('privileged')])]
                    await client.start()
                    await client.login()
                    if ev['scan']:
                        await client.shares.scan()
                    res.label('restart:client:with-scan' if ev['scan'] else 'restart:client:shares-from-cache')
            elif op == 'relogin':
                if world.server.sessions and not world.server.sessions[-1].dead:
                    obs.session_lost.append(loop.time())
                    world.server.close_session(kind='reset' if ev['reset'] else 'eof')
                    await asyncio.sleep(SESSION_GAP[ev['gap']])
                    world.server.post_login = [M.PrivilegedUsers.Response(
                        users=[n for n in names if world.server.users[n].get('privileged')])]
                    await client.network.connect_server()
                    await client.login()
                    res.label('relogin')
            elif op == 'limit':
                how = LIMIT_HOW[ev['how']]
                if how == 'attribute':
                    client.settings.transfers.limits.upload_slots = ev['n']
                elif how == 'limits-section':
                    # the application applies a new limits section (e.g. a re-loaded configuration)
                    client.settings.transfers.limits = TransferLimitSettings(upload_slots=ev['n'])
                else:
                    # ... or a new transfers section; every other value of the section is preserved
                    client.settings.transfers = client.settings.transfers.model_copy(
                        update={'limits': TransferLimitSettings(upload_slots=ev['n'])})
                if client.settings.transfers.limits.upload_slots != ev['n']:
                    # the configured number of slots (0..4 are all legal values) was not taken over as given:
                    # everything that follows would run under another limit than the configured one
                    obs.violate('C05/configured-slot-limit-altered',
                                f'upload_slots set to {ev["n"]} ({how}) but the settings hold '
                                f'{client.settings.transfers.limits.upload_slots}')
                res.label('limit-how:' + how)
                obs.set_limit(ev['n'])
                if c['poke']:
                    poke()
            obs.check_now(f'step {op}')
            obs.check_requests(downs)

        if pending_calls:
            await asyncio.wait(pending_calls, timeout=30.0)
        # ---- quiet period, bounded liveness ------------------------------------
        t_quiet = loop.time()
        await asyncio.sleep(QUIET)
        obs.check_now('after quiet period')
        obs.check_requests(downs)
        rounds = 0
        undecided = False
        while True:
            stuck = obs.stuck()
            dead = obs.dead_active()
            blocked = obs.stuck(ignore=dead) if dead and not stuck else []
            if not stuck and not blocked and len(obs.active_keys()) == len(dead):
                break                       # nothing runs, nothing eligible waits for a free slot
            if rounds >= DRAIN_ROUNDS:
                undecided = True
                break
            rounds += 1
            before = len(obs.trans)
            await asyncio.sleep(2.0)
            if blocked and len(obs.trans) == before and obs.dead_active() == dead \
                    and obs.stuck(ignore=dead) == blocked:
                limit = client.settings.transfers.limits.upload_slots
                states = sorted({obs.state_of(k) for k in dead})
                # root cause tag: the upload has not changed state since the client was stopped (its task was
                # cancelled by stop(), start() on the same object does not repair the state)
                last_seq = {k: max([sq for sq, _, kk, _, _ in obs.trans if kk == k] or [0]) for k in dead}
                tag = ':after-stop-start' if obs.stop_seq is not None and \
                    all(last_seq[k] <= obs.stop_seq for k in dead) else ''
                obs.violate(
                    f'C05/eligible-upload-not-started:slot-held-by-{"+".join(states)}-upload-without-task{tag}',
                    f'{[(k[0], k[1][-6:], obs.user_info(k[0])) for k in blocked]} stay QUEUED (limit {limit}) because '
                    f'{[(k[0], k[1][-6:], obs.state_of(k)) for k in dead]} keep(s) a slot / the one upload of the user '
                    f'although no task negotiates or sends it any more (task handle None or done); no state change '
                    f'during the last 2 s, {round(loop.time() - t_quiet, 3)} s after the last external event; '
                    f'loop errors: {[e.get("exc_type") for e in loop.errors[:3]]}')
                break
            if stuck and len(obs.trans) == before and obs.stuck() == stuck:
                limit = client.settings.transfers.limits.upload_slots
                # root cause tag: the last decision was taken under a smaller limit than the current one, i.e. no
                # management cycle has run since the limit was raised
                cause = ':limit-raised-no-cycle' if (obs.cycles and obs.cycles[-1]['limit'] < limit) else ''
                obs.violate(
                    f'C05/eligible-upload-not-started{cause}',
                    f'{[(k[0], k[1][-6:], obs.user_info(k[0])) for k in stuck]} stay QUEUED with '
                    f'{len(obs.active_keys())} active uploads and limit {limit}, no state change during the last 2 s, '
                    f'{round(loop.time() - t_quiet, 3)} s after the last external event; last management cycle at '
                    f't={obs.cycles[-1]["time"] if obs.cycles else None}')
                break
        if undecided:
            # an upload that has been INITIALIZING since before the drain began: no sequence of the library's own
            # time-outs (connect 10 s / 60 s, reply 30 s, connect, offset 60 s) keeps one negotiation attempt alive
            # for NEGOTIATION_MAX seconds; wait that long, then judge it like an upload without task
            def wedged():
                out = []
                for k in obs.uploads:
                    if obs.state_of(k) == 'INITIALIZING':
                        last = max(t for _, t, kk, _, _ in obs.trans if kk == k)
                        if obs.now() - last >= 100.0:
                            out.append((k, last))
                return out
            w = wedged()
            if w:
                before = len(obs.trans)
                remaining = max(l for _, l in w) + NEGOTIATION_MAX - obs.now()
                while remaining > 0 and len(obs.trans) == before:
                    await asyncio.sleep(min(10.0, remaining))
                    remaining -= 10.0
                keys = sorted(k for k, _ in w)
                if len(obs.trans) == before and not obs.stuck():
                    blocked = obs.stuck(ignore=keys)
                    if blocked:
                        undecided = False
                        limit = client.settings.transfers.limits.upload_slots
                        obs.violate(
                            'C05/eligible-upload-not-started:slot-held-by-INITIALIZING-upload-that-never-ends',
                            f'{[(k[0], k[1][-6:], obs.user_info(k[0])) for k in blocked]} stay QUEUED (limit {limit}) '
                            f'because {[(k[0], k[1][-6:]) for k in keys]} has/have been INITIALIZING for more than '
                            f'{NEGOTIATION_MAX} s without any state change (longer than all time-outs of one '
                            f'negotiation attempt together): the slot / the one upload of the user is never released')
        if undecided:
            res.label('liveness-undecided')
        obs.check_now('end of run')
        obs._close_batch()
        obs.check_requests(downs)
        obs.check_told(told, world.server.frames)
        obs.check_tracked(world.server.frames)
        out['final_states'] = {k: obs.state_of(k) for k in obs.uploads}
        out['dead_end'] = obs.dead_active()
        await client.stop()

    try:
        for i, size in enumerate(c['sizes']):
            with open(os.path.join(tmp, 'f%d.bin' % i), 'wb') as fh:
                fh.write(xfer.content(i, size))
        _, loop_errors = simworld.run_world(main)
    finally:
        shutil.rmtree(tmp, ignore_errors=True)

    obs = out['obs']
    _LAST['obs'] = obs     # debugging aid only (scratch scripts print the trace of the last case)
    if obs.harness_errors:
        raise RuntimeError('harness fault inside observer: ' + obs.harness_errors[0])
    for e in loop_errors[:3]:
        res.label('loop-error:' + str(e.get('exc_type')))

    # ---- labels / distinctness ----------------------------------------------
    res.nontrivial = obs.contended
    res.key = [[(u['status'], u['friend'], u['priv'], u['reply'], u['link'], u['flaw']) for u in c['users']],
               c['limit'],
               [e['op'] for e in c['events']]]
    res.label('users:%d' % len(c['users']), 'limit0:%d' % c['limit'], 'max-active:%d' % obs.max_active,
              'starts:%s' % min(9, sum(obs.starts.values())), 'cycles:%s' % (min(len(obs.cycles), 100) // 10 * 10))
    for e in c['events']:
        res.label('op:' + e['op'])
    for u in c['users']:
        res.label('status0:' + u['status'], 'link:' + LINK_MODES[u['link']], 'flaw:' + FLAWS[u['flaw']])
    if obs.contended:
        res.label('contended')
    if obs.priority_exercised:
        res.label('priority-exercised')
    if obs.exempt_seen:
        res.label('active-from-before-limit-change')
    for s in sorted(set(out.get('final_states', {}).values())):
        res.label('final:' + s)
    if any(n > 1 for n in obs.starts.values()):
        res.label('restarted-upload')
    if out.get('dead_end'):
        res.label('active-upload-without-task-at-end')
    if any(old == 'INITIALIZING' and new == 'QUEUED' for _, _, _, old, new in obs.trans):
        res.label('requeued-by-failed-negotiation')
    batch = max([len(sn['started']) for sn in obs.cycles] or [0])
    res.label('max-batch:%d' % batch)
    res.info = {'transitions': len(obs.trans), 'cycles': len(obs.cycles)}
    return res


# one deterministic case per known finding (listed in KNOWN_FINDINGS.txt by its kind)
KNOWN_REPLAYS = {
    # the slot limit is raised while uploads are queued and nothing else happens: no management cycle is requested
    # by a settings change, so the queued uploads are not started until some unrelated event requests a cycle
    'C05/eligible-upload-not-started:limit-raised-no-cycle': {
        'limit': 0, 'speed': 1, 'sizes': [1100], 'lead': 0, 'poke': False,
        'users': [{'status': 'online', 'friend': False, 'priv': False, 'reply': 0, 'link': 0}],
        'events': [{'op': 'queue', 'u': 0, 'f': 0}, {'op': 'adv', 'dt': 4}, {'op': 'limit', 'n': 2}],
    },
}


# genuine defects of the reconnect paths found on the unchanged tree and repaired in /repo (stale user object of a tracked
# user after the session was lost; GetPeerAddress answer awaited for ever): kept as regression replays
KNOWN_REPLAYS.update({
    'C05/offline-user-started:told-by-server:after-relogin': {'events': [{'f': 0, 'op': 'queue', 'u': 3}, {'gap': 3, 'op': 'relogin', 'reset': False}], 'lead': 2, 'limit': 1, 'poke': False, 'sizes': [], 'speed': 4, 'users': [{'cut_at': 2, 'cut_n': 3, 'cut_reset': True, 'flaw': 1, 'friend': True, 'link': 1, 'priv': True, 'reply': 0, 'status': 'offline'}]},
    'C05/eligible-upload-not-started:slot-held-by-INITIALIZING-upload-that-never-ends': {'limit': 1, 'speed': 1, 'sizes': [1100, 2500], 'users': [{'status': 'online', 'friend': False, 'priv': True, 'reply': 0, 'link': 1, 'flaw': 0}, {'status': 'online', 'friend': False, 'priv': False, 'reply': 0, 'link': 0, 'flaw': 0}], 'lead': 4, 'poke': False, 'events': [{'op': 'queue', 'u': 0, 'f': 1}, {'op': 'queue', 'u': 1, 'f': 1}, {'op': 'relogin', 'reset': False, 'gap': 0}]},
})


def run_shard(ctx):
    n = 200 if ctx.tier == 'quick' else 4000
    ctx.explore(case_strategy(), n)


MANIFEST_ENTRY = {
    'technique': 'property-based testing (Hypothesis): generated event histories (queue requests, completions, '
                 'failures, first-attempt negotiation failures (unanswered request, unreachable peer, early hang-up), '
                 'refusals, user abort/pause/queue, status / privilege / friend / limit changes, advances '
                 'of 0..2 s placed around the 50..250 ms management cycles) against a real SoulSeekClient on a '
                 'virtual-time loop with in-memory TCP, simulated server and scripted downloaders; slot / per-user / '
                 'request-count invariants at every state notification, class-dominance oracle per management '
                 'decision, bounded-start check after a quiet period',
    'level_text': 'Generated-history exploration of the real TransferManager scheduling inside a full client: '
                  'invariants are evaluated at every transfer state notification and driver step, priority is judged '
                  'per management decision from a snapshot of what the client knew at that instant, liveness at a '
                  '30 s + 2 s virtual-time horizon. Sampled histories and timings; no proof.',
    'level_note': 'Trusted base: virtual loop, in-memory TCP (latency 1 ms), server / downloader scripts, the '
                  'observation wrapper around TransferManager.manage_transfers (decision instant). Ties among equal '
                  'classes and the choice among one user\'s uploads are unconstrained.',
}
