"""C09 part 2 — concurrent downloads of equally named files never share a local path (DESIGN §3 C09).

Case = 2..3 downloads of an equally named file from different scripted uploaders through the real TransferManager:
request / start offsets, file sizes, executor delay (slow disk), pre-existing files, bandwidth limit, a first attempt
that breaks before its first byte, a change of settings.shares.download in between, a user action (abort / pause /
remove, optionally queue again) on the download that holds the path lock or on one that waits for it, and optionally a
keep-directory naming chain (default,keep,number / keep,default,number) with per-uploader remote directories: alias
only, ordinary, named like the file (cannot be created once an equally named file is in the download root) or 300
characters long (cannot be created); or download 0 is paused while DOWNLOADING, its partial file is deleted by the
harness (the user cleaned up), and it is queued again in the instant an equally named download of another user is
requested, both uploads being started in one instant or a generated offset apart, with an optional slow application
state listener (if the deleted file's name is given to the other download BEFORE the resumed download has prepared
its path again, the later clash is a consequence of the outside deletion and is labelled, not judged).  Oracle: no two active downloads share a local path at any sampled instant, no
active download has the local path of a finished / failed / paused one, COMPLETE files equal their source, completed downloads
have distinct paths, every path lies in the directory configured when it was chosen, nothing appears outside the
download directories, pre-existing files keep their content, no download is left INITIALIZING / DOWNLOADING without a
task, no exception is lost in the loop.  Note: the arrival order of requests delivered in the same virtual instant
is decided inside the library / loop and can differ between processes; roles (holder / waiter) are therefore resolved
at run time, not fixed by index.
"""
from __future__ import annotations

import asyncio
import os
import shutil
import sys
import tempfile

from hypothesis import strategies as st

from vfw import simworld, xfer
from vfw.runner import CaseResult

NAMES = ['song.mp3', 'a (1).txt', 'x']
OFFSETS_MS = [0, 0, 0, 0.1, 0.5, 1, 5, 25, 40, 70, 100]
EXEC_DELAYS = [0.0, 0.0, 0.0005, 0.002, 0.02]
# the user re-configures settings.shares.download while downloads come and go (virtual ms after the first download call)
SWITCH_MS = [None, None, None, 5, 20, 50, 60, 90]
# user action on one of the downloads, triggered by the k-th path calculation (= a download holds the path lock
# between 'path chosen' and 'placeholder created' while the others wait for the lock): after delay_ms of virtual time
# plus `iters` loop iterations the download `who` is aborted / paused / removed; optionally queued again later
# (`who` is a role: 0 = the holder of the lock, 1 / 2 = first / last waiting download, see user_action)
ACT_KINDS = ['abort', 'pause', 'remove']
# naming chains configured on client.shares.naming_strategies (None = shipped configuration); only chains that end
# with number-duplicates promise a fresh path.  RDIRS = the remote directory each uploader reports for the file:
# the share alias only (keep-directory ignores it -> download root), an ordinary directory, a directory NAMED LIKE THE
# FILE (collides with an equally named file in the download root: the directory cannot be created), a 300-character
# directory (cannot be created either)
# resumed download whose partial file disappeared: download 0 is paused while DOWNLOADING (path chosen, file created),
# the harness optionally deletes its partial file (the user cleaned up), after gap_ms it is queued again and download 1
# (equally named, other user) is requested in the same instant; both uploaders then start their uploads in one instant
# (iters odd: uploader 1 first) or other_offset_ms apart, so that the two downloads start up in lockstep
# listener_ms: the application has registered a (documented) transfer state listener that takes that long, which
# stretches the state change INITIALIZING -> DOWNLOADING of the resumed download
RESUME_OFFSETS_MS = [0, 0, -0.1, 0.1, 0.5, 0.5, 1, 1, 3, -1, 5]
CHAINS = {'dkn': ['default', 'keep', 'number'], 'kdn': ['keep', 'default', 'number']}
RDIRS = ['alias-only', 'music', 'as-file', 'long']
ACT_DELAYS_MS = [0, 0, 0.05, 0.3, 0.5, 1, 1.5, 3, 10, 19, 25]
ACT_RESUME_MS = [None, None, 5, 30, 100, 300]


@st.composite
def conc_case(draw):
    n = draw(st.integers(2, 3))
    return {
        't': 'conc',
        'name': draw(st.sampled_from(NAMES)),
        'n': n,
        'download_at': [draw(st.sampled_from(OFFSETS_MS)) for _ in range(n)],
        'start_at': [draw(st.sampled_from(OFFSETS_MS)) for _ in range(n)],
        'sizes': [draw(st.sampled_from([1, 300, 9000, 20000])) for _ in range(n)],
        'exec_delay': draw(st.sampled_from(EXEC_DELAYS)),
        'pre': draw(st.sampled_from(['none', 'file', 'file+1'])),
        'limited': draw(st.booleans()),
        'same_dir': draw(st.booleans()),
        # the first attempt of download 0 breaks before its first byte (reset / EOF at 0); it is retried later
        'first_fault': draw(st.sampled_from(['none', 'none', 'none', 'reset0', 'eof0'])),
        'retry_ms': draw(st.sampled_from([50, 150, 300])),
        # change of the download directory setting at switch_ms (None = never); relative = given relative to the
        # (unchanged) working directory; rel0 = the initial setting is relative
        'switch_ms': draw(st.sampled_from(SWITCH_MS)),
        'switch_rel': draw(st.booleans()),
        'rel0': draw(st.sampled_from([False, False, True])),
        'chain': draw(st.sampled_from([None, None, None, 'dkn', 'dkn', 'kdn'])),
        'rdirs': draw(st.none() | st.lists(st.sampled_from(RDIRS + ['alias-only', 'as-file']), min_size=n, max_size=n)),
        'resume': draw(st.none() | st.none() | st.fixed_dictionaries({
            'pause_after_ms': st.sampled_from([0, 1, 20]), 'delete': st.sampled_from([True, True, False]),
            'gap_ms': st.sampled_from([5, 50, 200]), 'other_offset_ms': st.sampled_from(RESUME_OFFSETS_MS),
            'iters': st.integers(0, 3), 'listener_ms': st.sampled_from([0, 0.5, 2, 2, 5])})),
        'act': draw(st.none() | st.fixed_dictionaries({
            'kind': st.sampled_from(ACT_KINDS), 'who': st.integers(0, 2), 'after_call': st.integers(0, 2),
            'delay_ms': st.sampled_from(ACT_DELAYS_MS), 'iters': st.integers(0, 3),
            'resume_ms': st.sampled_from(ACT_RESUME_MS)})),
    }


def enumerated():
    for name in NAMES[:2]:
        for n in (2, 3):
            for off in (0, 0.1, 1, 40):
                for ed in (0.0, 0.002):
                    yield {'t': 'conc', 'name': name, 'n': n, 'download_at': [0] * n, 'start_at': [0, off, off][:n],
                           'sizes': [9000] * n, 'exec_delay': ed, 'pre': 'none', 'limited': False, 'same_dir': True}
    # download 0 fails before its first byte, an equally named download from another user starts in between,
    # download 0 is retried while that one is still active (bandwidth limit keeps it active)
    for ff in ('reset0', 'eof0'):
        for second_at in (40, 80, 100):
            for retry in (150, 300):
                yield {'t': 'conc', 'name': NAMES[0], 'n': 2, 'download_at': [0, second_at], 'start_at': [0, 0],
                       'sizes': [5000, 20000], 'exec_delay': 0.0, 'pre': 'none', 'limited': True, 'same_dir': True,
                       'first_fault': ff, 'retry_ms': retry}
    # the user changes the download directory between two downloads (absolute / relative setting): the first path
    # has been chosen in the old directory, the second download starts well after the change
    for name in NAMES[:2]:
        for rel0, switch_rel in ((False, False), (False, True), (True, False), (True, True)):
            for n, dl_at, sw in ((2, [0, 100], 50), (2, [0, 70], 40), (3, [0, 0, 100], 60)):
                yield {'t': 'conc', 'name': name, 'n': n, 'download_at': dl_at, 'start_at': [0] * n,
                       'sizes': [300] * n, 'exec_delay': 0.0, 'pre': 'none' if rel0 else 'file', 'limited': False,
                       'same_dir': True, 'switch_ms': sw, 'switch_rel': switch_rel, 'rel0': rel0}
    # a paused download whose partial file was deleted is queued again in the instant an equally named download of
    # another user is requested (the uploaders answer after equal delays, so both start up in the same instant)
    for n in (2, 3):
        for ed in (0.0, 0.002):
            for delete in (True, False):
                for off in (0, 0.5, 1, 3, -0.5):
                    for listener in (0, 2, 5):
                        yield {'t': 'conc', 'name': NAMES[0], 'n': n, 'download_at': [0, 0, 0][:n],
                               'start_at': [0, 0, 0][:n], 'sizes': [20000, 9000, 9000][:n], 'exec_delay': ed,
                               'pre': 'none', 'limited': True, 'same_dir': True,
                               'resume': {'pause_after_ms': 1, 'delete': delete, 'gap_ms': 50, 'other_offset_ms': off,
                                          'iters': n % 2, 'listener_ms': listener}}
    # keep-directory chains: an equally named download lives in the download root (still active under the bandwidth
    # limit, or finished, or a pre-existing file) when downloads arrive whose peer-named directory cannot be created
    # (named like that file / 300 characters long) or can (ordinary directory)
    for chain in ('dkn', 'kdn'):
        for others in (['as-file', 'as-file'], ['as-file', 'long'], ['long', 'music'], ['as-file', 'alias-only']):
            for limited in (True, False):
                for pre in ('none', 'file'):
                    for dl_at in ([0, 40, 60], [0, 100, 100]):
                        yield {'t': 'conc', 'name': NAMES[0], 'n': 3, 'download_at': dl_at, 'start_at': [0, 0, 0],
                               'sizes': [20000, 9000, 9000], 'exec_delay': 0.0, 'pre': pre, 'limited': limited,
                               'same_dir': True, 'chain': chain, 'rdirs': ['alias-only'] + others}
        # the download whose directory is named like the file comes first (the directory gets created)
        yield {'t': 'conc', 'name': NAMES[0], 'n': 3, 'download_at': [0, 40, 60], 'start_at': [0, 0, 0],
               'sizes': [9000, 9000, 9000], 'exec_delay': 0.0, 'pre': 'none', 'limited': True, 'same_dir': True,
               'chain': chain, 'rdirs': ['as-file', 'alias-only', 'as-file']}
    # three equally named downloads starting together on a slow disk; while one of them holds the path lock
    # (path chosen, placeholder not created yet) the holder or one of the waiting downloads is aborted / paused /
    # removed, optionally resumed later; a further download arrives (already waiting or 3 / 30 ms later)
    for ed in (0.002, 0.02):
        for kind in ACT_KINDS:
            for who in (0, 1, 2):
                for after_call, delay_ms in ((0, 0), (0, ed * 500), (1, ed * 500)):
                    for third in (0, 3, 30):
                        resume = None if kind == 'remove' else (100 if third == 0 else 30)
                        yield {'t': 'conc', 'name': NAMES[0], 'n': 3, 'download_at': [0, 0, 0], 'start_at': [0, 0, third],
                               'sizes': [9000, 9000, 9000], 'exec_delay': ed, 'pre': 'none', 'limited': third == 3,
                               'same_dir': True, 'act': {'kind': kind, 'who': who, 'after_call': after_call,
                                                         'delay_ms': delay_ms, 'iters': 0, 'resume_ms': resume}}
    # three downloads, two starting together and the third arriving while the second is still starting up
    # (slow executor: every file-system step takes 2 / 20 ms)
    for ed in (0.002, 0.02):
        for third in (1, 3, 5, 8, 12, 25, 40, 55, 70, 85, 100):
            yield {'t': 'conc', 'name': NAMES[0], 'n': 3, 'download_at': [0, 0, 0], 'start_at': [0, 0, third],
                   'sizes': [9000, 9000, 9000], 'exec_delay': ed, 'pre': 'none', 'limited': False, 'same_dir': True}


def _num(v, lo, hi, default):
    try:
        return max(lo, min(hi, float(v)))
    except Exception:
        return default


def run_conc_case(case, res: CaseResult):
    n = int(_num(case.get('n', 2), 2, 3, 2))
    name = case.get('name') if case.get('name') in NAMES else NAMES[0]
    dl_at = [(_num(x, 0, 100, 0)) / 1000.0 for x in (list(case.get('download_at') or []) + [0, 0, 0])[:n]]
    st_at = [(_num(x, 0, 100, 0)) / 1000.0 for x in (list(case.get('start_at') or []) + [0, 0, 0])[:n]]
    sizes = [int(_num(x, 1, 50000, 300)) for x in (list(case.get('sizes') or []) + [300, 300, 300])[:n]]
    exec_delay = _num(case.get('exec_delay', 0), 0, 0.05, 0.0)
    pre = case.get('pre') if case.get('pre') in ('none', 'file', 'file+1') else 'none'
    limited = bool(case.get('limited'))
    same_dir = bool(case.get('same_dir', True))
    chain = case.get('chain') if case.get('chain') in CHAINS else None
    rdirs = case.get('rdirs') if isinstance(case.get('rdirs'), list) else None
    if rdirs is not None:
        rdirs = [r if r in RDIRS else 'music' for r in (rdirs + ['music'] * 3)[:n]]
    first_fault = case.get('first_fault') if case.get('first_fault') in ('reset0', 'eof0') else 'none'
    retry_s = _num(case.get('retry_ms', 150), 20, 1000, 150) / 1000.0
    switch_s = None if case.get('switch_ms') is None else _num(case.get('switch_ms'), 0, 200, 50) / 1000.0
    switch_rel = bool(case.get('switch_rel'))
    rel0 = bool(case.get('rel0'))
    act = case.get('act') if isinstance(case.get('act'), dict) else None
    rs = case.get('resume') if isinstance(case.get('resume'), dict) and act is None and first_fault == 'none' else None
    if rs is not None:
        rs = {'pause_after': _num(rs.get('pause_after_ms', 0), 0, 100, 0) / 1000.0, 'delete': bool(rs.get('delete', True)),
              'gap': _num(rs.get('gap_ms', 50), 1, 1000, 50) / 1000.0,
              'off': _num(rs.get('other_offset_ms', 0), -20, 20, 0) / 1000.0,
              'iters': int(_num(rs.get('iters', 0), 0, 5, 0)),
              'listener': _num(rs.get('listener_ms', 0), 0, 20, 0) / 1000.0}
    if act is not None:
        act = {'kind': act.get('kind') if act.get('kind') in ACT_KINDS else 'abort',
               'who': int(_num(act.get('who', 0), 0, 2, 0)) % n,
               'after_call': int(_num(act.get('after_call', 0), 0, 3, 0)),
               'delay': _num(act.get('delay_ms', 0), 0, 50, 0) / 1000.0,
               'iters': int(_num(act.get('iters', 0), 0, 5, 0)),
               'resume': None if act.get('resume_ms') is None else _num(act.get('resume_ms'), 1, 1000, 100) / 1000.0}
    tmp = tempfile.mkdtemp(prefix='vfw-c09-', dir='/dev/shm' if os.path.isdir('/dev/shm') else None)
    out = {}
    try:
        parent = os.path.join(tmp, 'parent')
        dl = os.path.join(parent, 'dl')
        dl2 = os.path.join(parent, 'dl2')          # the directory configured after the switch
        os.makedirs(dl)
        os.makedirs(dl2)
        cwd = os.getcwd()                          # never changed
        chosen = []                                # (configured directory at the moment of the call, chosen path)
        stem, ext = os.path.splitext(name)
        if pre in ('file', 'file+1'):
            with open(os.path.join(dl, name), 'wb') as fh:
                fh.write(b'old')
        if pre == 'file+1':
            with open(os.path.join(dl, f'{stem} (1){ext}'), 'wb') as fh:
                fh.write(b'old1')
        before = set(os.listdir(parent))

        async def main(world):
            loop = world.loop
            s = simworld.mk_settings('me')
            s.shares.download = os.path.relpath(dl, cwd) if rel0 else dl
            ups = []
            for i in range(n):
                rdir = 'music' if same_dir else 'music%d' % i
                path = '@@abc\\%s\\%s' % (rdir, name)
                if rdirs is not None:
                    path = {'alias-only': '@@abcde\\%s' % name, 'music': path,
                            'as-file': 'stuff\\%s\\%s' % (name, name),
                            'long': '@@abc\\%s\\%s' % ('L' * 300, name)}[rdirs[i]]
                up = xfer.ScriptedUploader(world, 'user%d' % i, {path: xfer.content(100 + i, sizes[i])})
                up.start_delay = 0.01 + st_at[i]
                # distinct tickets per uploader: the library keys the expected file connection by the peer-chosen
                # ticket alone, so equal tickets of two peers cross-wire their file connections (observed; outside
                # the quantifier of C09, recorded in DESIGN.md §11)
                up.ticket_counter = 1000 * (i + 1)
                up.path = path
                ups.append(up)
            if first_fault != 'none':
                up0 = ups[0]

                def plan0(att, up0=up0):
                    if up0.attempts.index(att) != 0:
                        return {}
                    # like a real uploader: tell the downloader the upload broke, start again only after retry_s
                    up0.start_delay = retry_s
                    loop.call_later(0.02, up0.upload_failed, up0.path)
                    return {'fault': 'reset' if first_fault == 'reset0' else 'eof', 'k': 0}
                up0.plan = plan0
            client = await world.start_client(s)
            shares = client.shares
            if chain is not None:                  # documented way to configure the naming (USAGE.rst)
                from aioslsk import naming
                table = {'default': naming.DefaultNamingStrategy, 'keep': naming.KeepDirectoryStrategy,
                         'number': naming.NumberDuplicateStrategy}
                shares.naming_strategies = [table[c]() for c in CHAINS[chain]]
            # observation only: which directory is configured at the moment a local path is chosen
            real_calculate = shares.calculate_download_path

            async def user_action():
                for _ in range(act['iters']):
                    await asyncio.sleep(0)
                # `who` is a role, resolved at this instant (the arrival order of same-instant requests is not part of
                # the case): 0 = the download that holds the path lock (its path is the one chosen last), 1 / 2 = the
                # first / last download (by index) that is INITIALIZING without a path (waiting for the lock or for its
                # file connection); if nobody has that role: the download with that index
                live = [(i, t) for i, t in enumerate(transfers) if t is not None]
                last_path = chosen[-1][1] if chosen else None
                holders = [i for i, t in live if t.state.VALUE.name == 'INITIALIZING' and
                           (i == out.get('holder') or (out.get('holder') is None and t.local_path == last_path))]
                waiters = [i for i, t in live if t.state.VALUE.name == 'INITIALIZING' and t.local_path is None]
                if act['who'] == 0 and holders:
                    who = holders[0]
                elif act['who'] == 1 and waiters:
                    who = waiters[0]
                elif act['who'] == 2 and waiters:
                    who = waiters[-1]
                else:
                    who = act['who']
                out['who'] = who
                t = transfers[who]
                if t is None:                      # not requested yet
                    return
                out['act_on'] = (t.state.VALUE.name, t.local_path is not None)
                # the download has been given a path but the file that reserves it does not exist (yet)
                out['unreserved'] = t.local_path if t.local_path and not os.path.lexists(t.local_path) else None
                out['resume_pending'] = act['resume'] is not None and act['kind'] != 'remove'
                out['acting'] = True               # abort / pause / remove of `who` is in progress
                try:
                    await getattr(client.transfers, act['kind'])(t)
                    out['acted'] = True
                except Exception as exc:           # InvalidStateTransition is documented
                    out['act_refused'] = type(exc).__name__
                finally:
                    out['acting'] = False
                if out['resume_pending']:
                    await asyncio.sleep(act['resume'])
                    try:
                        await client.transfers.queue(t)
                        out['resumed'] = True
                    except Exception as exc:
                        out['resume_refused'] = type(exc).__name__
                    out['resume_pending'] = False

            def observed_calculate(remote_path):
                configured = os.path.abspath(s.shares.download)
                result = real_calculate(remote_path)
                try:
                    chosen.append((configured, os.path.join(*result)))
                    t0 = transfers[0]
                    if rs is not None and out.get('deleted') and t0 is not None and \
                            os.path.join(*result) == out['deleted'] and t0.local_path == out['deleted']:
                        # the deleted file's name is given away: was the resumed download already past its
                        # preparation (DOWNLOADING again)?  Then it owns the path and nobody else may get it
                        out['given_away'] = 'resumed-owner-downloading' if (
                            out.get('requeued_resume') and t0.state.VALUE.name == 'DOWNLOADING') else 'owner-not-started'
                except Exception:
                    pass
                try:    # observation only: which download is calculating (the caller's ``transfer`` argument)
                    caller = sys._getframe(1).f_locals.get('transfer')
                    out['holder'] = next((i for i, t in enumerate(transfers) if t is caller and t is not None), None)
                except Exception:
                    out['holder'] = None
                if act is not None and len(chosen) == act['after_call'] + 1 and 'act_task' not in out:
                    # a download holds the path lock now: schedule the user action relative to this instant
                    out['act_task'] = None
                    start = lambda: out.__setitem__('act_task', asyncio.ensure_future(user_action()))  # noqa: E731
                    if act['delay'] > 0:
                        loop.call_later(act['delay'], start)
                    else:
                        loop.call_soon(start)
                return result
            shares.calculate_download_path = observed_calculate

            async def switch():
                await asyncio.sleep(switch_s)
                s.shares.download = os.path.relpath(dl2, cwd) if switch_rel else dl2
                out['switched_at'] = loop.time()
            switch_task = asyncio.ensure_future(switch()) if switch_s is not None else None
            if limited:
                client.network.set_download_speed_limit(64)
            if exec_delay:
                loop.executor_delay = lambda: exec_delay
            transfers = [None] * n
            shared = []

            go_second = asyncio.Event()

            async def start(i):
                if rs is not None and i == 1:
                    await go_second.wait()         # requested in the instant download 0 is queued again
                elif dl_at[i]:
                    await asyncio.sleep(dl_at[i])
                transfers[i] = await client.transfers.download('user%d' % i, ups[i].path)
                if rs is not None and rs['listener']:
                    transfers[i].state_listeners.append(slow_listener)

            class SlowListener:                    # TransferStateListener protocol (aioslsk.transfer.state)
                async def on_transfer_state_changed(self, transfer, old, new):
                    if new.name == 'DOWNLOADING':
                        await asyncio.sleep(rs['listener'])
            slow_listener = SlowListener()

            async def resume_driver():
                out['resume_pending'] = True
                try:
                    while True:                    # until download 0 has its path, its file and is receiving
                        t = transfers[0]
                        if t is not None and t.state.VALUE.name == 'DOWNLOADING':
                            break
                        if t is not None and t.state.VALUE.name in ('COMPLETE', 'FAILED') or loop.time() > START + 5:
                            return
                        await asyncio.sleep(0.0005)
                    if rs['pause_after']:
                        await asyncio.sleep(rs['pause_after'])
                    out['who'], out['acting'] = 0, True
                    try:
                        await client.transfers.pause(t)
                        out['acted'] = out['paused_for_resume'] = True
                    except Exception as exc:
                        out['act_refused'] = type(exc).__name__
                        return
                    finally:
                        out['acting'] = False
                    if rs['delete'] and t.local_path and os.path.isfile(t.local_path):
                        os.remove(t.local_path)    # the user cleans up the partial file of the paused download
                        out['deleted'] = t.local_path
                    await asyncio.sleep(rs['gap'])
                    # both uploaders now wait for the harness: their uploads are started in one instant (or
                    # |other_offset_ms| apart), otherwise connection set-up times decide who arrives first
                    ups[0].auto_start = ups[1].auto_start = False
                    seen0 = len(ups[0].queue_requests)
                    go_second.set()
                    out['requeued_resume'] = True
                    await client.transfers.queue(t)
                    for _ in range(4000):
                        if len(ups[0].queue_requests) > seen0 and ups[1].queue_requests:
                            break
                        await asyncio.sleep(0.0005)
                    else:
                        return
                    await asyncio.sleep(0.002)
                    order = [0, 1] if rs['iters'] % 2 == 0 else [1, 0]
                    for i in order:
                        delay = max(0.0, rs['off'] if i == 1 else -rs['off'])
                        if delay:
                            loop.call_later(delay, ups[i].start_upload, ups[i].path)
                        else:
                            ups[i].start_upload(ups[i].path)
                    out['uploads_started_together'] = True
                finally:
                    go_second.set()
                    out['resume_pending'] = False
            START = loop.time()
            resume_task = asyncio.ensure_future(resume_driver()) if rs is not None and n >= 2 else None
            await asyncio.gather(*[start(i) for i in range(n)])
            deadline = loop.time() + 60
            while loop.time() < deadline:
                await asyncio.sleep(0.0005 if loop.time() < deadline - 58 else 0.05)
                # a download whose abort / pause / removal is in progress is not active any more: its task has been
                # cancelled, only the state change (file removal on the executor) is still pending
                active = [t for i, t in enumerate(transfers)
                          if t.state.VALUE.name in ('INITIALIZING', 'DOWNLOADING') and t.local_path
                          and not (out.get('acting') and i == out.get('who'))]
                paths = [t.local_path for t in active]
                if len(set(paths)) < len(paths):
                    shared.append((round(loop.time(), 4), sorted(paths)))
                # an active download writing to the file of a download that is not active (finished, failed, paused)
                for t in active:
                    for j, o in enumerate(transfers):
                        if o is not t and o not in active and o.local_path == t.local_path and \
                                not (out.get('acting') and j == out.get('who')) and 'shared_inactive' not in out:
                            out['shared_inactive'] = (round(loop.time(), 4), t.local_path, o.state.VALUE.name)
                t0_ = transfers[0]
                if first_fault == 'eof0' and t0_.state.VALUE.name == 'FAILED' and t0_.fail_reason is not None \
                        and not out.get('requeued'):
                    out['requeued'] = True
                    try:
                        await client.transfers.queue(t0_)     # documented user action for FAILED with a reason
                    except Exception:
                        pass
                settled = ('COMPLETE', 'FAILED') if not out.get('acted') else ('COMPLETE', 'FAILED', 'ABORTED', 'PAUSED')
                if all(t.state.VALUE.name in settled for t in transfers) and not out.get('resume_pending') and \
                        (first_fault == 'none' or len(ups[0].attempts) >= 2 or loop.time() > deadline - 50):
                    break
            # a download that is still starting / running although nothing works on it any more
            out['stuck'] = [(i, t.state.VALUE.name) for i, t in enumerate(transfers)
                            if t.state.VALUE.name in ('INITIALIZING', 'DOWNLOADING')
                            and (getattr(t, '_transfer_task', None) is None or t._transfer_task.done())]
            if out.get('act_task') is not None:
                out['act_task'].cancel()
            if resume_task is not None:
                resume_task.cancel()
            out['shared'] = shared[:3]
            out['final'] = [(t.state.VALUE.name, t.local_path) for t in transfers]
            out['files'] = []
            for i, t in enumerate(transfers):
                data = None
                if t.local_path and os.path.exists(t.local_path):
                    with open(t.local_path, 'rb') as fh:
                        data = fh.read()
                out['files'].append(data == xfer.content(100 + i, sizes[i]) if data is not None else None)
            loop.executor_delay = None
            if switch_task is not None:
                switch_task.cancel()
            await client.stop()

        _, loop_errors = simworld.run_world(main)
        after = set(os.listdir(parent))
        if after != before:
            res.violate('C09/file-created-outside-download-directory', str(sorted(after - before)))
        final = out.get('final', [])
        # root cause tag: the shared path is one that a paused download kept although its file was never created
        unreserved = out.get('unreserved') if (act is not None and act['kind'] == 'pause') else None

        # the harness deleted the partial file of the paused download and its name was given to another download
        # BEFORE the resumed download had prepared its path again: consequence of the outside deletion, not judged
        excused = out.get('deleted') if out.get('given_away') == 'owner-not-started' else None
        if excused:
            res.label('conc:deleted-file-name-taken-before-owner-resumed')

        def kind_for(kind, paths):
            if excused in paths:
                return None
            if unreserved in paths:
                return 'C09/unreserved-path-kept-after-pause:' + kind.split('/', 1)[1]
            return kind

        def violate_unless_excused(kind, detail):
            if kind is not None:
                res.violate(kind, detail)
        if out.get('shared'):
            violate_unless_excused(kind_for('C09/concurrent-downloads-share-local-path', out['shared'][0][1]),
                        f'{out["shared"][0]} final={final} action={act}')
        if out.get('shared_inactive') and not out.get('shared'):
            violate_unless_excused(kind_for('C09/active-download-shares-local-path-of-inactive-download',
                                 [out['shared_inactive'][1]]), f'{out["shared_inactive"]} final={final} action={act}')
        if out.get('stuck'):
            res.violate('C09/download-stuck-without-task', f'{out["stuck"]} final={final} action={act}')
        complete_paths = [p for s_, p in final if s_ == 'COMPLETE']
        if len(set(complete_paths)) < len(complete_paths) and not out.get('shared'):
            dup = [p for p in complete_paths if complete_paths.count(p) > 1]
            violate_unless_excused(kind_for('C09/completed-downloads-share-local-path', dup), f'{final} action={act}')
        configured_for = {}
        for configured, p in chosen:
            configured_for[p] = configured         # the last calculation that produced p
        seen_dirs = []

        def dir_ok(path, directory):
            # shipped configuration: directly in the download directory; keep-directory chains: strictly inside it
            d, r = os.path.realpath(os.path.dirname(path)), os.path.realpath(directory)
            return d == r or (chain is not None and d.startswith(r + os.sep))
        for configured, p in chosen:
            # judged at the moment the path is chosen, against the directory configured at that moment
            if not dir_ok(p, configured):
                if any(dir_ok(p, d) for d in seen_dirs if d != configured):
                    res.violate('C09/previously-configured-download-directory-used:transfer',
                                f'path {p!r} chosen while {configured!r} was configured '
                                f'(setting changed at {out.get("switched_at")}); final={final}')
                else:
                    res.violate('C09/local-path-not-directly-in-download-directory', f'{p} (configured {configured})')
            if configured not in seen_dirs:
                seen_dirs.append(configured)
        for i, (s_, p) in enumerate(final):
            if p and p not in configured_for and not (dir_ok(p, dl) or (switch_s is not None and dir_ok(p, dl2))):
                res.violate('C09/local-path-not-directly-in-download-directory', str(p))
            if s_ == 'COMPLETE' and out['files'][i] is False and not out.get('shared'):
                violate_unless_excused(kind_for('C09/complete-file-differs-from-source:concurrent', [p]),
                            f'{final} action={act}')
            if p and pre != 'none' and os.path.basename(p) == name and \
                    os.path.realpath(os.path.dirname(p)) == os.path.realpath(dl):
                res.violate('C09/existing-file-chosen:concurrent', str(final))
        if pre != 'none':
            with open(os.path.join(dl, name), 'rb') as fh:
                if fh.read() != b'old':
                    res.violate('C09/pre-existing-file-clobbered', name)
        for e in loop_errors:
            res.violate(f'C09/loop-error:{e["exc_type"]}', str(e)[:300])
            break
        same_instant = len(set(round(a + b, 6) for a, b in zip(dl_at, st_at))) < n
        res.nontrivial = True
        res.key = ['conc', name, n, dl_at, st_at, sizes, exec_delay, pre, limited, same_dir, first_fault, retry_s,
                   switch_s, switch_rel, rel0, act, chain, rdirs]
        if rs is not None:
            res.label('conc:resume-scenario')
            for key in ('paused_for_resume', 'deleted', 'requeued_resume', 'uploads_started_together', 'act_refused'):
                if out.get(key):
                    res.label('conc:resume:' + key)
            if out.get('given_away'):
                res.label('conc:resume:name-given-away:' + out['given_away'])
        if chain is not None:
            res.label('conc:chain:' + chain)
        for r in sorted(set(rdirs or [])):
            res.label('conc:rdir:' + r)
        if chain is not None and rdirs and any(r in ('as-file', 'long') for r in rdirs):
            res.label('conc:keep-directory-with-uncreatable-directory')
            if any(s_ == 'FAILED' and p is None for s_, p in final):
                res.label('conc:download-failed-without-local-path')
        if act is not None and 'act_on' in out:
            state, has_path = out['act_on']
            res.label('conc:action:' + act['kind'], 'conc:action-on:%s:%s' % (state, 'path-chosen' if has_path else 'no-path'))
            if out.get('act_refused'):
                res.label('conc:action-refused')
            if out.get('resumed'):
                res.label('conc:action-then-queued-again')
        if switch_s is not None:
            res.label('conc:download-setting-switched')
            dirs_used = sorted({os.path.realpath(c) for c, _ in chosen})
            if len(dirs_used) > 1:
                res.label('conc:paths-chosen-before-and-after-switch')
        if rel0 or (switch_rel and switch_s is not None):
            res.label('conc:relative-setting')
        if first_fault != 'none':
            res.label('conc:first-attempt-fails-before-first-byte')
        res.label('conc', 'conc:n=%d' % n, 'conc:pre=' + pre)
        if same_instant:
            res.label('conc:same-instant-start')
        if exec_delay:
            res.label('conc:executor-delay')
    finally:
        shutil.rmtree(tmp, ignore_errors=True)


def shard_conc(ctx):
    ctx.enumerate(enumerated())
    ctx.explore(conc_case(), 40 if ctx.tier == 'quick' else 1500, salt=7)
