"""C16 — session life cycle: login advertises settings, loss resets, stop is final (DESIGN §3 C16)."""
from __future__ import annotations

import asyncio
import collections
import os
import shutil
import tempfile

from hypothesis import strategies as st

from vfw import simnet, simworld, xfer
from vfw.runner import CaseResult

PROPERTY = 'C16'
LEVEL = 'fault_enumeration'
RULE = (
    "Case = configuration (clear / obfuscated listening port each on | unconfigured | bind fails, 0..3 friends, 0..2 "
    "liked and hated interests, 0..2 favourite rooms, rooms.auto_join, rooms.private_room_invites, "
    "network.server.reconnect.auto + timeout 1..3 s, 0..2 shared directories with 1..3 directories of 1..3 files "
    "scanned before login, peer connect mode race | fallback) x how these values reach the client (given at "
    "construction | client built with different values and rooms / users / interests changed in place | ... replaced "
    "as whole sub-models, before the first login; optionally a second change in place / by replacement between a "
    "loss and the next login) x login reply (accept | reject | garbled | eof | silent) "
    "x fault position P1 (before login; login reply pending; after the client wrote k of its post-login frames, k "
    "enumerated; idle; download connecting / stalled; search with timeout pending; connects to 1..4 slow / hanging "
    "potential parents pending, PotentialParents sent once or twice; a scripted peer established as distributed parent at level 0 / level 2 whose connection survives the "
    "server loss) x optional manual re-login (Network.connect_server + login() by the application when no automatic "
    "reconnect applies) x fault (none | requested = Network.disconnect_server | server EOF | server reset | write blocked -> "
    "TIMEOUT | write error | stop()) x who performs the write that meets a blocked / failing transport (user command | "
    "periodic server ping | periodic wishlist job after WishlistInterval(2) with one wishlist item | queued message) x "
    "server outage (the first k = 0..3 reconnect attempts are refused | hang until the connect timeout | are reset "
    "right after the accept, later ones succeed) x stop position P2 (dt after the loss was detected incl. 0 = from a listener of "
    "the CLOSED event, inside the watchdog wait, around the reconnect; when the reconnect starts connecting; after k "
    "frames of the automatic re-login; at the end). A real SoulSeekClient runs against the simulated server on the "
    "virtual loop; the fault positions are enumerated, the settings are enumerated one feature at a time and generated "
    "by Hypothesis. Oracle: (1) the multiset of frames the server received after Login.Request and before the first "
    "server-initiated message equals the one computed from what client.settings says at login time (sub-multiset when "
    "the burst was cut), also for the automatic and the manual re-login (within 25 s), where the branch position is "
    "the one implied by the connected parent (level + 1, its root, parent search off) or level 0 / own name / search "
    "on without one; (2) execute() raises InvalidSessionError before login, after a failed "
    "login, after a detected loss and after stop(), and works with a session; (3) every SessionInitializedEvent is "
    "followed by exactly one SessionDestroyedEvent for that session; 0.1 s after a loss and after stop() no known user "
    "carries server-derived data, no room is known, neither the own user nor a friend is considered tracked, the five "
    "server-sent distributed parameters are None, and no library task waits for itself; (4) a new connect and Login "
    "follow within reconnect.timeout + 1 s iff reconnect.auto and the loss was a reset / write error / timeout, and "
    "after k failed attempts the connection and the Login follow within (k+1) x (reconnect.timeout + 1 s + attempt "
    "duration) + 1 s of the loss; a loss the client noticed (CLOSING) is completed (CLOSED) within 8 s and every "
    "listener of the CLOSED event is reached; (5) "
    "after stop() returned and 1000 virtual seconds: no connect was started and no connection got established after "
    "the return, every client-side socket and listening port is closed, the server received nothing, no task other "
    "than the driver's is pending, and already 1 s after the return no task other than search request timers. "
    "Non-trivial = non-default configuration, a login that does not succeed, or a "
    "fault/stop at a non-idle point; distinct = distinct sanitised case."
)
ASSUMPTIONS = [
    "run-time settings changes cover the sections the login burst reads at login time (rooms, users.friends, interests); "
    "listening ports (bound by the Network constructor), reconnect settings (read when the connection is made) and "
    "shares (counts come from the scan) are given at construction",
    "the parented point keeps the outage shorter than the 60 s peer read timeout (writers command / queued, no hanging "
    "reconnect attempts); a parent connection that ended before the re-login leaves the branch position open",
    "in-memory TCP: ordered, lossless, latency 1 ms; the post-login burst takes zero virtual time, so mid-burst "
    "faults are delivered at the loop iteration in which the client writes its k-th frame (a real network can "
    "deliver a reset / EOF at any such point)",
    "the horizon for 'never' / 'nothing pending' is 1000 virtual seconds after stop() returned; the search request "
    "timeout is 20 s and therefore expires inside the horizon",
    "weak readings where the property states no deadline or detail: the re-login advertisement may take 25 s "
    "(tracking retries), user objects re-created from the settings after a loss are tolerated as long as they carry "
    "no server-derived data, 'tracking cleared' means nobody is considered TRACKED (desired flags may survive)",
    "a server EOF that coincides with client writes (before / during the burst, or a login answered by EOF) may "
    "legitimately be perceived as a write error: both reconnect outcomes are accepted there; EOF while idle must not "
    "reconnect",
    "the read timeout of the server connection is not reachable by silence (every ping shifts the deadline); the "
    "TIMEOUT close reason is produced by a blocked write (10 s send timeout)",
    "stop() may be called from another task while login() is in flight and from a listener of the CLOSED event "
    "(property: 'stop() issued at every such point')",
    "AddUser for the own user and for users with unfinished transfers are tolerated extras of the post-login burst; "
    "a failed bind is advertised as port 0 (Network.get_listening_ports contract)",
]
BUDGET_S = {'quick': 150, 'thorough': 1500}

ME = 'me'
FRIENDS = ['f0', 'f1', 'f2']
LIKED = ['jazz', 'dub']
HATED = ['pop', 'ska']
ROOMS = ['r0', 'r1']
PORT_MODES = ['on', 'off', 'fail']
LOGINS = ['accept', 'reject', 'garbled', 'eof', 'silent']
POINTS = ['prelogin', 'pending', 'burst', 'idle', 'transfer', 'search', 'parent', 'parented']
# 'parented': a scripted peer became the distributed parent (announcing branch level 0, or level 2 + a root) before the
# fault; its peer connection survives a loss of the server connection
VARIANTS = {'transfer': ['connecting', 'stalled'], 'parent': ['slow', 'hang'], 'parented': ['level0', 'level2']}
PARENT_NAME, PARENT_ROOT = 'par', 'rootuser'
# how the configuration of the case reaches the client: given at construction | the client is constructed with different
# values and the sections the login reads are changed in place | ... are replaced as whole sub-models
APPLY = ['ctor', 'inplace', 'replace']
SECTION_KEYS = ('friends', 'liked', 'hated', 'favs', 'auto_join', 'invites')
FAULTS = ['none', 'requested', 'eof', 'reset', 'timeout', 'write_error', 'stop']
LOSS_FAULTS = ('requested', 'eof', 'reset', 'timeout', 'write_error')
RECONNECT_FAULTS = ('reset', 'timeout', 'write_error')
P2_WHEN = ['end', 'loss', 'reconnecting', 'relogin']
TIMED_POINTS = ('idle', 'transfer', 'search', 'parent', 'parented')
# who performs the write that meets the blocked / failing transport: a user command, the periodic server ping, the
# periodic wishlist job (WishlistInterval sent by the server, one wishlist item configured), a queued message
WRITERS = ['command', 'ping', 'wishlist', 'queued']
OUTAGE_MODES = ['refuse', 'hang', 'reset']      # server behaviour during the first k reconnect attempts
PING_INTERVAL = 300.0                           # aioslsk.constants.SERVER_PING_INTERVAL
WISHLIST_INTERVAL = 2
CONNECT_TIMEOUT = 30.0                          # aioslsk.constants.SERVER_CONNECT_TIMEOUT
CLEAR_PORT, OBF_PORT = 60000, 60001
HORIZON = 1000.0
SETTLE = 1.0          # cancelled tasks must be gone this long after stop() returned
RELOGIN_WINDOW = 25.0

DEFAULT_CFG = {'clear': 'on', 'obf': 'on', 'friends': [], 'liked': [], 'hated': [], 'favs': [], 'auto_join': True,
               'invites': True, 'reconnect': False, 'rtimeout': 2, 'dirs': [], 'mode': 'race'}


# ---------------------------------------------------------------------------
# case documents

def _subset(value, pool, maxn):
    out = []
    for x in (value if isinstance(value, list) else []):
        if isinstance(x, str) and x in pool and x not in out:
            out.append(x)
    return sorted(out)[:maxn]


def _clamp_int(v, lo, hi, default):
    try:
        if isinstance(v, bool):
            v = int(v)
        return max(lo, min(hi, int(v)))
    except Exception:
        return default


def _sanitise(case):
    c = case if isinstance(case, dict) else {}
    raw = c.get('cfg') if isinstance(c.get('cfg'), dict) else {}
    cfg = {}
    cfg['clear'] = raw.get('clear') if raw.get('clear') in PORT_MODES else 'on'
    cfg['obf'] = raw.get('obf') if raw.get('obf') in PORT_MODES else 'on'
    # at least one configured port must bind when any is configured to fail (otherwise start() raises by contract)
    if cfg['clear'] == 'fail' and cfg['obf'] != 'on':
        cfg['clear'] = 'on'
    if cfg['obf'] == 'fail' and cfg['clear'] != 'on':
        cfg['obf'] = 'on'
    cfg['friends'] = _subset(raw.get('friends'), FRIENDS, 3)
    cfg['liked'] = _subset(raw.get('liked'), LIKED, 2)
    cfg['hated'] = _subset(raw.get('hated'), HATED, 2)
    cfg['favs'] = _subset(raw.get('favs'), ROOMS, 2)
    cfg['auto_join'] = bool(raw.get('auto_join', True))
    cfg['invites'] = bool(raw.get('invites', True))
    cfg['reconnect'] = bool(raw.get('reconnect', False))
    cfg['rtimeout'] = _clamp_int(raw.get('rtimeout', 2), 1, 3, 2)
    dirs = []
    for d in (raw.get('dirs') if isinstance(raw.get('dirs'), list) else [])[:2]:
        counts = [_clamp_int(n, 1, 3, 1) for n in (d if isinstance(d, list) else [])[:3]]
        if counts:
            dirs.append(counts)
    cfg['dirs'] = dirs
    cfg['mode'] = raw.get('mode') if raw.get('mode') in ('race', 'fallback') else 'race'
    login = c.get('login') if c.get('login') in LOGINS else 'accept'
    p1 = c.get('p1') if isinstance(c.get('p1'), dict) else {}
    point = p1.get('point') if p1.get('point') in POINTS else 'idle'
    fault = c.get('fault') if c.get('fault') in FAULTS else 'none'
    if login != 'accept' and point not in ('prelogin', 'pending', 'idle'):
        point = 'idle'
    if login == 'silent' and point == 'idle':
        point = 'pending'
    var = p1.get('var')
    if point in VARIANTS:
        var = var if var in VARIANTS[point] else VARIANTS[point][0]
    else:
        var = None
    k = _clamp_int(p1.get('k', 1), 1, 40, 1) if point == 'burst' else 0
    p2 = c.get('p2') if isinstance(c.get('p2'), dict) else {}
    when = p2.get('when') if p2.get('when') in P2_WHEN else 'end'
    if fault in ('none', 'stop'):
        when = 'end'
    dt = 0.0
    k2 = 0
    if when == 'loss':
        dt = _clamp_int(p2.get('ms', 50), 0, 8000, 50) / 1000.0
    if when == 'relogin':
        k2 = _clamp_int(p2.get('k', 0), 0, 40, 0)
    writer = p1.get('writer') if p1.get('writer') in WRITERS else 'command'
    if fault not in ('timeout', 'write_error') or point not in TIMED_POINTS:
        writer = 'command'
    outage = c.get('outage') if isinstance(c.get('outage'), dict) else {}
    ok = _clamp_int(outage.get('k', 0), 0, 3, 0)
    omode = outage.get('mode') if outage.get('mode') in OUTAGE_MODES else 'refuse'
    if not (cfg['reconnect'] and fault in RECONNECT_FAULTS and login == 'accept' and point in TIMED_POINTS):
        ok = 0
    if ok == 0:
        omode = None
    # number of peers in the PotentialParents list (all slow / hanging) and whether the server sends the list twice
    npp = _clamp_int(p1.get('npp', 1), 1, 4, 1) if point == 'parent' else 0
    twice = bool(p1.get('twice')) if point == 'parent' else False
    if point == 'parented':
        # the parent connection must outlive the outage (peer read timeout 60 s): short detection, short attempts
        if writer in ('ping', 'wishlist'):
            writer = 'command'
        if omode == 'hang':
            omode = 'refuse'
    apply = c.get('apply') if c.get('apply') in APPLY else 'ctor'
    # settings changed between the loss and the automatic re-login
    change, apply2 = None, None
    raw2 = c.get('change') if isinstance(c.get('change'), dict) else None
    auto_relogin = cfg['reconnect'] and fault in RECONNECT_FAULTS
    # without an automatic reconnect the application may reconnect and log in again itself
    manual = bool(c.get('manual')) and login == 'accept' and fault in LOSS_FAULTS and not auto_relogin
    if manual:
        # the manual re-login is made by the driver itself: stop() comes after it
        when, dt, k2 = 'end', 0.0, 0
    if raw2 is not None and (auto_relogin or manual) and login == 'accept':
        vals = raw2.get('cfg') if isinstance(raw2.get('cfg'), dict) else {}
        change = {}
        for key, pool, n in (('friends', FRIENDS, 3), ('liked', LIKED, 2), ('hated', HATED, 2), ('favs', ROOMS, 2)):
            if key in vals:
                change[key] = _subset(vals.get(key), pool, n)
        for key in ('auto_join', 'invites'):
            if key in vals:
                change[key] = bool(vals.get(key))
        apply2 = raw2.get('how') if raw2.get('how') in APPLY[1:] else 'inplace'
        if not change:
            change, apply2 = None, None
    return {'cfg': cfg, 'login': login, 'point': point, 'var': var, 'k': k, 'fault': fault,
            'when': when, 'dt': dt, 'k2': k2, 'writer': writer, 'ok': ok, 'omode': omode,
            'apply': apply, 'change': change, 'apply2': apply2, 'manual': manual, 'npp': npp, 'twice': twice}


def _doc(cfg, login='accept', point='idle', fault='none', k=1, var=None, when='end', ms=50, k2=0, writer=None,
         outage=None, apply=None, change=None, manual=False, npp=1, twice=False):
    p1 = {'point': point}
    if point == 'parent' and npp > 1:
        p1['npp'] = npp
    if point == 'parent' and twice:
        p1['twice'] = True
    if writer and writer != 'command':
        p1['writer'] = writer
    if point == 'burst':
        p1['k'] = k
    if var:
        p1['var'] = var
    p2 = {'when': when}
    if when == 'loss':
        p2['ms'] = ms
    if when == 'relogin':
        p2['k'] = k2
    doc = {'cfg': dict(cfg), 'login': login, 'p1': p1, 'fault': fault, 'p2': p2}
    if outage and outage[0] > 0:
        doc['outage'] = {'k': outage[0], 'mode': outage[1]}
    if apply and apply != 'ctor':
        doc['apply'] = apply
    if change:
        doc['change'] = {'how': change[0], 'cfg': dict(change[1])}
    if manual:
        doc['manual'] = True
    return doc


@st.composite
def cfg_strategy(draw, favs=True):
    clear = draw(st.sampled_from(['on', 'on', 'on', 'off', 'fail']))
    obf = draw(st.sampled_from(['on', 'on', 'off', 'fail']))
    return {
        'clear': clear, 'obf': obf,
        'friends': draw(st.lists(st.sampled_from(FRIENDS), unique=True, max_size=3)),
        'liked': draw(st.lists(st.sampled_from(LIKED), unique=True, max_size=2)),
        'hated': draw(st.lists(st.sampled_from(HATED), unique=True, max_size=2)),
        'favs': draw(st.lists(st.sampled_from(ROOMS), unique=True, max_size=2)) if favs else [],
        'auto_join': draw(st.booleans()), 'invites': draw(st.booleans()),
        'reconnect': draw(st.booleans()), 'rtimeout': draw(st.sampled_from([1, 2, 3])),
        'dirs': draw(st.lists(st.lists(st.integers(1, 3), min_size=1, max_size=3), max_size=2)),
        'mode': draw(st.sampled_from(['race', 'race', 'fallback'])),
    }


@st.composite
def case_strategy(draw, favs=True):
    cfg = draw(cfg_strategy(favs=favs))
    scenario = draw(st.sampled_from(['loss', 'loss', 'loss', 'loss', 'loss', 'stop', 'stop', 'login', 'config', 'config']))
    any_point = st.sampled_from(['idle', 'burst', 'burst', 'burst', 'pending', 'prelogin', 'transfer', 'search', 'parent',
                                 'parented', 'parented'])
    apply = draw(st.sampled_from(APPLY))
    k = draw(st.integers(1, 20))
    if scenario == 'config':       # settings x plain life cycle (with or without pending work)
        point = draw(st.sampled_from(['idle', 'idle', 'idle', 'search', 'transfer', 'parent']))
        var = draw(st.sampled_from(VARIANTS[point])) if point in VARIANTS else None
        return _doc(cfg, 'accept', point, 'none', var=var, apply=apply, npp=draw(st.integers(1, 4)),
                    twice=draw(st.booleans()))
    if scenario == 'login':        # logins that do not succeed
        login = draw(st.sampled_from(['reject', 'garbled', 'eof', 'silent']))
        return _doc(cfg, login, draw(st.sampled_from(['idle', 'prelogin', 'pending'])),
                    draw(st.sampled_from(['none', 'stop', 'reset', 'eof', 'requested', 'write_error'])),
                    when=draw(st.sampled_from(['end', 'loss'])), ms=draw(st.sampled_from([0, 50, 700])))
    point = draw(any_point)
    var = draw(st.sampled_from(VARIANTS[point])) if point in VARIANTS else None
    npp, twice = draw(st.integers(1, 4)), draw(st.booleans())
    if scenario == 'stop':         # stop() at every point
        return _doc(cfg, 'accept', point, 'stop', k=k, var=var, apply=apply, npp=npp, twice=twice)
    cfg['reconnect'] = draw(st.sampled_from([True, True, True, False]))
    fault = draw(st.sampled_from(['reset', 'reset', 'timeout', 'write_error', 'write_error', 'eof', 'requested']))
    when = draw(st.sampled_from(['end', 'end', 'loss', 'loss', 'reconnecting', 'relogin', 'relogin']))
    rt = cfg['rtimeout'] * 1000
    writer = draw(st.sampled_from(WRITERS))
    outage = (draw(st.sampled_from([0, 0, 1, 1, 2, 3])), draw(st.sampled_from(OUTAGE_MODES)))
    return _doc(cfg, 'accept', point, fault, k=k, var=var, when=when,
                ms=draw(st.sampled_from([0, 1, 50, 300, 700, rt - 100, rt + 100, rt + 400, rt + 600, rt + 900])),
                k2=draw(st.integers(0, 20)), writer=writer, outage=outage, apply=apply,
                change=draw(st.none() | st.tuples(st.sampled_from(APPLY[1:]), change_strategy())),
                manual=draw(st.booleans()), npp=npp, twice=twice)


@st.composite
def change_strategy(draw):
    """A non-empty set of new values for the sections the login reads (applied between the loss and the re-login)."""
    out = {}
    for key, pool, n in (('friends', FRIENDS, 3), ('liked', LIKED, 2), ('hated', HATED, 2), ('favs', ROOMS, 2)):
        if draw(st.booleans()):
            out[key] = draw(st.lists(st.sampled_from(pool), unique=True, max_size=n))
    for key in ('auto_join', 'invites'):
        if draw(st.booleans()):
            out[key] = draw(st.booleans())
    if not out:
        out['invites'] = draw(st.booleans())
    return out


# ---------------------------------------------------------------------------
# expected post-login frames

def _frame_key(msg):
    name = type(msg).__qualname__.split('.')[0]
    if name == 'SetListenPort':
        return name, (msg.port, msg.obfuscated_port or 0)
    if name == 'SetStatus':
        return name, (msg.status,)
    if name == 'CheckPrivileges':
        return name, ()
    if name == 'SharedFoldersFiles':
        return name, (msg.shared_folder_count, msg.shared_file_count)
    if name == 'AddUser':
        return name, (msg.username,)
    if name == 'AddInterest':
        return name, (msg.interest,)
    if name == 'AddHatedInterest':
        return name, (msg.hated_interest,)
    if name == 'TogglePrivateRoomInvites':
        return name, (bool(msg.enable),)
    if name == 'JoinRoom':
        return name, (msg.room,)
    if name == 'BranchLevel':
        return name, (msg.level,)
    if name == 'BranchRoot':
        return name, (msg.username,)
    if name == 'ToggleParentSearch':
        return name, (bool(msg.enable),)
    return name, (repr(msg),)


def _expected_frames(cfg, parent=None):
    """``parent`` = (level, root) announced by the connected distributed parent, None without one."""
    exp = collections.Counter()
    exp[('SetListenPort', (CLEAR_PORT if cfg['clear'] == 'on' else 0, OBF_PORT if cfg['obf'] == 'on' else 0))] += 1
    exp[('SetStatus', (2,))] += 1
    exp[('CheckPrivileges', ())] += 1
    folders = sum(len(d) for d in cfg['dirs'])
    files = sum(sum(d) for d in cfg['dirs'])
    exp[('SharedFoldersFiles', (folders, files))] += 1
    for f in cfg['friends']:
        exp[('AddUser', (f,))] += 1
    for i in cfg['liked']:
        exp[('AddInterest', (i,))] += 1
    for i in cfg['hated']:
        exp[('AddHatedInterest', (i,))] += 1
    exp[('TogglePrivateRoomInvites', (cfg['invites'],))] += 1
    if cfg['auto_join']:
        for r in cfg['favs']:
            exp[('JoinRoom', (r,))] += 1
    if parent is None:
        exp[('BranchLevel', (0,))] += 1
        exp[('BranchRoot', (ME,))] += 1
        exp[('ToggleParentSearch', (True,))] += 1
    elif parent != 'unknown':
        exp[('BranchLevel', (parent[0] + 1,))] += 1
        exp[('BranchRoot', (parent[1],))] += 1
        exp[('ToggleParentSearch', (False,))] += 1
    return exp


def _n_burst(cfg):
    """Number of frames the client is expected to write after Login.Request (incl. the tolerated AddUser(self))."""
    return sum(_expected_frames(cfg).values()) + 1


def _compare_frames(got_msgs, cfg, complete, tolerated, tolerated_classes, tag, violate, parent=None):
    exp = _expected_frames(cfg, parent)
    got = collections.Counter(_frame_key(m) for m in got_msgs)
    for key in sorted(set(exp) | set(got), key=repr):
        name, vals = key
        e, g = exp.get(key, 0), got.get(key, 0)
        if g > e:
            if key in tolerated and g - e <= tolerated[key]:
                continue
            if name in tolerated_classes:
                continue
            violate(f'C16/post-login-extra:{name}',
                    f'{tag}: server received {g}x {name}{vals} after Login, settings imply {e}x')
        elif g < e and complete:
            violate(f'C16/post-login-missing:{name}',
                    f'{tag}: server received {g}x {name}{vals} after Login, settings imply {e}x')


# ---------------------------------------------------------------------------

def _build_settings(cfg, tmp):
    from aioslsk.network.network import ListeningConnectionErrorMode, PeerConnectMode
    from aioslsk.settings import ReconnectSettings
    s = simworld.mk_settings(ME, port=CLEAR_PORT if cfg['clear'] != 'off' else 0,
                             obfuscated_port=OBF_PORT if cfg['obf'] != 'off' else 0)
    failing = 'fail' in (cfg['clear'], cfg['obf'])
    s.network.listening.error_mode = ListeningConnectionErrorMode.ALL if failing else ListeningConnectionErrorMode.ANY
    s.network.server.reconnect = ReconnectSettings(auto=cfg['reconnect'], timeout=cfg['rtimeout'])
    s.network.peer.connect_mode = PeerConnectMode.RACE if cfg['mode'] == 'race' else PeerConnectMode.FALLBACK
    s.users.friends = set(cfg['friends'])
    s.interests.liked = set(cfg['liked'])
    s.interests.hated = set(cfg['hated'])
    s.rooms.favorites = set(cfg['favs'])
    s.rooms.auto_join = cfg['auto_join']
    s.rooms.private_room_invites = cfg['invites']
    s.shares.download = os.path.join(tmp, 'dl')
    os.makedirs(s.shares.download, exist_ok=True)
    for di, counts in enumerate(cfg['dirs']):
        root = os.path.join(tmp, 'share%d' % di)
        for si, n in enumerate(counts):
            d = root if si == 0 else os.path.join(root, 'sub%d' % si)
            os.makedirs(d, exist_ok=True)
            for fi in range(n):
                with open(os.path.join(d, 'd%ds%df%d.bin' % (di, si, fi)), 'wb') as fh:
                    fh.write(b'x' * (10 + fi))
        xfer.share_dir_settings(s, root)
    return s


def _decoy(cfg):
    """Values that differ from the case's configuration in every section the login reads."""
    return {'friends': [f for f in FRIENDS if f not in cfg['friends']][:2],
            'liked': [i for i in LIKED if i not in cfg['liked']],
            'hated': [i for i in HATED if i not in cfg['hated']],
            'favs': [r for r in ROOMS if r not in cfg['favs']],
            'auto_join': not cfg['auto_join'], 'invites': not cfg['invites']}


def _apply_sections(settings, vals, how):
    """Run-time change of the settings sections the login burst reads (rooms, users, interests)."""
    from aioslsk.settings import InterestsSettings, RoomsSettings, UsersSettings
    if how == 'replace':
        settings.rooms = RoomsSettings(auto_join=vals['auto_join'], private_room_invites=vals['invites'],
                                       favorites=set(vals['favs']))
        settings.users = UsersSettings(friends=set(vals['friends']), blocked=dict(settings.users.blocked))
        settings.interests = InterestsSettings(liked=set(vals['liked']), hated=set(vals['hated']))
    else:
        settings.rooms.auto_join = vals['auto_join']
        settings.rooms.private_room_invites = vals['invites']
        settings.rooms.favorites.clear()
        settings.rooms.favorites.update(vals['favs'])
        settings.users.friends = set(vals['friends'])
        settings.interests.liked.clear()
        settings.interests.liked.update(vals['liked'])
        settings.interests.hated = set(vals['hated'])


_TASK_PREFIXES = ('direct-connect', 'indirect-connect', 'queue-remotely', 'potential-parent', 'connect-to-peer',
                  'initialize-upload', 'search-reply', 'queue-message-task')


def _origin(task):
    """Stable name of the library task that issues a connect (counters and user names stripped)."""
    if task is None:
        return 'unknown'
    name = task.get_name()
    for p in _TASK_PREFIXES:
        if name.startswith(p):
            return p
    if name.startswith('Task-'):
        return getattr(task.get_coro(), '__qualname__', 'task')
    return name


def _task_label(task):
    coro = task.get_coro()
    name = getattr(coro, '__qualname__', None) or repr(coro)
    tname = task.get_name()
    if name in ('BackgroundTask.runner', 'Timer.runner') and not tname.startswith('Task-'):
        return tname
    return name


def _wait_cycles(loop):
    """Pending tasks that (through gather / awaited tasks) wait for themselves: [(task names, futures on the cycle)]."""
    out = []
    done_ids = set()
    for start in asyncio.all_tasks(loop):
        if start.done() or id(start) in done_ids:
            continue
        stack = [(start, (start,))]
        seen = set()
        found = None
        while stack and found is None:
            node, path = stack.pop()
            if isinstance(node, asyncio.Task):
                w = getattr(node, '_fut_waiter', None)
                nxt = [w] if w is not None else []
            else:
                nxt = list(getattr(node, '_children', None) or ())
            for n in nxt:
                if n is start:
                    found = path
                    break
                if id(n) in seen or n.done():
                    continue
                seen.add(id(n))
                stack.append((n, path + (n,)))
        if found:
            tasks = [n for n in found if isinstance(n, asyncio.Task)]
            for t in tasks:
                done_ids.add(id(t))
            names = sorted({getattr(t.get_coro(), '__qualname__', '?') for t in tasks})
            out.append((names, found))
    return out


def _break_wait_cycles(loop):
    """Teardown only: a cyclic wait makes Task.cancel() recurse without end; cancel the gather futures themselves."""
    try:
        for _, path in _wait_cycles(loop):
            inner = [n for n in path if not isinstance(n, asyncio.Task) and not n.done()]
            for n in inner or [path[0]]:
                asyncio.Future.cancel(n)
    except Exception:
        pass


def run_case(case) -> CaseResult:
    res = CaseResult()
    c = _sanitise(case)
    tmp = tempfile.mkdtemp(prefix='c16-')
    try:
        _run(c, tmp, res)
    finally:
        shutil.rmtree(tmp, ignore_errors=True)
    res.key = c
    return res


def _run(c, tmp, res):
    cfg, login_mode, point, var, fault = c['cfg'], c['login'], c['point'], c['var'], c['fault']
    seen = set()
    trace = []

    def violate(kind, detail=''):
        if kind in seen:
            return
        seen.add(kind)
        res.violate(kind, f'{detail} | case={c["login"]}/{point}{"/" + var if var else ""}'
                          f'{"/k=%d" % c["k"] if point == "burst" else ""}/{fault}/{c["when"]}'
                          f' reconnect={cfg["reconnect"]}')

    async def main(world: simworld.World):
        try:
            return await driver(world)
        finally:
            _break_wait_cycles(world.loop)

    async def driver(world: simworld.World):
        loop = world.loop
        M = simworld.M()
        import aioslsk.network.connection as conn_mod
        from aioslsk.commands import GetUserStatusCommand
        from aioslsk.events import ConnectionStateChangedEvent, SessionDestroyedEvent, SessionInitializedEvent
        from aioslsk.exceptions import InvalidSessionError
        from aioslsk.network.connection import ServerConnection
        from aioslsk.protocol.primitives import PotentialParent, UserStats
        from aioslsk.user.model import TrackingState

        own_tasks = []

        def own(task):
            own_tasks.append(task)
            return task

        async def guard(coro):
            try:
                return await coro
            except Exception as exc:   # outcome of user-level calls made by the driver is not judged here
                return exc

        # -- environment ---------------------------------------------------
        # apply != 'ctor': the client is built with values that differ in every section; the case's values are set later
        settings = _build_settings(cfg if c['apply'] == 'ctor' else dict(cfg, **_decoy(cfg)), tmp)
        now = {'cfg': cfg, 'parent': None}      # what the settings / the tree say at the moment
        if c['writer'] == 'wishlist':
            from aioslsk.settings import WishlistSettingEntry
            settings.searches.wishlist = [WishlistSettingEntry(query='wished item')]
        if cfg['clear'] == 'fail':
            world.net.bind_fail.add(CLEAR_PORT)
        if cfg['obf'] == 'fail':
            world.net.bind_fail.add(OBF_PORT)
        world.server.login_mode = login_mode
        attempts = []           # (time, host, port): every outgoing connect the client starts
        orig_open = conn_mod.asyncio.open_connection

        reconnects = []         # per connect to the server started after the fault: {'t', 'done', 'ok'}

        async def open_connection(host=None, port=None, **kw):
            attempts.append((loop.time(), host, port, _origin(asyncio.current_task())))
            rec = None
            if (host, port) == (simworld.SERVER_HOST, simworld.SERVER_PORT) and 't' in fault_info:
                rec = {'t': loop.time(), 'done': None, 'ok': False}
                reconnects.append(rec)
                # the server is unreachable for the first c['ok'] reconnect attempts
                world.server.listener.outcome = c['omode'] if len(reconnects) <= c['ok'] else 'accept'
            try:
                result = await orig_open(host, port, **kw)
                if rec is not None:
                    rec['ok'] = world.server.listener.outcome == 'accept'
                return result
            finally:
                if rec is not None:
                    rec['done'] = loop.time()
                    trace.append((round(loop.time(), 4), 'reconnect attempt', len(reconnects), 'ok' if rec['ok'] else 'failed'))
        conn_mod.asyncio.open_connection = open_connection

        fault_info = {}
        sess = []               # per server session: {'link', 'writes'}
        triggers = []           # {'key', 'fn', 'done'}

        def fire(key):
            for trig in triggers:
                if not trig['done'] and trig['key'] == key:
                    trig['done'] = True
                    trace.append((round(loop.time(), 4), 'trigger', key))
                    trig['fn']()

        def on_trigger(key, fn):
            triggers.append({'key': key, 'fn': fn, 'done': False})

        def tap(idx, sender, data):
            if sender != 0:
                return
            sess[idx]['writes'] += 1
            fire(('frames', idx, sess[idx]['writes'] - 1))

        orig_accept = world.server.listener.accept

        def on_accept(ep):
            orig_accept(ep)
            idx = len(world.server.sessions) - 1
            sess.append({'link': ep.link, 'writes': 0})
            ep.link.tap = lambda link, sender, data, idx=idx: tap(idx, sender, data)
        world.server.listener.accept = on_accept

        client = world.make_client(settings)
        inits, destroys, states = [], [], []
        n_state = collections.Counter()
        closed_ev = asyncio.Event()

        async def on_state(ev):
            if not isinstance(ev.connection, ServerConnection):
                return
            n_state[ev.state.name] += 1
            states.append((loop.time(), ev.state.name, ev.close_reason.name))
            trace.append((round(loop.time(), 4), 'server-conn', ev.state.name, ev.close_reason.name))
            if ev.state.name == 'CLOSED':
                closed_ev.set()
            fire(('state', ev.state.name, n_state[ev.state.name]))

        async def on_init(ev):
            inits.append((loop.time(), ev.session))
            trace.append((round(loop.time(), 4), 'session-initialized'))

        async def on_destroy(ev):
            destroys.append((loop.time(), ev.session))
            trace.append((round(loop.time(), 4), 'session-destroyed'))
        # first in every listener chain: a library listener that never returns must not hide the event
        client.events.register(ConnectionStateChangedEvent, on_state, priority=0)
        client.events.register(SessionInitializedEvent, on_init, priority=0)
        client.events.register(SessionDestroyedEvent, on_destroy, priority=0)
        # ... and last: a listener chain that is cut (exception / cancellation inside a library listener) shows as a
        # state change that the first listener saw and the last one did not
        last_seen = collections.Counter()

        async def on_state_last(ev):
            if isinstance(ev.connection, ServerConnection):
                last_seen[ev.state.name] += 1
        client.events.register(ConnectionStateChangedEvent, on_state_last, priority=10 ** 6)

        async def check_chain_cut(where):
            if flags['contaminated']:
                return True
            if last_seen['CLOSED'] < n_state['CLOSED']:
                await asyncio.sleep(0.01)       # a chain that is merely suspended gets time to finish
            if last_seen['CLOSED'] < n_state['CLOSED']:
                who = c['writer'] if (fault in ('timeout', 'write_error') and point in TIMED_POINTS) else point
                violate(f'C16/closed-listeners-cut:{who}',
                        f'{where}: the server connection reported CLOSED {n_state["CLOSED"]}x but only '
                        f'{last_seen["CLOSED"]}x reached the last listener: the listener chain was cut (the task that '
                        f'runs disconnect() is cancelled by the close handling); sessions initialised {len(inits)} / '
                        f'destroyed {len(destroys)}, client.session is {"set" if client.session else "None"}')
                flags['contaminated'] = 'closed-listeners-cut'
                return True
            return False

        flags = {'contaminated': None}

        def check_deadlock(where):
            """A library task that waits for itself: everything observed afterwards is a consequence."""
            if flags['contaminated']:
                return True
            cycles = _wait_cycles(loop)
            if cycles:
                names = cycles[0][0]
                violate('C16/deadlock:' + '+'.join(names),
                        f'{where}: tasks {names} wait for each other (cyclic await); server connection state '
                        f'{client.network.server_connection.state.name}, sessions initialised {len(inits)} / destroyed '
                        f'{len(destroys)}')
                flags['contaminated'] = 'deadlock'
                return True
            return False

        stop_info = {}

        def stopping():
            return 'task' in stop_info

        def start_stop(where):
            if stopping():
                return

            async def do_stop():
                trace.append((round(loop.time(), 4), 'stop() called', where))
                try:
                    await client.stop()
                except Exception as exc:
                    stop_info['exc'] = exc
                stop_info['t_ret'] = loop.time()
                trace.append((round(loop.time(), 4), 'stop() returned'))
                if not check_deadlock('when stop() returned') and not await check_chain_cut('when stop() returned'):
                    await probe_no_session('after-stop')
            stop_info['where'] = where
            stop_info['t_call'] = loop.time()
            stop_info['task'] = own(loop.create_task(do_stop()))

        def direct_eof(link):
            ep, tr = link.sides[1], link.sides[0]
            ep.closed = True
            link.closed[1] = True
            tr.deliver_eof()

        def inject(direct):
            fault_info['t'] = loop.time()
            fault_info['closed_before'] = n_state['CLOSED']
            fault_info['closing_before'] = n_state['CLOSING']
            trace.append((round(loop.time(), 4), 'inject', fault, 'direct' if direct else 'server-side'))
            if fault == 'stop':
                start_stop('p1:' + point)
                return
            if not sess:
                return
            link = sess[-1]['link']
            tr = link.sides[0]
            if fault == 'reset':
                if direct:
                    loop.call_soon(link.reset_now)
                else:
                    world.server.close_session(kind='reset')
            elif fault == 'eof':
                if direct:
                    loop.call_soon(direct_eof, link)
                else:
                    world.server.close_session(kind='eof')
            elif fault == 'requested':
                own(loop.create_task(guard(client.network.disconnect_server())))
            elif fault == 'timeout':
                tr.block_writes = True
            elif fault == 'write_error':
                tr.fail_writes = ConnectionResetError('sim: write failed')

        async def probe_no_session(where):
            try:
                await client.execute(GetUserStatusCommand('zz'))
            except InvalidSessionError:
                return
            except Exception as exc:
                violate(f'C16/unexpected-exception:{type(exc).__name__}@execute-without-session:{where}', repr(exc))
            else:
                violate(f'C16/execute-without-session:{where}',
                        f'execute() did not raise InvalidSessionError {where} (client.session={client.session!r})')

        def check_destroyed(where):
            for t, session in inits:
                n = sum(1 for _, s2 in destroys if s2 is session)
                if n == 0:
                    violate(f'C16/session-not-destroyed:{where}',
                            f'session initialised at {t:.3f} has no SessionDestroyedEvent {where}')
                elif n > 1:
                    violate('C16/session-destroyed-twice', f'session initialised at {t:.3f}: {n} SessionDestroyedEvents')
            for t, session in destroys:
                if not any(s2 is session for _, s2 in inits):
                    violate('C16/session-destroyed-unknown', f'SessionDestroyedEvent at {t:.3f} for a session that was '
                                                             f'never initialised')

        xfer_users = set()
        parent_peer = {}

        def parent_alive():
            """The distributed connection the client opened to the scripted parent is open on both sides."""
            par = parent_peer.get('peer')
            return par is not None and any(l.typ == 'D' and l.incoming_to_peer and not l.ep.dead and not l.ep.peer_closed
                                           for l in par.links)

        def check_cleared(where):
            # users: whoever is still known must carry no server-derived data (objects re-created from the settings
            # by a late session handler are tolerated); the own status is set locally by the library
            stale = []
            for name, user in sorted(client.users.users.items()):
                if name in xfer_users:
                    continue
                data = {'status': user.status.name if name != ME and user.status.name != 'UNKNOWN' else None,
                        'country': user.country, 'avg_speed': user.avg_speed, 'privileged': user.privileged or None}
                data = {k: v for k, v in data.items() if v is not None}
                if data:
                    stale.append((name, data))
            if stale:
                violate(f'C16/state-not-cleared:users:{where}', f'users with server-derived data {where}: {stale}')
            if client.rooms.rooms:
                violate(f'C16/state-not-cleared:rooms:{where}', f'rooms still known {where}: {sorted(client.rooms.rooms)}')
            tracked = [u for u in [ME] + cfg['friends']
                       if client.users.is_tracked(u) or client.users.get_tracking_state(u) == TrackingState.TRACKED]
            if tracked:
                violate(f'C16/state-not-cleared:tracking:{where}', f'users still considered tracked {where}: {tracked}')
            dn = client.distributed_network
            params = {n: getattr(dn, n) for n in ('parent_min_speed', 'parent_speed_ratio', 'min_parents_in_cache',
                                                  'parent_inactivity_timeout', 'distributed_alive_interval')}
            left = {n: v for n, v in params.items() if v is not None}
            if left:
                violate(f'C16/state-not-cleared:distributed:{where}', f'server-sent distributed parameters {where}: {left}')

        def session_frames(idx, t_end):
            msgs = [(t, m) for t, i, m in world.server.frames if i == idx]
            out = []
            after_login = False
            for t, m in msgs:
                if isinstance(m, M.Login.Request):
                    after_login = True
                    continue
                if after_login and t < t_end:
                    out.append(m)
            return out

        # -- P2 triggers -----------------------------------------------------
        if c['when'] == 'loss':
            def arm_loss_stop():
                loop.call_later(c['dt'], start_stop, 'loss+%g' % c['dt']) if c['dt'] > 0 else start_stop('loss+0')
            # armed when the fault is injected (the next CLOSED of the server connection)
        elif c['when'] == 'reconnecting':
            on_trigger(('state', 'CONNECTING', 2), lambda: start_stop('reconnecting'))
        elif c['when'] == 'relogin':
            # the session of the first reconnect attempt that is allowed to succeed
            on_trigger(('frames', 1 + (c['ok'] if c['omode'] == 'reset' else 0), c['k2']),
                       lambda: start_stop('relogin-k%d' % c['k2']))

        def arm_p2():
            if c['when'] == 'loss':
                on_trigger(('state', 'CLOSED', n_state['CLOSED'] + 1), arm_loss_stop)

        # -- start -------------------------------------------------------------
        try:
            await client.start()
        except Exception as exc:
            violate(f'C16/unexpected-exception:{type(exc).__name__}@start', repr(exc))
            return
        if cfg['dirs']:
            await client.shares.scan()
        if c['apply'] != 'ctor':
            _apply_sections(client.settings, cfg, c['apply'])
            res.label('settings:' + c['apply'])
        await probe_no_session('before-login')

        if point == 'prelogin' and fault != 'none':
            arm_p2()
            inject(direct=False)
            await asyncio.sleep(0.05)
        elif point in ('pending', 'burst') and fault != 'none':
            arm_p2()
            on_trigger(('frames', 0, c['k'] if point == 'burst' else 0), lambda: inject(direct=True))

        # -- login -------------------------------------------------------------
        login_out = {}
        login_started = not stopping()
        if not stopping():
            async def do_login():
                try:
                    await client.login()
                    login_out['ok'] = True
                except Exception as exc:
                    login_out['exc'] = exc
                login_out['t'] = loop.time()
                trace.append((round(loop.time(), 4), 'login() done', repr(login_out.get('exc'))))
            login_task = own(loop.create_task(do_login()))
            await asyncio.wait({login_task}, timeout=40.0)
            if login_mode != 'accept' and login_out.get('ok'):
                violate(f'C16/login-succeeded:{login_mode}', 'login() returned normally although the server did not '
                                                            'accept the login')
            undisturbed = fault == 'none' or point not in ('prelogin', 'pending', 'burst')
            if login_mode == 'accept' and undisturbed and not login_out.get('ok'):
                exc = login_out.get('exc')
                violate(f'C16/unexpected-exception:{type(exc).__name__}@login', repr(exc))
            if login_mode != 'accept' and login_task.done() and not closed_ev.is_set() and not stopping():
                await probe_no_session(f'after-failed-login:{login_mode}')
        fault_fired = 't' in fault_info
        if point in ('pending', 'burst') and fault != 'none' and not fault_fired:
            # k beyond the number of frames the client wrote: the fault never fired (case continues without fault)
            res.label('burst-k-beyond-end')
            for trig in triggers:
                if trig['key'][:2] == ('frames', 0):
                    trig['done'] = True
        burst_cut = fault_fired and point in ('prelogin', 'pending', 'burst')

        # -- idle phase: close the observation window, populate server-derived state ----------
        window_end = {}
        populated = False
        have_session = bool(login_out.get('ok')) and not closed_ev.is_set() and not stopping()
        if have_session and not fault_fired:
            await asyncio.sleep(0.3)
        if have_session and not fault_fired and not closed_ev.is_set() and not stopping():
            window_end[0] = loop.time()
            srv = world.server
            for m in (M.ParentMinSpeed.Response(1), M.ParentSpeedRatio.Response(50), M.MinParentsInCache.Response(10),
                      M.ParentInactivityTimeout.Response(300), M.DistributedAliveInterval.Response(60),
                      M.RoomList.Response(rooms=['r0', 'pub'], rooms_user_count=[1, 2], rooms_private_owned=[],
                                          rooms_private_owned_user_count=[], rooms_private=[],
                                          rooms_private_user_count=[], rooms_private_operated=[]),
                      M.UserJoinedRoom.Response('pub', 'u1', 2, UserStats(10, 1, 5, 2), 1, 'BE')):
                srv.send(m)
            if c['writer'] == 'wishlist':
                srv.send(M.WishlistInterval.Response(WISHLIST_INTERVAL))
            await asyncio.sleep(0.2)
            dn = client.distributed_network
            populated = bool(client.users.users) and bool(client.rooms.rooms) and dn.parent_min_speed is not None
            if populated:
                res.label('state-populated-before-fault')
            try:
                await client.execute(GetUserStatusCommand('u1'), response=True, timeout=2)
            except Exception as exc:
                violate(f'C16/unexpected-exception:{type(exc).__name__}@execute-with-session', repr(exc))
            # pending work
            if point == 'transfer':
                path = 'music\\song.bin'
                kw = {'direct': 'accept', 'direct_delay': 5.0, 'indirect': 'silent'} if var == 'connecting' else {}
                up = xfer.ScriptedUploader(world, 'bob', {path: xfer.content(7, 20000)}, **kw)
                up.plan = lambda att: {'fault': 'stall', 'k': 4000}
                xfer_users.add('bob')
                try:
                    await client.transfers.download('bob', path)
                except Exception as exc:
                    violate(f'C16/unexpected-exception:{type(exc).__name__}@download', repr(exc))
                await asyncio.sleep(1.0)
            elif point == 'search':
                settings.searches.send.request_timeout = 20
                try:
                    await client.searches.search('some query')
                except Exception as exc:
                    violate(f'C16/unexpected-exception:{type(exc).__name__}@search', repr(exc))
                await asyncio.sleep(0.2)
            elif point == 'parent':
                pps = [world.add_peer('pp' if i == 0 else 'pp%d' % i, direct='accept' if var == 'slow' else 'hang',
                                      direct_delay=2.0, indirect='silent') for i in range(c['npp'])]
                entries = [PotentialParent(pp.name, pp.ip, pp.port) for pp in pps]
                srv.send(M.PotentialParents.Response(entries))
                if c['twice']:
                    srv.send(M.PotentialParents.Response(entries), delay=0.02)
                await asyncio.sleep(0.1)
                res.label('potential-parents:%d%s' % (c['npp'], 'x2' if c['twice'] else ''))
            elif point == 'parented':
                level = 0 if var == 'level0' else 2
                par = world.add_peer(PARENT_NAME, direct='accept', direct_delay=0.002, indirect='silent')

                def announce(link, level=level):
                    if link.typ == 'D' and link.incoming_to_peer:
                        data = M.DistributedBranchLevel.Request(level).serialize()
                        if level:
                            data += M.DistributedBranchRoot.Request(PARENT_ROOT).serialize()
                        link.send_msg(data, delay=0.01)      # one segment: equal-deadline timers are not FIFO
                par.on_link = announce
                srv.send(M.PotentialParents.Response([PotentialParent(PARENT_NAME, par.ip, par.port)]))
                await asyncio.sleep(0.3)
                parent_peer['peer'] = par
                parent_peer['announced'] = (level, PARENT_ROOT if level else PARENT_NAME)
                if parent_alive():
                    res.label('parent-established')
            if fault != 'none' and point in TIMED_POINTS:
                arm_p2()
                inject(direct=False)
                fault_fired = True
                if fault in ('reset', 'eof', 'requested'):
                    await asyncio.sleep(0.01)
        # a blocked / failing transport only shows on the next write
        if fault in ('timeout', 'write_error') and fault_fired and not closed_ev.is_set() and not stopping() \
                and n_state['CLOSED'] == fault_info.get('closed_before', 0):
            await asyncio.sleep(0.01)
            if n_state['CLOSED'] == fault_info.get('closed_before', 0) and client.session is not None:
                if c['writer'] == 'command':
                    own(loop.create_task(guard(client.execute(GetUserStatusCommand('zz')))))
                elif c['writer'] == 'queued':
                    client.network.queue_server_messages(M.Ping.Request())
                # 'ping' / 'wishlist': the periodic job of the library performs the write
                res.label('writer:' + c['writer'])

        # -- the initial burst ---------------------------------------------------
        if login_mode == 'accept' and world.server.received(M.Login.Request, session=0):
            t_end = window_end.get(0)
            complete = t_end is not None and not burst_cut
            if t_end is None:
                t_end = float('inf')
            if stopping() and stop_info.get('t_call', float('inf')) < t_end:
                complete = False
            _compare_frames(session_frames(0, t_end), cfg, complete, {('AddUser', (ME,)): 1}, set(),
                            'first login', violate)

        # -- loss ---------------------------------------------------------------
        lost = False
        t_loss = None
        if fault in LOSS_FAULTS and fault_fired:
            base = fault_info.get('closed_before', 0)
            base_closing = fault_info.get('closing_before', 0)
            # the periodic writers take their time: the ping job runs every 300 s, a blocked write times out after 10 s
            detect = {'ping': PING_INTERVAL + 15.0, 'wishlist': WISHLIST_INTERVAL + 15.0}.get(c['writer'], 15.0)
            try:
                await asyncio.wait_for(_wait_state(n_state, 'CLOSING', base_closing, 0.5 if detect > 100 else 0.05),
                                       detect)
                # disconnect() waits at most DISCONNECT_TIMEOUT = 5 s for the transport
                await asyncio.wait_for(_wait_state(n_state, 'CLOSED', base), 8.0)
            except asyncio.TimeoutError:
                pass
            closed_after = [s for s in states if s[1] == 'CLOSED'][base:]
            closing_after = [s for s in states if s[1] == 'CLOSING'][base_closing:]
            if closed_after:
                lost = True
                t_loss = closed_after[0][0]
                res.label('loss-reason:' + closed_after[0][2])
            elif closing_after and not stopping():
                # the client noticed the loss (CLOSING) but the close never completed
                violate(f'C16/loss-not-completed:{closing_after[0][2]}',
                        f'server connection CLOSING ({closing_after[0][2]}) at {closing_after[0][0]:.3f} (loss noticed by '
                        f'the write of: {c["writer"]}) but no CLOSED within 8 s; connection state '
                        f'{client.network.server_connection.state.name}, sessions initialised {len(inits)} / destroyed '
                        f'{len(destroys)}, client.session is {"set" if client.session else "None"}')
                flags['contaminated'] = 'loss-not-completed'
            elif login_mode == 'accept' or point != 'prelogin':
                res.label('loss-not-detected')
        if lost and not stopping():
            await asyncio.sleep(max(0.0, t_loss + 0.1 - loop.time()))
            if not stopping() and len(attempts_to_server(attempts)) == len([a for a in attempts_to_server(attempts)
                                                                             if a[0] <= t_loss]):
                if not check_deadlock(f'0.1 s after the {fault} loss') and \
                        not await check_chain_cut(f'0.1 s after the {fault} loss'):
                    await probe_no_session('after-loss')
                    check_destroyed('after-loss')
                    check_cleared('after-loss')
                    if populated:
                        res.label('cleared-checked-after-populated')

        if lost and c['change'] and not stopping():
            now['cfg'] = dict(cfg, **c['change'])
            _apply_sections(client.settings, now['cfg'], c['apply2'])
            res.label('settings-changed-before-relogin:' + c['apply2'])

        async def check_relogin(tag):
            """The burst of the login on the newest server session (automatic or manual re-login)."""
            relogin_idx = len(world.server.sessions) - 1
            if not stopping() and not check_deadlock('after the reconnect'):
                logins2 = world.server.received(M.Login.Request, session=relogin_idx)
                if not logins2:
                    violate(f'C16/no-login-after-reconnect:{fault}', f'the client reconnected but sent no Login ({tag})')
                elif login_mode == 'accept':
                    # no deadline is stated for the advertisement: tracking retries (a loss in the middle of the
                    # first burst leaves tracking requests that are re-sent by the 10 s retry) get 25 s
                    # the branch position follows the parent that stayed connected; a parent connection that
                    # ended meanwhile leaves both answers open
                    par_now = None
                    if parent_peer:
                        par_now = parent_peer['announced'] if parent_alive() else 'unknown'
                        res.label('relogin-with-parent' if par_now != 'unknown' else 'relogin-parent-gone')
                    want = _expected_frames(now['cfg'], par_now)
                    t_give_up = loop.time() + RELOGIN_WINDOW
                    while loop.time() < t_give_up and not stopping():
                        got = collections.Counter(_frame_key(m) for m in session_frames(relogin_idx, float('inf')))
                        if all(got.get(k, 0) >= n for k, n in want.items()):
                            break
                        await asyncio.sleep(0.5)
                    if not stopping():
                        # pending work (transfer, potential parent) legitimately talks to the server again
                        tol_classes = {'GetPeerAddress', 'ConnectToPeer', 'CannotConnect', 'GetUserStatus'} \
                            if point in ('transfer', 'parent', 'parented') else set()
                        if par_now == 'unknown':
                            tol_classes |= {'BranchLevel', 'BranchRoot', 'ToggleParentSearch'}
                        tol = {('AddUser', (ME,)): 1}
                        for u in xfer_users:
                            tol[('AddUser', (u,))] = 1
                        # extra: what arrived with the burst; missing: what has not arrived after 25 s
                        t_login2 = min(t for t, i, m in world.server.frames
                                       if i == relogin_idx and isinstance(m, M.Login.Request))
                        _compare_frames(session_frames(relogin_idx, t_login2 + 0.3), now['cfg'], False, tol,
                                        tol_classes, tag, violate, parent=par_now)
                        late_ok = collections.Counter(_frame_key(m) for m in session_frames(relogin_idx, float('inf')))
                        for key, n in sorted(want.items(), key=repr):
                            if late_ok.get(key, 0) < n:
                                violate(f'C16/post-login-missing:{key[0]}',
                                        f'{tag}: server received {late_ok.get(key, 0)}x {key[0]}{key[1]} within '
                                        f'{RELOGIN_WINDOW:.0f} s after the new Login, settings imply {n}x')
                        res.label('relogin-burst-checked')
                        if client.session is None:
                            violate('C16/no-session-after-relogin', f'no session after the {tag}')

        # -- reconnect automaton ------------------------------------------------
        if lost:
            horizon = t_loss + cfg['rtimeout'] + 1.0
            while loop.time() < horizon and not stopping():
                await asyncio.sleep(min(0.05, max(0.001, horizon - loop.time())))
            after = [a for a in attempts_to_server(attempts) if a[0] > t_loss]
            stopped_before = stopping() and stop_info['t_call'] <= horizon
            # a server EOF that coincides with client writes can be perceived either way
            ambiguous = (fault == 'eof' and point in ('prelogin', 'pending', 'burst')) or \
                (login_mode == 'eof' and point in ('prelogin', 'pending'))
            expect = cfg['reconnect'] and fault in RECONNECT_FAULTS and not ambiguous
            if after and not stopped_before:
                if not cfg['reconnect']:
                    violate(f'C16/reconnect-with-auto-off:{fault}', f'connect to the server at {after[0][0]:.3f} after '
                                                                    f'the loss at {t_loss:.3f}')
                elif not expect and not ambiguous:
                    violate(f'C16/reconnect-after:{fault}', f'connect to the server at {after[0][0]:.3f} after the '
                                                            f'{fault} loss at {t_loss:.3f}')
            if expect and not after and not stopped_before:
                violate(f'C16/no-reconnect-after:{fault}', f'no connect to the server within {cfg["rtimeout"]} s + 1 s '
                                                           f'after the loss at {t_loss:.3f}')
            if after:
                res.label('reconnected')
            reachable = True
            if expect and after and c['ok'] > 0 and not stopping():
                # the first c['ok'] attempts fail (refused / connect timeout / reset right after the accept); every
                # further attempt is due one watchdog round (poll 0.5 s + reconnect.timeout) after the previous failed
                cost = {'hang': CONNECT_TIMEOUT, 'refuse': 0.0, 'reset': 0.2}[c['omode']]
                give_up = t_loss + (c['ok'] + 1) * (cfg['rtimeout'] + 1.0 + cost) + 1.0
                while loop.time() < give_up and not stopping() and not (
                        len(reconnects) > c['ok'] and reconnects[c['ok']]['done'] is not None):
                    await asyncio.sleep(0.05)
                res.label('outage:%s:%d' % (c['omode'], c['ok']))
                if not stopping() or stop_info['t_call'] > give_up:
                    if len(reconnects) <= c['ok'] or not reconnects[c['ok']]['ok']:
                        reachable = False
                        done = [round(r['done'], 3) for r in reconnects if r['done'] is not None]
                        violate(f'C16/no-reconnect-after-failed-attempt:{c["omode"]}',
                                f'the server was unreachable ({c["omode"]}) for the first {c["ok"]} reconnect attempt(s) '
                                f'after the loss at {t_loss:.3f} and reachable afterwards: {len(reconnects)} attempt(s) '
                                f'made (finished at {done}), no connection by {give_up:.3f} = loss + (k+1) x '
                                f'(reconnect.timeout {cfg["rtimeout"]} s + 1 s + attempt) + 1 s')
            if expect and after and reachable and not stopping():
                # automatic re-login and its burst
                await asyncio.sleep(0.3)
                await check_relogin('re-login')
            elif c['manual'] and not after and not stopping() and login_mode == 'accept' and \
                    client.network.server_connection.state.name == 'CLOSED':
                # no automatic reconnect (requested / EOF / reconnect off): the application reconnects and logs in itself
                n_before = len(world.server.sessions)
                try:
                    await client.network.connect_server()
                    await client.login()
                except Exception as exc:
                    violate(f'C16/unexpected-exception:{type(exc).__name__}@manual-relogin', repr(exc))
                else:
                    res.label('manual-relogin')
                    await asyncio.sleep(0.3)
                    if len(world.server.sessions) > n_before:
                        await check_relogin('manual re-login')
            elif not stopping():
                await asyncio.sleep(0.5)

        # -- stop ---------------------------------------------------------------
        if not stopping():
            check_deadlock('before stop()')
            start_stop('end')
        await asyncio.wait({stop_info['task']}, timeout=300.0)
        if flags['contaminated']:
            return
        if 't_ret' not in stop_info:
            violate(f'C16/stop-did-not-return:{stop_info["where"].split("+")[0].split("-k")[0]}',
                    f'stop() called at {stop_info.get("t_call")} did not return within 300 s')
            return
        if 'exc' in stop_info and not _wait_cycles(loop):
            exc = stop_info['exc']
            violate(f'C16/unexpected-exception:{type(exc).__name__}@stop', repr(exc))
        t_ret = stop_info['t_ret']
        res.label('stop-at:' + stop_info['where'].split('+')[0].split('-k')[0])
        # cancelled tasks get a second to finish; request timers of searches (<= 20 s) are left to expire
        await asyncio.sleep(max(0.0, t_ret + SETTLE - loop.time()))
        early_pending = [(t.get_name(), _task_label(t)) for t in world.library_tasks(exclude=own_tasks)
                         if _task_label(t) != 'Timer.runner']
        await asyncio.sleep(max(0.0, t_ret + HORIZON - loop.time()))
        if check_deadlock(f'{HORIZON:.0f} s after stop()'):
            return

        # -- after stop() ---------------------------------------------------------
        late_attempts = [a for a in attempts if a[0] > t_ret]
        contaminated = False
        for t, host, port, origin in late_attempts:
            violate(f'C16/connect-after-stop:{origin}',
                    f'stop() returned at {t_ret:.3f} (called {stop_info["where"]}); task {origin} started a connect to '
                    f'{host}:{port} at {t:.3f}; server connect attempts '
                    f'{[round(a[0], 3) for a in attempts_to_server(attempts)]}')
            contaminated = True
        for t, host, port, outcome in world.net.opened:
            if t > t_ret and outcome in ('accept', 'pipe', 'reset') and not any(
                    a[0] > t_ret and a[1:3] == (host, port) for a in late_attempts):
                origin = ([a[3] for a in attempts if a[1:3] == (host, port) and a[0] <= t_ret] or ['unknown'])[-1]
                violate(f'C16/connection-opened-after-stop:{origin}',
                        f'stop() returned at {t_ret:.3f} (called {stop_info["where"]}); the connect to {host}:{port} that '
                        f'task {origin} started before was still running and got established at {t:.3f} '
                        f'(peer connect mode {cfg["mode"]})')
                contaminated = True
        if not contaminated:
            open_links = [l for l in world.net.links
                          if any(isinstance(s, simnet.MemTransport) and not s.dead for s in l.sides)]
            for l in open_links:
                kind = 'server' if l in [s['link'] for s in sess] else 'peer'
                violate(f'C16/socket-open-after-stop:{kind}', f'{l.name} still open {HORIZON:.0f} s after stop() returned')
            if world.net.client_listeners:
                violate('C16/socket-open-after-stop:listening',
                        f'listening ports still bound: {sorted(world.net.client_listeners)}')
            pending = [(t.get_name(), _task_label(t)) for t in world.library_tasks(exclude=own_tasks)]
            for records, after in ((pending, HORIZON), (early_pending, SETTLE)):
                if not records:
                    continue
                names = {label for _, label in records}
                if names & {'TransferManager._queue_remotely', 'Network.create_peer_connection'}:
                    # connect attempts are children of the task that asked for the connection
                    names -= {'Network._make_direct_connection', 'Network._make_indirect_connection'}
                names = sorted(names)
                detail = (f'{len(records)} task(s) still pending {after:.0f} s after stop() returned (stop called '
                          f'{stop_info["where"]}): ' + '; '.join(f'{n}={label}' for n, label in records[:6]))
                login_in_flight = 't' in login_out and stop_info['t_call'] <= login_out['t'] or \
                    (login_out == {} and login_started)
                if login_in_flight and all(n.startswith('UserTrackingManager.') for n in names):
                    # the session handlers of a login() that was in flight when stop() ran create tracking tasks after
                    # UserManager.stop(): nobody cancels them
                    violate('C16/task-pending-after-stop:tracking-started-by-login-in-flight', detail)
                else:
                    violate('C16/task-pending-after-stop:' + '+'.join(names), detail)
                break
            late_frames = [(round(t, 3), type(m).__qualname__) for t, i, m in world.server.frames if t > t_ret + 0.01]
            if late_frames:
                violate('C16/frames-after-stop', f'server received {late_frames[:5]} after stop() returned at {t_ret:.3f}')
            check_destroyed('after-stop')
            check_cleared('after-stop')
        pending_own = [t for t in own_tasks if not t.done()]
        if pending_own:
            res.label('driver-call-still-pending-at-end')
        return None

    def attempts_to_server(attempts):
        return [a for a in attempts if (a[1], a[2]) == (simworld.SERVER_HOST, simworld.SERVER_PORT)]

    try:
        _, loop_errors = simworld.run_world(main)
    except RecursionError:
        # raised by the loop teardown (Task.cancel() on tasks that wait for each other); every judgement was made
        # inside the run and is already recorded
        loop_errors = []
        res.label('teardown-recursion')
    if loop_errors:
        res.label('loop-error:' + str(loop_errors[0].get('exc_type')))

    # -- classification -----------------------------------------------------------
    nondefault = {k: v for k, v in cfg.items() if DEFAULT_CFG[k] != v and k != 'rtimeout'}
    res.nontrivial = bool(nondefault) or (fault != 'none' and point != 'idle') or login_mode != 'accept'
    res.label('login:' + login_mode, 'point:' + point + (':' + var if var else ''), 'fault:' + fault)
    if fault in LOSS_FAULTS:
        res.label('p2:' + c['when'])
    for k in sorted(nondefault):
        res.label('cfg:' + k)
    if os.environ.get('C16_TRACE'):
        for line in trace:
            print('   ', line)


async def _wait_state(n_state, name, base, poll=0.05):
    while n_state[name] <= base:
        await asyncio.sleep(poll)


# ---------------------------------------------------------------------------
# enumeration

CFG_RICH = {'clear': 'on', 'obf': 'on', 'friends': ['f0', 'f1'], 'liked': ['jazz'], 'hated': ['pop'], 'favs': [],
            'auto_join': True, 'invites': True, 'reconnect': True, 'rtimeout': 2, 'dirs': [[2, 1]], 'mode': 'race'}
CFG_FAVS = dict(CFG_RICH, favs=['r0'], invites=False, clear='on', obf='off', dirs=[], mode='fallback')
CFG_BARE = dict(DEFAULT_CFG, clear='off', obf='off', rtimeout=1)


def config_cases():
    """Settings x plain life cycle: one-feature variations of the default configuration (login, idle, stop)."""
    out = [dict(DEFAULT_CFG)]
    for clear, obf in (('on', 'off'), ('off', 'on'), ('off', 'off'), ('on', 'fail'), ('fail', 'on')):
        out.append(dict(DEFAULT_CFG, clear=clear, obf=obf))
    for friends in (['f0'], ['f0', 'f1', 'f2']):
        out.append(dict(DEFAULT_CFG, friends=friends))
    for liked, hated in ((['jazz'], []), ([], ['pop']), (['dub', 'jazz'], ['pop', 'ska'])):
        out.append(dict(DEFAULT_CFG, liked=liked, hated=hated))
    for favs in (['r0'], ['r0', 'r1']):
        for auto_join in (True, False):
            out.append(dict(DEFAULT_CFG, favs=favs, auto_join=auto_join))
    out.append(dict(DEFAULT_CFG, auto_join=False))
    out.append(dict(DEFAULT_CFG, invites=False))
    for dirs in ([[1]], [[2, 1], [3]], [[3, 3, 3], [1, 2]]):
        out.append(dict(DEFAULT_CFG, dirs=dirs))
    out.append(dict(DEFAULT_CFG, reconnect=True))
    out.append(dict(CFG_RICH, favs=['r0', 'r1'], auto_join=False, invites=False, obf='fail', dirs=[[1], [2, 2]]))
    return [_doc(cfg, 'accept', 'idle', 'none', apply=apply) for cfg in out for apply in APPLY]


CHANGES = [{'favs': ['r1'], 'invites': False}, {'favs': ['r0', 'r1'], 'auto_join': False}, {'auto_join': True, 'invites': True},
           {'friends': ['f2']}, {'friends': []}, {'liked': ['dub'], 'hated': []},
           {'friends': ['f0', 'f2'], 'liked': [], 'hated': ['ska'], 'favs': ['r1'], 'auto_join': True, 'invites': False}]


def change_cases():
    """Settings changed (in place / by replacing the sections) between an unrequested loss and the automatic re-login."""
    out = []
    for cfg0 in (CFG_RICH, CFG_FAVS):
        cfg = dict(cfg0, reconnect=True, rtimeout=1)
        for apply in ('ctor', 'replace'):
            for fault in RECONNECT_FAULTS:
                for how in APPLY[1:]:
                    for change in CHANGES:
                        out.append(_doc(cfg, 'accept', 'idle', fault, apply=apply, change=(how, change)))
        for var in VARIANTS['parented']:
            for how in APPLY[1:]:
                out.append(_doc(cfg, 'accept', 'parented', 'reset', var=var, change=(how, CHANGES[-1]), outage=(1, 'refuse')))
        # manual re-login: requested disconnect / server EOF, or an unrequested loss with reconnect off
        for auto, faults in ((True, ('requested', 'eof')), (False, LOSS_FAULTS)):
            cfgm = dict(cfg0, reconnect=auto, rtimeout=1)
            for fault in faults:
                for point, var in (('idle', None), ('parented', 'level0'), ('parented', 'level2'), ('search', None)):
                    out.append(_doc(cfgm, 'accept', point, fault, var=var, manual=True))
                    for how in APPLY[1:]:
                        out.append(_doc(cfgm, 'accept', point, fault, var=var, manual=True, change=(how, CHANGES[-1])))
                        out.append(_doc(cfgm, 'accept', point, fault, var=var, manual=True, apply='replace',
                                        change=(how, CHANGES[0])))
    return out


def parents_cases():
    """Several potential-parent connects pending (2..4 slow / hanging peers, list sent once or twice) at stop() / loss."""
    out = []
    for cfg0 in (CFG_RICH, CFG_FAVS):
        for var in VARIANTS['parent']:
            for npp, twice in ((1, True), (2, False), (2, True), (3, False), (3, True), (4, False), (4, True)):
                for auto in (True, False):
                    cfg = dict(cfg0, reconnect=auto, rtimeout=1)
                    for fault in ('stop', 'none', 'requested', 'eof', 'reset', 'write_error'):
                        whens = (('end', 0), ('loss', 50)) if fault in LOSS_FAULTS else (('end', 0),)
                        for when, ms in whens:
                            out.append(_doc(cfg, 'accept', 'parent', fault, var=var, when=when, ms=ms, npp=npp,
                                            twice=twice))
    return out


def enumerated_cases(tier):
    out = config_cases() + change_cases() + parents_cases()
    cfgs = (CFG_RICH, CFG_FAVS) if tier == 'quick' else (CFG_RICH, CFG_FAVS, CFG_BARE)
    for cfg0 in cfgs:
        n = _n_burst(cfg0)
        ks = list(range(1, n + 1)) if tier == 'thorough' else sorted({1, 2, 3, 5, 7, 8, 9, n - 1, n})
        k2s = [0, 2, 4, 6, 8, 10, 12] if tier == 'thorough' else [0, 4, 8]
        p1s = [('prelogin', 1, None), ('pending', 1, None)] + [('burst', k, None) for k in ks] + \
              [('idle', 1, None), ('transfer', 1, 'connecting'), ('transfer', 1, 'stalled'), ('search', 1, None),
               ('parent', 1, 'slow'), ('parent', 1, 'hang'), ('parented', 1, 'level0'), ('parented', 1, 'level2')]
        rt = cfg0['rtimeout'] * 1000
        for auto in (True, False):
            cfg = dict(cfg0, reconnect=auto)
            for point, k, var in p1s:
                out.append(_doc(cfg, 'accept', point, 'stop', k=k, var=var))
                if point in TIMED_POINTS:
                    out.append(_doc(cfg, 'accept', point, 'none', k=k, var=var))
                for fault in LOSS_FAULTS:
                    if auto and fault in RECONNECT_FAULTS:
                        # dt after the loss: inside the watchdog poll, inside its sleep, around the reconnect
                        p2s = [('loss', 0, 0), ('loss', 50, 0), ('loss', 700, 0), ('loss', rt + 400, 0),
                               ('loss', rt + 600, 0), ('reconnecting', 0, 0), ('end', 0, 0)] + \
                              [('relogin', 0, k2) for k2 in k2s]
                    else:
                        p2s = [('loss', 50, 0), ('end', 0, 0)]
                    for when, ms, k2 in p2s:
                        out.append(_doc(cfg, 'accept', point, fault, k=k, var=var, when=when, ms=ms, k2=k2))
            for login in ('reject', 'garbled', 'eof', 'silent'):
                for point in ('prelogin', 'pending', 'idle'):
                    for fault in ('none', 'stop', 'reset', 'eof'):
                        out.append(_doc(cfg, login, point, fault, when='end'))
            # the loss is noticed by the write of a task that the CLOSING handlers cancel: periodic ping job, periodic
            # wishlist job, queued message
            for point in ('idle', 'search'):
                for fault in ('write_error', 'timeout'):
                    for writer in ('ping', 'wishlist', 'queued'):
                        for when, ms in (('end', 0), ('loss', 50)):
                            out.append(_doc(cfg, 'accept', point, fault, when=when, ms=ms, writer=writer))
        # the server is unreachable for the first k reconnect attempts and reachable afterwards
        cfg = dict(cfg0, reconnect=True)
        ks_out = (1, 2, 3) if tier == 'thorough' else (1, 2)
        for fault, writer in (('reset', None), ('write_error', 'queued'), ('timeout', 'command')):
            for k in ks_out:
                for mode in OUTAGE_MODES:
                    for when, ms, k2 in (('end', 0, 0), ('relogin', 0, 4), ('loss', rt + 700, 0), ('reconnecting', 0, 0)):
                        out.append(_doc(cfg, 'accept', 'idle', fault, when=when, ms=ms, k2=k2, writer=writer,
                                        outage=(k, mode)))
    return out


def run_shard(ctx):
    cases = enumerated_cases(ctx.tier)
    ctx.extra['enumerated_cases'] = len(cases) if ctx.shard == 0 else 0
    ctx.enumerate(cases)
    n = 100 if ctx.tier == 'quick' else 2500
    # half of the shards avoid favourite rooms (the trigger of the auto_join finding) by construction
    ctx.explore(case_strategy(favs=(ctx.shard % 2 == 0)), n)


MANIFEST_ENTRY = {
    'technique': 'fault enumeration + property-based testing (Hypothesis): enumerated fault / stop positions and '
                 'generated settings for a real SoulSeekClient against a simulated server on a virtual-time loop '
                 'with in-memory TCP',
    'level_text': 'Every fault position (before login, login pending, after each of the k post-login frames, idle, '
                  'transfer / search / potential-parent connect pending) is enumerated with every close reason '
                  '(requested, EOF, reset, write timeout, write error) and stop(), crossed with stop positions '
                  'relative to the reconnect watchdog; settings are generated. Oracle: expected post-login frame '
                  'multiset, session automaton, cleared state, reconnect automaton, nothing alive 1000 s after stop().',
    'level_note': 'Trusted base: virtual loop, in-memory TCP (latency 1 ms), simulated server. "Never" is decided up '
                  'to 1000 virtual seconds after stop(). Single fault per case (plus stop).',
}

# one deterministic minimal case per finding on the pinned tree (see scratch/fixes/C16-*.diff)
KNOWN_REPLAYS = {
    # rooms.auto_join test inverted in RoomManager._on_session_initialized (fix C16-1)
    'C16/post-login-missing:JoinRoom': {'cfg': {'favs': ['r0']}},
    'C16/post-login-extra:JoinRoom': {'cfg': {'favs': ['r0'], 'auto_join': False}},
    # stop() after an unrequested loss does not stop the reconnect watchdog (fix C16-2)
    'C16/connect-after-stop:server-connection-watchdog-task':
        {'cfg': {'reconnect': True, 'rtimeout': 1}, 'fault': 'reset', 'p2': {'when': 'loss', 'ms': 0}},
    # DistributedNetwork is not among SoulSeekClient.services: potential-parent tasks survive stop() (fix C16-3)
    'C16/connection-opened-after-stop:potential-parent':
        {'cfg': {'mode': 'fallback'}, 'p1': {'point': 'parent', 'var': 'slow'}},
    # UserTrackingManager._on_state_changed awaits the tracking task that (through its AddUser write) runs it (fix C16-4)
    'C16/deadlock:DataConnection.send_message+UserTrackingManager._tracking_task':
        {'p1': {'point': 'burst', 'k': 7}, 'fault': 'write_error'},
    # manage_transfers starts a second _queue_remotely task for a download and loses the first one (fix C16-5, cf. C06)
    'C16/connection-opened-after-stop:queue-remotely':
        {'cfg': {'mode': 'fallback'}, 'p1': {'point': 'transfer', 'var': 'connecting'}},
    'C16/task-pending-after-stop:TransferManager._queue_remotely':
        {'cfg': {'reconnect': True, 'rtimeout': 1, 'mode': 'fallback'}, 'p1': {'point': 'transfer', 'var': 'connecting'},
         'fault': 'timeout'},
    # race mode: the same two causes seen through the direct-connect task of the uncancelled connection request
    # (potential parent: fix C16-3, orphaned _queue_remotely: fix C16-5)
    'C16/connection-opened-after-stop:direct-connect': {'p1': {'point': 'parent', 'var': 'slow'}},
    # the write that notices the loss is made by a task that the CLOSING handling cancels (ping job, wishlist job, queued
    # message): the pending cancellation cuts the chain of CLOSED listeners (fix C16-6)
    'C16/closed-listeners-cut:ping': {'p1': {'writer': 'ping'}, 'fault': 'write_error'},
    'C16/closed-listeners-cut:wishlist': {'p1': {'writer': 'wishlist'}, 'fault': 'write_error'},
    'C16/closed-listeners-cut:queued': {'p1': {'writer': 'queued'}, 'fault': 'write_error'},
    # session handlers of a login() in flight while stop() runs start tracking tasks after UserManager.stop() (no fix)
    'C16/task-pending-after-stop:tracking-started-by-login-in-flight': {'p1': {'point': 'burst', 'k': 1}, 'fault': 'stop'},
}
