"""C01 — wire codec round trip and byte compatibility (DESIGN §3 C01)."""
from __future__ import annotations

import zlib

from hypothesis import strategies as st

from vfw import msgbridge, wire_ref
from vfw.runner import CaseResult

PROPERTY = 'C01'
LEVEL = 'exploration'
RULE = (
    "Cases: (a) per pinned message class, field values drawn from the wire domain of pinned/layout.json "
    "(ints of the field width with boundary bias, int32 incl. negatives, bools, unicode text without surrogates "
    "0..60 chars, blobs, dotted quads, arrays of 0..4 scalars/nested records, conditional fields present iff their "
    "condition holds, trailing optionals with prefix-closed presence) plus an obfuscation key; (b) obfuscation "
    "cases: 4-byte key x payload of length 0..600. Oracles: decode(encode(m)) == m modulo absent optional -> class "
    "default; length prefix; pinned code/width; bytes == independent reference encoder (zlib messages: header "
    "bytewise, payload after inflate); group dispatcher picks the same class/value; reference decoder agrees; "
    "obfuscation == independent rotl-per-word reference both ways; DataConnection.encode/decode_message_data round "
    "trip; serialize_into() on a buffer that already holds bytes (3 junk bytes / a previous frame) appends exactly the "
    "frame; a stream of [init message +] the frame twice + a probe frame fed to the reader of a real ServerConnection / "
    "PeerConnection (plain; peer frames obfuscated; distributed connection accepted obfuscated whose init message is "
    "obfuscated and whose later frames are plain) is delivered as exactly those three messages; second use of the same "
    "message OBJECT: serialize() again gives the same bytes, and after the object was changed - every list-valued field in "
    "place: append(copy of its first element), reverse(), append to the first nested list of its first record, "
    "slice-assign the list of a second value, clear(); the same append on an object that came out of deserialize(); "
    "finally every field set to a second in-domain value of the class (a boundary document, or 'alt' of the case) - "
    "every serialize() gives the reference encoding of the value the object holds at that moment (and the bytes of a "
    "freshly constructed equal message); independence of decodes: the frame is decoded by its class and by the dispatcher "
    "next to two messages of other classes whose arrays are empty (PeerSearchReply, RoomList), no two lists reachable from "
    "those results may be one list object, then an element is appended in place to every list of every result and the "
    "same bytes are decoded again: every result equals the original value. Non-trivial = payload non-empty and not all zero bytes (message cases) or payload longer than 4 bytes "
    "(obfuscation cases); distinct = distinct case document. (c) raw frames: the 299 hand-written vectors through the "
    "metamorphic oracle 'if the bytes decode to m then decode(encode(m)) == m and encode(decode(encode(m))) == encode(m)'; "
    "thorough additionally runs atheris (libFuzzer, coverage-guided) on each of the five dispatchers with that oracle, "
    "from an empty corpus and from the vectors (-runs, -seed=VERIF_SEED, fresh corpus directory); findings are replayed "
    "without atheris. (d) wire cases ('t': 'wire'): a real ServerConnection / PeerConnection (plain, obfuscated) connected "
    "over the in-memory TCP layer to a scripted endpoint, whose transport applies write back pressure (drain() of a write "
    "suspends for 0 / 0.5..50 ms, or for ever so that the library's 10 s write timeout closes the connection); 1..3 sender "
    "tasks put 2..5 messages on that one connection, at least one frame larger than 64 KiB (PeerUserInfoReply picture, "
    "PeerSharesReply of 2500..5000 files, big chat / search string, raw bytes frame; up to ~1 MiB plain, ~240 kB obfuscated), "
    "the small ones fixed or drawn from the per-class strategies of (a): one after the other (send_message), concurrently "
    "(asyncio.gather of send_message calls as in Network.send_peer_messages, queue_message, queue_messages, several tasks "
    "that start k loop iterations / x ms apart), and with a sender cancelled by Task.cancel() / given up by "
    "asyncio.wait_for k iterations / x ms after it started; when all senders are done one more message is sent if the "
    "connection is still open. A deterministic grid (135 cases: connection x back pressure x 14 patterns + 3 write-timeout "
    "patterns, big class and size rotating) plus Hypothesis cases. Oracle on the bytes the endpoint received, cut into "
    "frames by the length prefix alone (obfuscated: reference de-obfuscation): every frame is the reference encoding "
    "of one of the messages (compressed: code bytewise, payload after inflate), each message at most once; a send that "
    "returned without error on a connection that was open before and after is on the wire exactly once; a message whose "
    "send was never started is not on the wire; messages sent one after the other by one task keep their order; no "
    "incomplete frame is followed by further bytes, and an incomplete last frame is accepted only when the library "
    "itself closed the connection afterwards (write timeout) and the tail is the beginning of one message that is not whole on the wire. A "
    "cancelled send may leave its whole frame or nothing. Wire cases are non-trivial when at least two whole frames, one "
    "of them larger than 64 KiB, arrived."
)
ASSUMPTIONS = [
    "pinned/layout.json (extracted once from snapshot ddacc78, reviewed against MESSAGES.rst and validated against "
    "299 hand-written unit-test vectors at setup) is the protocol layout peers expect",
    "encoder preconditions respected by the generator: non-optional fields never None; has_picture => picture not "
    "None; an absent optional is followed only by absent optionals",
    "compressed messages: any valid deflate stream is accepted by peers, so compressed bytes are not pinned",
    "wire cases: the in-memory transport (vfw/simnet.MemTransport) hands every write() to the link at once and models "
    "back pressure only through pause_writing()/resume_writing(), the way a selector transport does for the part of a "
    "write that does not fit in the socket buffer; a caller that cancels a send keeps using the connection (HEAD keeps "
    "it open after a cancelled send and closes it after its own 10 s write timeout: both are what the oracle pins); "
    "no order is demanded between messages of different tasks or of one gather / queue_messages call",
]
BUDGET_S = {'quick': 120, 'thorough': 1500}

KEYS = sorted(wire_ref.BY_KEY)

# ---------------------------------------------------------------------------
# strategies (driven by the pinned layout only)

_TEXT = st.one_of(
    st.just(''),
    st.text(alphabet=st.characters(min_codepoint=32, max_codepoint=126), max_size=20),
    st.text(alphabet=st.characters(exclude_categories=['Cs']), max_size=60),
    st.text(alphabet=st.sampled_from('aé€漢😀\x00ÿŒ /\\'), min_size=1, max_size=40),
)


_INT_CACHE = {}


def _int_strategy(typ):
    if typ in _INT_CACHE:
        return _INT_CACHE[typ]
    lo, hi = wire_ref.INT_RANGE[typ]
    cands = [lo, lo + 1, hi, hi - 1, 0, 1, 127, 128, 255, 256, 65535, 65536, 2 ** 31 - 1, 2 ** 31,
             2 ** 32 - 1, 2 ** 32, 2 ** 63 - 1, 2 ** 63, 2 ** 64 - 1]
    bounds = sorted({b for b in cands if lo <= b <= hi})
    strat = st.one_of(st.sampled_from(bounds), st.integers(lo, hi), st.integers(max(lo, 0), min(hi, 300)))
    _INT_CACHE[typ] = strat
    return strat


def value_strategy(typ, subtype=None):
    if typ in wire_ref.INT_RANGE:
        return _int_strategy(typ)
    if typ == 'boolean':
        return st.booleans()
    if typ == 'string':
        return _TEXT
    if typ == 'bytearr':
        return st.binary(max_size=80).map(lambda b: {'$b': b.hex()})
    if typ == 'ipaddr':
        return st.tuples(*[st.sampled_from([0, 1, 127, 255]) | st.integers(0, 255)] * 4).map(
            lambda t: '.'.join(map(str, t)))
    if typ == 'array':
        return st.lists(value_strategy(subtype), max_size=4)
    if typ.startswith('record:'):
        return record_strategy(wire_ref.RECORDS[typ[7:]])
    raise ValueError(typ)


@st.composite
def record_strategy(draw, fields):
    return _draw_fields(draw, fields)


def _draw_fields(draw, fields):
    values = {}
    tail_open = True
    for f in fields:
        eligible = True
        if 'if_true' in f:
            eligible = bool(values.get(f['if_true']))
        if 'if_false' in f:
            eligible = not bool(values.get(f['if_false']))
        if not eligible:
            values[f['name']] = None
            continue
        if f.get('optional'):
            present = tail_open and draw(st.booleans())
            if not present:
                tail_open = False
                values[f['name']] = None
                continue
        values[f['name']] = draw(value_strategy(f['type'], f.get('subtype')))
    return values


@st.composite
def message_case(draw, key):
    values = _draw_fields(draw, wire_ref.BY_KEY[key]['fields'])
    obf_key = draw(st.sampled_from(['00000000', 'ffffffff', '01000000', '00000080']) |
                   st.binary(min_size=4, max_size=4).map(bytes.hex))
    return {'t': 'msg', 'key': key, 'values': values, 'obf_key': obf_key}


@st.composite
def obf_case(draw):
    key = draw(st.sampled_from(['00000000', 'ffffffff', '01000000', '00000080', '99abcdef']) |
               st.binary(min_size=4, max_size=4).map(bytes.hex))
    n = draw(st.sampled_from([0, 1, 3, 4, 5, 8, 124, 127, 128, 129, 131, 132, 133, 255, 256, 257, 600]) |
             st.integers(0, 600))
    kind = draw(st.sampled_from(['zero', 'ff', 'seq', 'rand']))
    if kind == 'rand':
        data = draw(st.binary(min_size=n, max_size=n))
    elif kind == 'zero':
        data = bytes(n)
    elif kind == 'ff':
        data = b'\xff' * n
    else:
        data = bytes(i % 251 for i in range(n))
    return {'t': 'obf', 'obf_key': key, 'data': data.hex()}


# ---------------------------------------------------------------------------
# oracle

def _norm(typ, v, subtype=None):
    if v is None:
        return None
    if typ in wire_ref.INT_RANGE:
        return int(v) if isinstance(v, (bool, int)) else v
    if typ == 'boolean':
        if isinstance(v, bool):
            return v
        if isinstance(v, int) and v in (0, 1):
            return bool(v)
        return v
    if typ == 'array':
        return [_norm(subtype, x) for x in v]
    if typ.startswith('record:'):
        return _norm_fields(wire_ref.RECORDS[typ[7:]], v)
    return v


def _norm_fields(fields, values):
    return {f['name']: _norm(f['type'], values.get(f['name']), f.get('subtype')) for f in fields}


def expected_after_roundtrip(key, values):
    """Absent fields decode to the pinned class default."""
    fields = wire_ref.BY_KEY[key]['fields']
    out = {}
    for f in fields:
        if wire_ref.field_present(f, values):
            out[f['name']] = values[f['name']]
        else:
            out[f['name']] = f.get('default')
    return _norm_fields(fields, out)


def _dispatch_live(group, kind, frame):
    from aioslsk.protocol import messages as M
    if group == 'server':
        return M.ServerMessage.deserialize_request(frame) if kind == 'Request' else \
            M.ServerMessage.deserialize_response(frame)
    if group == 'peer_init':
        return M.PeerInitializationMessage.deserialize_request(frame)
    if group == 'peer':
        return M.PeerMessage.deserialize_request(frame)
    return M.DistributedMessage.deserialize_request(frame)


class _FakeNet:
    pass


def _connection_for(group, kind, obfuscated):
    from aioslsk.network.connection import PeerConnection, PeerConnectionState, ServerConnection
    if group == 'server':
        c = ServerConnection('h', 1, _FakeNet(), obfuscated=obfuscated)
        return c
    c = PeerConnection('h', 1, _FakeNet(), obfuscated=obfuscated,
                       connection_type='D' if group == 'distributed' else 'P')
    if group != 'peer_init':
        c.connection_state = PeerConnectionState.ESTABLISHED
    return c


def _in_domain(typ, v, subtype=None) -> bool:
    """Shrunk / replayed documents must stay inside the wire domain."""
    try:
        if typ in wire_ref.INT_RANGE:
            lo, hi = wire_ref.INT_RANGE[typ]
            return isinstance(v, int) and not isinstance(v, bool) and lo <= v <= hi
        if typ == 'boolean':
            return isinstance(v, bool)
        if typ == 'string':
            if not isinstance(v, str):
                return False
            v.encode('utf-8')
            return True
        if typ == 'bytearr':
            bytes.fromhex(v['$b'])
            return True
        if typ == 'ipaddr':
            parts = v.split('.')
            return len(parts) == 4 and all(p.isdigit() and str(int(p)) == p and 0 <= int(p) <= 255 for p in parts)
        if typ == 'array':
            return isinstance(v, list) and all(_in_domain(subtype, x) for x in v)
        if typ.startswith('record:'):
            fs = wire_ref.RECORDS[typ[7:]]
            return isinstance(v, dict) and all(f['name'] in v and _in_domain(f['type'], v[f['name']], f.get('subtype'))
                                               for f in fs)
    except Exception:
        return False
    return False


def _values_in_domain(key, values) -> bool:
    """Sanitiser for (shrunk / replayed) message documents: known class, every present field holds an in-domain
    value, every absent field is None, the optional tail is prefix-closed."""
    if key not in wire_ref.BY_KEY or not isinstance(values, dict):
        return False
    fields = wire_ref.BY_KEY[key]['fields']
    for f in fields:
        if f['name'] not in values:
            return False
        if wire_ref.field_present(f, values):
            if not _in_domain(f['type'], values[f['name']], f.get('subtype')):
                return False
        elif values[f['name']] is not None:
            return False
    seen_absent = False
    for f in fields:   # prefix-closed optional tail
        if f.get('optional') and ('if_true' not in f or values.get(f['if_true'])) and \
                ('if_false' not in f or not values.get(f['if_false'])):
            if values[f['name']] is None:
                seen_absent = True
            elif seen_absent:
                return False
    return True


def _same_frame(m, key, frame: bytes, values) -> bool:
    """Is ``frame`` what the pinned layout prescribes for ``values``? (compressed: header fields + inflated payload)"""
    import struct
    if not m['compressed']:
        return frame == wire_ref.encode(key, values)
    hdr = 4 + m['code_width']
    if len(frame) < hdr or struct.unpack_from('<I', frame, 0)[0] != len(frame) - 4 or \
            frame[4:hdr] != wire_ref.encode_code(key):
        return False
    try:
        return zlib.decompress(frame[hdr:]) == wire_ref.encode_payload(key, values)
    except zlib.error:
        return False


_ALT_CACHE: dict = {}
_SENTINEL = '\x00c01-sentinel\x00'
# two messages of other classes whose arrays are all empty (decoded next to the message of the case)
_PROBE_KEYS = ('peer:PeerSearchReply:Request', 'server:RoomList:Response')
_PROBE_CACHE: dict = {}


def _lists_of(obj, path='', out=None):
    """All list objects reachable from a decoded message: [(path, list)] (fields in declaration order)."""
    import dataclasses
    if out is None:
        out = []
    if dataclasses.is_dataclass(obj) and not isinstance(obj, type):
        for f in dataclasses.fields(obj):
            v = getattr(obj, f.name, None)
            if isinstance(v, list):
                out.append((f'{path}{f.name}', v))
                for i, item in enumerate(v):
                    if dataclasses.is_dataclass(item):
                        _lists_of(item, f'{path}{f.name}[{i}].', out)
            elif dataclasses.is_dataclass(v):
                _lists_of(v, f'{path}{f.name}.', out)
    return out


def _decode_independence(res: CaseResult, key, data: bytes, want):
    """decode(encode(m)) == m whatever was done with the results of earlier decodes: the frame of the case is decoded
    by its class and by the group dispatcher, next to two messages of other classes whose arrays are empty; no two
    lists of those results may be one object; then an element is appended in place to every list of every result
    (what an application does that merges / extends the lists it was handed), and the same bytes are decoded again."""
    group, name, kind = key.split(':')
    fields = wire_ref.BY_KEY[key]['fields']
    cls = msgbridge.msg_class(key)
    if not _PROBE_CACHE:
        for pk in _PROBE_KEYS:
            pv = next(iter(_boundary_cases(pk)))['values']       # all-min: every array empty
            _PROBE_CACHE[pk] = (wire_ref.encode(pk, pv), expected_after_roundtrip(pk, pv))
    mutated = []
    try:
        def decode_all():
            out = [('class', key, cls.deserialize(0, data), want),
                   ('dispatcher', key, _dispatch_live(group, kind, data), want)]
            for pk in _PROBE_KEYS:
                if pk != key:
                    frame, pwant = _PROBE_CACHE[pk]
                    out.append(('class', pk, msgbridge.msg_class(pk).deserialize(0, frame), pwant))
            return out

        first = decode_all()
        lists = []
        for how, k, obj, _ in first:
            lists.extend((f'{k}({how}).{path}', lst) for path, lst in _lists_of(obj))
        if not _lists_of(first[0][2]):
            return      # the message of the case has no array
        seen = {}
        for path, lst in lists:
            if id(lst) in seen:
                res.violate(f'C01/decode:results-share-a-list-object:{"empty" if not lst else "non-empty"}',
                            f'{seen[id(lst)]} and {path} are the same list object ({key})')
                break
            seen[id(lst)] = path
        if any(not lst for _, lst in lists):
            res.label('decode-independence:empty-array')
        for _, lst in lists:
            lst.append(_SENTINEL)
            mutated.append(lst)
        for how, k, obj, expect in decode_all():
            try:
                _, got = msgbridge.from_obj(obj)
                got = _norm_fields(wire_ref.BY_KEY[k]['fields'], got)
            except Exception as exc:
                got = f'<not a value of the class: {exc!r}>'
            if got != expect:
                which = 'same-class' if k == key else 'other-class'
                res.violate(f'C01/decode:depends-on-earlier-decode:{which}:{how}',
                            f'after an element was appended in place to the lists of earlier decoded messages, '
                            f'{k} decodes as {str(got)[:300]} instead of {str(expect)[:300]} (case {key})')
    except Exception as exc:
        res.violate(f'C01/decode:independence-raises:{key}:{type(exc).__name__}', repr(exc))
    finally:
        # run_case stays a pure function of the case even when the decoder hands out shared lists
        for lst in mutated:
            while _SENTINEL in lst:
                lst.remove(_SENTINEL)


def _second_use(res: CaseResult, key, values, alt):
    """A message object is serialised, changed, and serialised again (an application keeps its browse / search reply
    around and a scan adds a file; a request is retried with another ticket): every serialize() has to give the bytes
    of the value the object holds at that moment. Changes: for every list-valued field in place append(copy of the
    first element), reverse(), append to the first nested list of the first record, slice-assign the list of a second
    value, clear(); then every field is set to the second value (lists in place)."""
    import copy
    m = wire_ref.BY_KEY[key]
    fields = m['fields']
    step = 'first'
    try:
        obj = msgbridge.to_obj(key, values)
        first = obj.serialize()
        if not _same_frame(m, key, first, values):
            return      # (reported by the checks above)
        step = 'again'
        if obj.serialize() != first:
            res.violate(f'C01/second-serialize:not-idempotent:{key}', 'serialize() of an unchanged object differs')
            return
        cur = copy.deepcopy(values)
        alt_obj = msgbridge.to_obj(key, alt) if alt is not None else None

        def check(what, cls, fresh_too=False):
            again = obj.serialize()
            if not _same_frame(m, key, again, cur):
                if again == first:
                    res.violate(f'C01/second-serialize:stale-after-{cls}:{key}',
                                f'{what}: serialize() of the changed object gives the bytes of the value before the '
                                f'change: {again.hex()[:120]} for {cur}')
                else:
                    res.violate(f'C01/second-serialize:differs-from-layout-after-{cls}:{key}',
                                f'{what}: serialize() of the changed object gives {again.hex()[:120]} for {cur}')
                return False
            if fresh_too and not m['compressed'] and again != msgbridge.to_obj(key, cur).serialize():
                res.violate(f'C01/second-serialize:differs-from-equal-fresh-object:{key}', what)
                return False
            return True

        for f in fields:
            name = f['name']
            if f['type'] != 'array' or not isinstance(cur.get(name), list):
                continue
            live = getattr(obj, name)
            if not isinstance(live, list):
                continue
            doc = cur[name]
            ops = []
            if doc:
                ops.append('append-copy')
            if len(doc) > 1:
                ops.append('reverse')
            sub = None
            if doc and f.get('subtype', '').startswith('record:'):
                sub = next((sf['name'] for sf in wire_ref.RECORDS[f['subtype'][7:]] if sf['type'] == 'array'), None)
                if sub is not None:
                    ops.append('nested')
            if alt is not None and isinstance(alt.get(name), list) and isinstance(getattr(alt_obj, name), list):
                ops.append('slice-assign')
            ops.append('clear')
            for op in ops:
                step = f'{name}.{op}'
                if op == 'append-copy':
                    live.append(copy.deepcopy(live[0]))
                    doc.append(copy.deepcopy(doc[0]))
                elif op == 'reverse':
                    live.reverse()
                    doc.reverse()
                elif op == 'nested':
                    inner_live, inner_doc = getattr(live[0], sub), doc[0][sub]
                    if inner_doc:
                        inner_live.append(copy.deepcopy(inner_live[0]))
                        inner_doc.append(copy.deepcopy(inner_doc[0]))
                    else:
                        continue
                elif op == 'slice-assign':
                    live[:] = copy.deepcopy(getattr(alt_obj, name))
                    doc[:] = copy.deepcopy(alt[name])
                else:
                    if not doc:
                        continue
                    live.clear()
                    doc.clear()
                if not check(f'after {name}.{op}() in place', 'inplace-list-change', fresh_too=op == 'append-copy'):
                    return
                res.label('second-use:list-in-place')
        # the same on an object that came out of deserialize(): it must not keep answering with the bytes it was
        # parsed from
        step = 'deserialized'
        back = msgbridge.msg_class(key).deserialize(0, first)
        bvals = copy.deepcopy(expected_after_roundtrip(key, values))
        if _same_frame(m, key, back.serialize(), bvals):
            for f in fields:
                name = f['name']
                live = getattr(back, name)
                if f['type'] == 'array' and isinstance(bvals.get(name), list) and bvals[name] and isinstance(live, list):
                    step = f'deserialized.{name}.append'
                    live.append(copy.deepcopy(live[0]))
                    bvals[name].append(copy.deepcopy(bvals[name][0]))
                    if not _same_frame(m, key, back.serialize(), bvals):
                        res.violate(f'C01/second-serialize:stale-after-inplace-list-change:deserialized:{key}',
                                    f'deserialized object after {name}.append() in place: serialize() does not give '
                                    f'the bytes of {bvals}')
                        return
                    res.label('second-use:deserialized-list-in-place')
                    break
        if alt is not None:
            step = 'assign'
            for f in fields:
                name = f['name']
                new = getattr(alt_obj, name)
                live = getattr(obj, name)
                if isinstance(new, list) and isinstance(live, list):
                    live[:] = new
                else:
                    setattr(obj, name, new)
            cur = copy.deepcopy(alt)
            check('after every field was set to a second value', 'assignment', fresh_too=True)
            res.label('second-use:assigned')
    except Exception as exc:
        res.violate(f'C01/second-serialize:raises:{key}:{type(exc).__name__}', f'{step}: {exc!r}')


def run_msg_case(case, res: CaseResult):
    import struct
    key, values = case['key'], case['values']
    if not _values_in_domain(key, values):
        return
    m = wire_ref.BY_KEY[key]
    group, name, kind = key.split(':')
    fields = m['fields']
    res.label('group:' + group)
    try:
        obj = msgbridge.to_obj(key, values)
    except Exception as exc:  # constructor refused an in-domain value
        res.violate(f'C01/construct:{key}:{type(exc).__name__}', repr(exc))
        return
    try:
        data = obj.serialize()
    except Exception as exc:
        res.violate(f'C01/serialize-raises:{key}:{type(exc).__name__}', repr(exc))
        return
    hdr = 4 + m['code_width']
    ref = wire_ref.encode(key, values)
    ref_payload = wire_ref.encode_payload(key, values)
    # (2) header
    if len(data) < hdr or struct.unpack_from('<I', data, 0)[0] != len(data) - 4:
        res.violate(f'C01/length-prefix:{key}', data[:16].hex())
        return
    if data[4:hdr] != wire_ref.encode_code(key):
        res.violate(f'C01/code:{key}', data[:hdr].hex())
    # (3) bytes vs the pinned layout
    if m['compressed']:
        try:
            payload = zlib.decompress(data[hdr:])
        except zlib.error as exc:
            res.violate(f'C01/compressed-body-invalid:{key}', repr(exc))
            return
        if payload != ref_payload:
            res.violate(f'C01/bytes-differ-from-layout:{key}', f'{payload.hex()[:200]} != {ref_payload.hex()[:200]}')
    else:
        payload = data[hdr:]
        if data != ref:
            res.violate(f'C01/bytes-differ-from-layout:{key}', f'{data.hex()[:200]} != {ref.hex()[:200]}')
    if len(payload) >= 128:
        res.label('payload>=128')
    want = expected_after_roundtrip(key, values)
    # (1) class round trip
    try:
        back = msgbridge.msg_class(key).deserialize(0, data)
        _, got = msgbridge.from_obj(back)
        got = _norm_fields(fields, got)
        if got != want:
            res.violate(f'C01/roundtrip:{key}', f'{got} != {want}')
        if type(back) is not type(obj):
            res.violate(f'C01/roundtrip-class:{key}', type(back).__qualname__)
    except Exception as exc:
        res.violate(f'C01/deserialize-raises:{key}:{type(exc).__name__}', repr(exc))
    # (4) dispatcher
    try:
        disp = _dispatch_live(group, kind, data)
        if type(disp) is not msgbridge.msg_class(key):
            res.violate(f'C01/dispatch-class:{key}', type(disp).__qualname__)
        else:
            _, got = msgbridge.from_obj(disp)
            if _norm_fields(fields, got) != want:
                res.violate(f'C01/dispatch-value:{key}', f'{got} != {want}')
    except Exception as exc:
        res.violate(f'C01/dispatch-raises:{key}:{type(exc).__name__}', repr(exc))
    # (5) reference decoder on the live bytes
    try:
        refdec = wire_ref.decode(key, data)
        refdec = _norm_fields(fields, {f['name']: refdec.get(f['name'], f.get('default')) for f in fields})
        if refdec != want:
            res.violate(f'C01/ref-decode-differs:{key}', f'{refdec} != {want}')
    except wire_ref.RefDecodeError as exc:
        res.violate(f'C01/ref-decode-rejects:{key}', repr(exc))
    # (7) connection level, plain and obfuscated
    from aioslsk.protocol import obfuscation
    okey = bytes.fromhex(case.get('obf_key', '00000000'))[:4].ljust(4, b'\0')
    for obfuscated in (False, True):
        try:
            conn = _connection_for(group, kind, obfuscated)
            if group == 'server' and kind == 'Request':
                # client only decodes responses: use the encode path + reference de-obfuscation
                enc = conn.encode_message_data(obj)
                plain = wire_ref.obf_decode(enc) if obfuscated else enc
                if plain != data:
                    res.violate(f'C01/conn-encode:{key}:obf={obfuscated}', plain.hex()[:200])
                continue
            enc = conn.encode_message_data(obj)
            plain = wire_ref.obf_decode(enc) if obfuscated else enc
            if plain != data:
                res.violate(f'C01/conn-encode:{key}:obf={obfuscated}', plain.hex()[:200])
            wire = wire_ref.obf_encode(data, okey) if obfuscated else data
            if obfuscated and obfuscation.encode(data, key=okey) != wire:
                res.violate('C01/obfuscation-encode', f'key={okey.hex()} len={len(data)}')
            dec = conn.decode_message_data(wire)
            _, got = msgbridge.from_obj(dec)
            if type(dec) is not msgbridge.msg_class(key) or _norm_fields(fields, got) != want:
                res.violate(f'C01/conn-decode:{key}:obf={obfuscated}', f'{got} != {want}')
        except Exception as exc:
            res.violate(f'C01/conn-raises:{key}:obf={obfuscated}:{type(exc).__name__}', repr(exc))
    # (8) serialize_into appends to whatever the buffer already holds (messages batched into one write)
    for prefix in (b'\x01\x02\x03', data):
        try:
            buf = bytearray(prefix)
            obj.serialize_into(buf, compress=True) if m['compressed'] else obj.serialize_into(buf)
            if bytes(buf) != prefix + data:
                res.violate(f'C01/serialize-into-occupied-buffer:{key}',
                            f'prefix {len(prefix)} bytes: {bytes(buf).hex()[:160]} != {(prefix + data).hex()[:160]}')
                break
        except Exception as exc:
            res.violate(f'C01/serialize-into-raises:{key}:{type(exc).__name__}', repr(exc))
            break
    # (9) a stream of frames through the reader of a real connection
    if not (group == 'server' and kind == 'Request') and group != 'peer_init':
        modes = ['plain'] if group == 'server' else (['plain', 'obf'] if group == 'peer' else ['plain', 'obf-init'])
        for mode in modes:
            try:
                out = _stream_roundtrip(group, obj, data, okey, mode)
            except Exception as exc:
                res.violate(f'C01/stream-raises:{group}:{mode}:{type(exc).__name__}', f'{key} {exc!r}')
                continue
            if isinstance(out, str):
                res.violate(f'C01/stream-framing:{group}:{mode}', f'{key}: {out}')
            else:
                _, got = msgbridge.from_obj(out)
                if _norm_fields(fields, got) != want:
                    res.violate(f'C01/stream-value:{key}:{mode}', f'{got} != {want}')
            res.label('stream:' + mode)
    # (10) second use of the same message object: serialize() again, then after the object was changed
    # (the second value: 'alt' of the document if it has one, else one of the four boundary documents of the class,
    # picked by the size of the first value)
    alt = case.get('alt')
    if not _values_in_domain(key, alt):
        if key not in _ALT_CACHE:
            _ALT_CACHE[key] = [b['values'] for b in _boundary_cases(key)]
        alts = _ALT_CACHE[key]
        alt = alts[(len(data) + len(values)) % len(alts)]
        if alt == values:
            alt = alts[(len(data) + len(values) + 1) % len(alts)]
        if not _values_in_domain(key, alt):
            alt = None
    _second_use(res, key, values, alt)
    # (11) a decode does not depend on what happened to the results of earlier decodes
    _decode_independence(res, key, data, want)
    res.nontrivial = len(ref_payload) > 0 and any(ref_payload)
    if any(v is None for v in values.values()):
        res.label('has-absent-field')
    if any(isinstance(v, list) and len(v) > 1 for v in values.values()):
        res.label('array>1')
    if any(isinstance(v, str) and any(ord(c) > 127 for c in v) for v in values.values()):
        res.label('non-ascii')


def run_obf_case(case, res: CaseResult):
    from aioslsk.protocol import obfuscation
    key = bytes.fromhex(case.get('obf_key', '00000000'))[:4].ljust(4, b'\0')
    data = bytes.fromhex(case.get('data', ''))[:600]
    res.label('obf')
    enc = obfuscation.encode(data, key=key)
    ref = wire_ref.obf_encode(data, key)
    if enc[:4] != key:
        res.violate('C01/obfuscation-key-prefix', f'key={key.hex()}')
    if enc != ref:
        first = next((i for i in range(min(len(enc), len(ref))) if enc[i] != ref[i]), None)
        res.violate('C01/obfuscation-encode', f'key={key.hex()} len={len(data)} first_diff={first}')
    dec = obfuscation.decode(ref)
    if dec != data:
        first = next((i for i in range(min(len(dec), len(data))) if dec[i] != data[i]), None)
        res.violate('C01/obfuscation-decode', f'key={key.hex()} len={len(data)} first_diff={first}')
    if obfuscation.decode(enc) != data:
        res.violate('C01/obfuscation-roundtrip', f'key={key.hex()} len={len(data)}')
    enc2 = obfuscation.encode(data)
    if len(enc2) != len(data) + 4 or wire_ref.obf_decode(enc2) != data:
        res.violate('C01/obfuscation-generated-key', f'len={len(data)}')
    res.nontrivial = len(data) > 4
    if len(data) > 128:
        res.label('obf>128')


FUZZ_TARGETS = [('server', 'Response'), ('server', 'Request'), ('peer', 'Request'), ('distributed', 'Request'),
                ('peer_init', 'Request')]


def run_raw_case(case, res: CaseResult):
    """Replay of a coverage-guided fuzzing finding: raw frame body, metamorphic oracle (no atheris needed)."""
    import struct
    group, kind = case.get('group'), case.get('kind')
    if (group, kind) not in FUZZ_TARGETS:
        return
    try:
        body = bytes.fromhex(case.get('hex', ''))[:4096]
    except ValueError:
        return
    frame = struct.pack('<I', len(body)) + body
    res.label('raw:' + group)
    try:
        m = _dispatch_live(group, kind, frame)
    except Exception:
        res.label('raw:rejected')
        return
    name = type(m).__qualname__
    try:
        e1 = m.serialize()
    except struct.error as exc:
        if group != 'peer_init':
            res.violate(f'C01/raw:reencode-raises:{name}', repr(exc))
        return
    except Exception as exc:
        res.violate(f'C01/raw:reencode-raises:{name}:{type(exc).__name__}', repr(exc))
        return
    try:
        m2 = _dispatch_live(group, kind, e1)
    except Exception as exc:
        res.violate(f'C01/raw:decode-of-own-encoding-raises:{name}', repr(exc))
        return
    if m2 != m or type(m2) is not type(m):
        res.violate(f'C01/raw:decode-encode-not-identity:{name}', f'{m!r:.300} vs {m2!r:.300}')
        return
    if not wire_ref.BY_KEY.get(msgbridge.key_of(m), {}).get('compressed'):
        if m2.serialize() != e1:
            res.violate(f'C01/raw:reencode-not-stable:{name}', '')
        if struct.unpack_from('<I', e1, 0)[0] != len(e1) - 4:
            res.violate(f'C01/raw:length-prefix:{name}', '')
    res.nontrivial = True



# ---------------------------------------------------------------------------
# (9) framing through a real connection object: the reader loop has to find the frame boundaries of a stream of
# several messages, plain, obfuscated, and on a distributed connection that starts obfuscated (init message) and
# goes on in plain, the way Network.on_peer_accepted drives it

_STREAM_LOOP = None


class _RecNet:
    def __init__(self):
        self.messages = []
        self.states = []

    async def on_message_received(self, message, connection):
        self.messages.append(message)

    async def on_state_changed(self, state, connection, close_reason=None):
        self.states.append(state)

    async def on_peer_accepted(self, connection):
        pass


def _stream_roundtrip(group, obj, data, okey, mode):
    """Feeds [init] + 2 x the frame + a probe frame through the reader of a real connection.
    Returns (error text | None)."""
    global _STREAM_LOOP
    import asyncio
    from aioslsk.network.connection import ConnectionState, PeerConnection, PeerConnectionState, ServerConnection
    from aioslsk.protocol import messages as M
    if _STREAM_LOOP is None or _STREAM_LOOP.is_closed():
        _STREAM_LOOP = asyncio.new_event_loop()
    loop = _STREAM_LOOP
    net = _RecNet()
    if group == 'server':
        probe = M.GetUserStatus.Response('probe', 1, False)
    elif group == 'peer':
        probe = M.PeerPlaceInQueueReply.Request('probe', 3)
    else:
        probe = M.DistributedBranchLevel.Request(7)
    probe_data = probe.serialize()

    async def main():
        reader = asyncio.StreamReader()
        if group == 'server':
            conn = ServerConnection('h', 1, net, obfuscated=False)
            conn._reader = reader
            conn.state = ConnectionState.CONNECTED
            wire = data + data + probe_data
            reader.feed_data(wire)
            conn.start_reader_task()
        else:
            typ = 'D' if group == 'distributed' else 'P'
            obf_conn = mode in ('obf', 'obf-init')
            conn = PeerConnection('h', 1, net, obfuscated=obf_conn, connection_type='P', incoming=True)
            conn._reader = reader
            conn.state = ConnectionState.CONNECTED
            init = M.PeerInit.Request('someone', typ, 0).serialize()
            frames_obf = obf_conn and typ == 'P'
            enc = (lambda b: wire_ref.obf_encode(b, okey)) if frames_obf else (lambda b: b)
            wire = (wire_ref.obf_encode(init, okey) if obf_conn else init) + enc(data) + enc(data) + enc(probe_data)
            reader.feed_data(wire)
            first = await conn.receive_message_object()
            if not isinstance(first, M.PeerInit.Request) or first.typ != typ:
                return f'init message not read back: {first!r}'
            conn.connection_type = first.typ
            conn.username = first.username
            conn.set_connection_state(PeerConnectionState.ESTABLISHED)
        for _ in range(60):
            if len(net.messages) >= 3 or conn._reader_task is None or conn._reader_task.done():
                break
            await asyncio.sleep(0)
        alive = conn._reader_task is not None and not conn._reader_task.done()
        got = list(net.messages)
        if conn._reader_task is not None:
            conn._reader_task.cancel()
            try:
                await conn._reader_task
            except BaseException:
                pass
        if len(got) != 3:
            return f'{len(got)} of 3 messages delivered (reader alive={alive}, state={conn.state})'
        if got[2] != probe:
            return f'probe frame decoded as {got[2]!r}'
        if type(got[0]) is not type(obj) or got[0] != got[1]:
            return f'frames decoded as {type(got[0]).__qualname__} / {type(got[1]).__qualname__}'
        return got[0]

    return loop.run_until_complete(main())


# ---------------------------------------------------------------------------
# (10) 'wire' tier: frames on the wire of a REAL connection under write back pressure.
#
# A real ServerConnection / PeerConnection (plain, obfuscated) is connected over the in-memory TCP layer to a
# scripted Endpoint. Its transport applies back pressure (drain() of every first write suspends for `drain` ms, or
# for ever = 'block'). 1..4 sender tasks put 2..5 messages on that one connection (at least one frame is larger than
# 64 KiB): sequentially (send_message), concurrently (asyncio.gather of send_message calls the way
# Network.send_peer_messages does it, queue_message, queue_messages, several tasks), and with a sender that is
# cancelled / given up by asyncio.wait_for k loop iterations / ms after it started, after which the connection is
# used again. What the Endpoint received is cut into frames by the length prefix only (independent of the library)
# and every frame has to be the reference encoding of one of the messages.

WIRE_CONNS = ('server', 'peer', 'peer-obf')
WIRE_HOST, WIRE_PORT = '30.0.0.1', 2242
WIRE_BIG = 64 * 1024            # 'big': the frame does not fit in 64 KiB
WIRE_MAX_N = {'server': 1_100_000, 'peer': 1_100_000, 'peer-obf': 240_000}   # (obfuscation is per byte in Python)
WIRE_MAX_FILES = 6000
WIRE_MAX_MSGS = 6
WIRE_KINDS = {'server': ('chat', 'search', 'status', 'ping', 'raw', 'gen'),
              'peer': ('userinfo', 'shares', 'queue', 'inforeq', 'raw', 'gen')}
WIRE_VIAS = ('send', 'gather', 'queue', 'queues')
WIRE_GEN_KEYS = {'server': [k for k in KEYS if k.startswith('server:') and k.endswith(':Request')],
                 'peer': [k for k in KEYS if k.startswith('peer:')]}


def _wire_blob(seed: int, n: int) -> bytes:
    """n deterministic incompressible bytes."""
    import hashlib
    return hashlib.shake_128(b'c01-wire-%d' % seed).digest(n) if n > 0 else b''


def _wire_text(seed: int, n: int) -> str:
    text = _wire_blob(seed, n // 2 + 1).hex()[:n]
    if seed % 2 and n >= 8:
        text = 'Zo\xeb 漢\U0001F600 ' + text[7:]
    return text


def _wire_expand(conn, d, idx):
    """Message descriptor -> {'key', 'values'} | {'raw': frame bytes} | None (not a descriptor of this connection).
    The index of the message within the case is part of the value: all non-empty fixed messages of a case differ."""
    import struct
    if not isinstance(d, dict):
        return None
    group = 'server' if conn == 'server' else 'peer'
    k = d.get('k')
    if k not in WIRE_KINDS[group]:
        return None
    n, s = d.get('n', 0), d.get('s', 0)
    if isinstance(n, bool) or not isinstance(n, int) or isinstance(s, bool) or not isinstance(s, int):
        return None
    n = max(0, min(n, WIRE_MAX_N[conn]))
    s = abs(s) % 100000
    if k == 'gen':
        key, values = d.get('key'), d.get('values')
        if key not in WIRE_GEN_KEYS[group] or not _values_in_domain(key, values):
            return None
        return {'key': key, 'values': values}
    if k == 'raw':
        # send_message(bytes): the caller hands over a complete frame
        body = struct.pack('<I', 0xF000 + idx) + _wire_blob(s, n)
        return {'raw': struct.pack('<I', len(body)) + body}
    if k == 'chat':
        return {'key': 'server:RoomChatMessage:Request', 'values': {'room': 'room%d' % idx, 'message': _wire_text(s, n)}}
    if k == 'search':
        return {'key': 'server:FileSearch:Request', 'values': {'ticket': 1000 + idx, 'query': _wire_text(s, n)}}
    if k == 'status':
        return {'key': 'server:SetStatus:Request', 'values': {'status': idx}}
    if k == 'ping':
        return {'key': 'server:Ping:Request', 'values': {}}
    if k == 'userinfo':
        return {'key': 'peer:PeerUserInfoReply:Request', 'values': {
            'description': 'd%d' % s, 'has_picture': True, 'picture': {'$b': _wire_blob(s, n).hex()},
            'upload_slots': idx, 'queue_size': s, 'has_slots_free': bool(s % 2),
            'upload_permissions': (s % 4) if s % 3 else None}}
    if k == 'shares':
        nfiles = min(n, WIRE_MAX_FILES)
        names = _wire_blob(s, 16 * nfiles).hex()
        dirs = []
        for i in range(0, nfiles, 40):
            files = [{'unknown': 1, 'filename': names[32 * j:32 * j + 32] + '.mp3', 'filesize': 1000 + j,
                      'extension': 'mp3', 'attributes': [{'key': 0, 'value': 320}, {'key': 1, 'value': j % 600}]}
                     for j in range(i, min(i + 40, nfiles))]
            dirs.append({'name': 'music\\%d\\%d' % (idx, i), 'files': files})
        return {'key': 'peer:PeerSharesReply:Request',
                'values': {'directories': dirs, 'unknown': idx, 'locked_directories': [] if s % 2 else None}}
    if k == 'queue':
        return {'key': 'peer:PeerPlaceInQueueReply:Request',
                'values': {'filename': 'music\\' + _wire_text(s, min(n, 2000)), 'place': idx}}
    if k == 'inforeq':
        return {'key': 'peer:PeerUserInfoRequest:Request', 'values': {}}
    return None


_REF_DEOBF_CHECKED = False


def _ref_deobf(key4: bytes, data: bytes) -> bytes:
    """Fast form of the reference de-obfuscation (wire_ref.obf_xor walks byte by byte): the reference key stream of
    one 4-byte key has a period of 32 words (a 32-bit rotation by one bit per word), so it is taken once from
    wire_ref and XOR-ed as one big integer. Checked against wire_ref.obf_decode on first use."""
    global _REF_DEOBF_CHECKED

    def fast(k, d):
        n = len(d)
        if not n:
            return b''
        ks = wire_ref.obf_xor(k, bytes(128))
        stream = (ks * (n // 128 + 1))[:n]
        return (int.from_bytes(d, 'little') ^ int.from_bytes(stream, 'little')).to_bytes(n, 'little')

    if not _REF_DEOBF_CHECKED:
        probe = bytes((i * 37 + 11) % 256 for i in range(391))
        for k in (b'\x01\x00\x00\x80', b'\x9a\xbc\xde\xf0', b'\xff\xff\xff\xff'):
            if fast(k, probe) != wire_ref.obf_decode(k + probe):
                raise AssertionError('fast reference de-obfuscation disagrees with wire_ref')
        _REF_DEOBF_CHECKED = True
    return fast(key4, data)


def _lcp(a: bytes, b: bytes) -> int:
    """Length of the longest common prefix."""
    n = min(len(a), len(b))
    if a[:n] == b[:n]:
        return n
    lo, hi = 0, n
    while lo < hi:
        mid = (lo + hi + 1) // 2
        if a[:mid] == b[:mid]:
            lo = mid
        else:
            hi = mid - 1
    return lo


def _wire_wait_spec(spec, default):
    """['steps', k] | ['ms', x] clamped into the sound domain."""
    if not (isinstance(spec, list) and len(spec) == 2 and spec[0] in ('steps', 'ms')):
        return default
    unit, v = spec
    if isinstance(v, bool) or not isinstance(v, (int, float)) or v != v:
        return default
    if unit == 'steps':
        return ['steps', max(0, min(int(v), 60))]
    return ['ms', max(0.0, min(float(v), 20000.0))]


def run_wire_case(case, res: CaseResult):
    import asyncio
    import struct
    from vfw import simloop, simnet
    from aioslsk.exceptions import ConnectionWriteError
    from aioslsk.network.connection import ConnectionState, PeerConnection, PeerConnectionState, ServerConnection

    conn_kind = case.get('conn')
    if conn_kind not in WIRE_CONNS:
        return
    obf = conn_kind == 'peer-obf'
    block = case.get('block') is True
    drain = case.get('drain', 0)
    if isinstance(drain, bool) or not isinstance(drain, (int, float)) or drain != drain or drain <= 0:
        drain = 0.0
    else:
        drain = max(0.5, min(float(drain), 200.0))      # ms
    senders_doc = case.get('senders')
    if not isinstance(senders_doc, list):
        return

    # -- expand the documents --------------------------------------------------------------------------------
    class Entry:
        pass

    entries = []
    senders = []
    for sd in senders_doc[:4]:
        if not isinstance(sd, dict) or sd.get('via') not in WIRE_VIAS or not isinstance(sd.get('msgs'), list):
            continue
        mine = []
        for d in sd['msgs']:
            if len(entries) >= WIRE_MAX_MSGS:
                break
            x = _wire_expand(conn_kind, d, len(entries))
            if x is None:
                continue
            e = Entry()
            e.idx, e.sender, e.desc = len(entries), len(senders), d.get('k')
            if 'raw' in x:
                e.key, e.payload, e.compressed = 'raw-bytes', x['raw'], False
                e.ref = x['raw']
            else:
                e.key = x['key']
                try:
                    e.payload = msgbridge.to_obj(e.key, x['values'])
                except Exception as exc:
                    res.violate(f'C01/construct:{e.key}:{type(exc).__name__}', repr(exc))
                    return
                e.compressed = bool(wire_ref.BY_KEY[e.key]['compressed'])
                if e.compressed:
                    e.ref = None
                    e.ref_code = wire_ref.encode_code(e.key)
                    e.ref_payload = wire_ref.encode_payload(e.key, x['values'])
                else:
                    e.ref = wire_ref.encode(e.key, x['values'])
            e.called = False
            e.outcome = 'not-called'
            e.open_at_call = e.open_at_return = False
            e.overlapped = False
            e.exc = None
            e.task = None
            entries.append(e)
            mine.append(e)
        if not mine:
            continue
        cancel = sd.get('cancel')
        how = sd.get('how') if sd.get('how') in ('cancel', 'wait_for') else 'cancel'
        if cancel is not None:
            cancel = _wire_wait_spec(cancel, None)
            if cancel is not None and how == 'wait_for' and cancel[0] != 'ms':
                how = 'cancel'
        senders.append({'at': _wire_wait_spec(sd.get('at'), ['steps', 0]), 'via': sd['via'], 'msgs': mine,
                        'cancel': cancel, 'how': how})
    if len(entries) < 2:
        return

    probe = Entry()
    probe.idx, probe.sender, probe.desc = len(entries), len(senders), 'probe'
    if conn_kind == 'server':
        probe.key, pv = 'server:GetUserStatus:Request', {'username': 'probeé'}
    else:
        probe.key, pv = 'peer:PeerPlaceInQueueRequest:Request', {'filename': 'probe\\é.mp3'}
    probe.payload = msgbridge.to_obj(probe.key, pv)
    probe.compressed, probe.ref = False, wire_ref.encode(probe.key, pv)
    probe.called, probe.outcome, probe.open_at_call, probe.open_at_return = False, 'not-called', False, False
    probe.overlapped, probe.exc, probe.task = False, None, None

    state = {'inflight': 0, 'paused_until': None, 'writes': 0, 'write_under_pressure': False}

    async def main(loop):
        net = simnet.SimNet(loop).install()
        eps = []
        net.remote_listeners[(WIRE_HOST, WIRE_PORT)] = simnet.Listener('accept', 0.001, eps.append, 0.001)
        stub = _RecNet()
        if conn_kind == 'server':
            conn = ServerConnection(WIRE_HOST, WIRE_PORT, stub)
        else:
            conn = PeerConnection(WIRE_HOST, WIRE_PORT, stub, obfuscated=obf, username='remote', connection_type='P')
        await conn.connect()
        if conn_kind == 'server':
            conn.start_reader_task()
        else:
            conn.set_connection_state(PeerConnectionState.ESTABLISHED)
        ep = eps[0]
        tr = conn._writer.transport
        if block:
            tr.block_writes = True
        elif drain:
            tr.drain_delay = drain / 1000.0

        def tap(link, side, data):      # (labels only) a write that meets a transport that is applying back pressure
            if side != 0:
                return
            state['writes'] += 1
            now = loop.time()
            if state['paused_until'] is not None and now < state['paused_until'] - 1e-9:
                state['write_under_pressure'] = True
            elif block:
                state['paused_until'] = float('inf')
            elif drain:
                state['paused_until'] = now + drain / 1000.0
        ep.link.tap = tap

        async def wait(spec):
            if spec[0] == 'steps':
                await simloop.step(spec[1])
            elif spec[1] > 0:
                await asyncio.sleep(spec[1] / 1000.0)

        def is_open():
            return conn.state == ConnectionState.CONNECTED

        async def one(e):
            e.called = True
            e.open_at_call = is_open()
            e.overlapped = state['inflight'] > 0
            e.outcome = 'pending'
            state['inflight'] += 1
            try:
                await conn.send_message(e.payload)
            except asyncio.CancelledError:
                e.outcome = 'cancelled'
                raise
            except Exception as exc:
                e.outcome = 'raised'
                e.exc = exc
                raise
            else:
                e.outcome = 'ok'
                e.open_at_return = is_open()
            finally:
                state['inflight'] -= 1

        async def work(s):
            via, msgs = s['via'], s['msgs']
            if via == 'send':
                for e in msgs:
                    await one(e)
            elif via == 'gather':       # Network.send_peer_messages / send_server_messages
                await asyncio.gather(*[one(e) for e in msgs])
            else:
                for e in msgs:
                    e.called = True
                    e.open_at_call = is_open()
                    e.overlapped = state['inflight'] > 0
                    e.outcome = 'pending'
                if via == 'queue':
                    for e in msgs:
                        e.task = conn.queue_message(e.payload)
                else:
                    for e, t in zip(msgs, conn.queue_messages(*[e.payload for e in msgs])):
                        e.task = t
                await asyncio.gather(*[e.task for e in msgs])

        async def sender(s):
            await wait(s['at'])
            task = asyncio.ensure_future(work(s))
            if s['cancel'] is not None:
                if s['how'] == 'wait_for':
                    try:
                        await asyncio.wait_for(task, max(s['cancel'][1], 0.001) / 1000.0)
                    except (asyncio.TimeoutError, Exception):
                        pass
                else:
                    await wait(s['cancel'])
                    task.cancel()
            await asyncio.gather(task, return_exceptions=True)

        tasks = [asyncio.ensure_future(sender(s)) for s in senders]
        await asyncio.gather(*tasks, return_exceptions=True)
        # queued messages that outlive their (cancelled / failed) sender
        left = [e.task for e in entries if e.task is not None and not e.task.done()]
        if left:
            await asyncio.wait(left, timeout=15.0)
        for e in entries:
            t = e.task
            if t is None:
                continue
            if not t.done():
                e.outcome = 'pending'
            elif t.cancelled():
                e.outcome = 'cancelled'
            elif t.exception() is not None:
                e.outcome, e.exc = 'raised', t.exception()
            else:
                e.outcome, e.open_at_return = 'ok', is_open()
        # the connection is used once more
        if is_open():
            try:
                await one(probe)
            except Exception:
                pass
        await asyncio.sleep(0.01)
        stream = bytes(ep.inbuf)
        lib_closed = bool(ep.peer_closed) or not is_open()
        await conn.disconnect()
        await asyncio.sleep(0.01)
        return stream, lib_closed

    try:
        (stream, lib_closed), loop_errors = simloop.run_case_on_loop(main, max_iterations=400_000)
    finally:
        simnet.SimNet.uninstall()

    everything = entries + [probe]
    where = f'conn={conn_kind} drain={"block" if block else drain}ms'

    # -- labels ---------------------------------------------------------------------------------------------
    res.label('wire', 'wire:conn=' + conn_kind,
              'wire:drain=' + ('block' if block else ('none' if not drain else ('<=2ms' if drain <= 2 else '>2ms'))))
    for s in senders:
        res.label('wire:via=' + s['via'])
    if len(senders) > 1:
        res.label('wire:senders>1')
    if any(e.overlapped for e in everything):
        res.label('wire:send-started-while-another-send-in-flight')
    if state['write_under_pressure']:
        res.label('wire:write-while-drain-suspended')
    if any(e.outcome == 'cancelled' for e in entries):
        res.label('wire:send-cancelled-in-flight')
    if any(s['cancel'] is not None for s in senders):
        res.label('wire:cancel-planned:' + '+'.join(sorted({s['how'] for s in senders if s['cancel'] is not None})))
    if lib_closed:
        res.label('wire:connection-closed-by-library')

    # -- exceptions -----------------------------------------------------------------------------------------
    for e in everything:
        if e.outcome == 'raised':
            if isinstance(e.exc, ConnectionWriteError) and block:
                res.label('wire:write-timeout')     # documented: the write timed out, the connection is closed
                continue
            res.violate(f'C01/wire:unexpected-exception:{type(e.exc).__name__}@send_message',
                        f'{where}: message #{e.idx} {e.key}: {e.exc!r:.300}')
        elif e.outcome == 'pending' and not block:
            res.violate('C01/wire:send-never-completed', f'{where}: message #{e.idx} {e.key}')
    for err in loop_errors:
        res.violate(f'C01/wire:background-exception:{err.get("exc_type")}', f'{where}: {err}')

    # -- cut the byte stream into frames by the length prefix only ------------------------------------------------
    def lib_plain(e):      # (diagnosis and duplicate detection only; zlib output is deterministic)
        if getattr(e, 'lib', None) is None:
            if isinstance(e.payload, (bytes, bytearray)):
                e.lib = bytes(e.payload)
            else:
                try:
                    e.lib = e.payload.serialize()
                except Exception:
                    e.lib = b''
        return e.lib

    def matches(plain, e):
        if not e.compressed:
            return plain == e.ref
        if len(plain) < 8 or plain[4:8] != e.ref_code:
            return False
        try:
            return zlib.decompress(plain[8:]) == e.ref_payload
        except zlib.error:
            return False

    hdr = 8 if obf else 4
    pos = 0
    consumed = {}          # entry idx -> frame ordinal
    order = []
    big_frames = 0
    failure = None         # (pos, plain bytes from pos on decoded with the key found at pos)
    tail = 0
    while pos < len(stream):
        rest = len(stream) - pos
        if rest < hdr:
            tail = rest
            break
        if obf:
            key4 = stream[pos:pos + 4]
            (n,) = struct.unpack('<I', _ref_deobf(key4, stream[pos + 4:pos + 8]))
        else:
            (n,) = struct.unpack_from('<I', stream, pos)
        if rest < hdr + n:
            tail = rest
            break
        frame = stream[pos:pos + hdr + n]
        plain = _ref_deobf(frame[:4], frame[4:]) if obf else frame
        hit = None
        for e in everything:
            if e.idx not in consumed and matches(plain, e):
                # identical messages are interchangeable: take the one that is next in line for its sender
                if hit is None:
                    hit = e
        if hit is None:
            failure = pos
            break
        consumed[hit.idx] = len(order)
        order.append(hit.idx)
        if len(frame) > WIRE_BIG:
            big_frames += 1
        pos += hdr + n
    if tail and not lib_closed:
        failure = pos
    elif tail:
        # the library closed the connection (write timeout): a truncated last frame is what TCP gives then, but it has
        # to be the beginning of ONE message
        raw_tail = stream[pos:]
        plain_tail = (_ref_deobf(raw_tail[:4], raw_tail[4:]) if obf else raw_tail) if len(raw_tail) > (4 if obf else 0) else b''
        if any(e.idx not in consumed and lib_plain(e)[:len(plain_tail)] == plain_tail for e in everything):
            res.label('wire:truncated-tail-then-eof')
        else:
            failure = pos

    if failure is not None:
        raw_rest = stream[failure:]
        plain_rest = (_ref_deobf(raw_rest[:4], raw_rest[4:]) if obf else raw_rest) if len(raw_rest) >= hdr else b''
        best, best_l, best_len = None, -1, 0
        for e in sorted(everything, key=lambda e: (e.idx in consumed, e.idx)):
            lp = lib_plain(e)
            l = _lcp(plain_rest, lp)
            if l > best_l:
                best, best_l, best_len = e, l, len(lp)
        if best is not None and best_l >= 8 and best_l < best_len:
            # the frame of `best` starts here but other bytes (or nothing) follow before it is complete
            cause = 'cancelled-send-then-connection-reused' if best.outcome == 'cancelled' else 'concurrent-senders'
            follows = len(plain_rest) - best_l
            ending = 'connection that the library closed afterwards' if lib_closed else 'still open connection'
            res.violate(f'C01/wire:frame-not-contiguous:{cause}',
                        f'{where}: at stream offset {failure} the frame of message #{best.idx} ({best.key}, '
                        f'{best_len} bytes, send outcome {best.outcome}) is on the wire for its first {best_l} bytes '
                        f'only, then {follows} other bytes follow on the {ending}: the length prefix '
                        f'({best_len - 4}) is not the number of bytes that belong to the frame; {len(order)} whole '
                        f'frames before it; via={[s["via"] for s in senders]}')
        elif best is not None and best_l == best_len and best_len >= 8:
            if best.idx in consumed:
                res.violate('C01/wire:message-on-the-wire-twice',
                            f'{where}: message #{best.idx} ({best.key}) again at stream offset {failure}')
            else:
                res.violate(f'C01/wire:frame-differs-from-reference:{best.key}',
                            f'{where}: frame at stream offset {failure} is what serialize() gives but not what the '
                            f'pinned layout prescribes')
        else:
            res.violate('C01/wire:unknown-bytes-on-the-wire',
                        f'{where}: at stream offset {failure} ({len(order)} whole frames before): '
                        f'{plain_rest[:24].hex()} matches none of the sent messages '
                        f'(closest #{getattr(best, "idx", None)}, {best_l} bytes in common)')
    else:
        # every frame is one of the messages; now: which ones. Messages with identical bytes are interchangeable: a frame
        # is attributed to a send that is known to have succeeded before one that was cancelled or never started
        groups = {}
        for e in everything:
            groups.setdefault(lib_plain(e), []).append(e)
        for members in groups.values():
            if len(members) < 2:
                continue
            positions = sorted(consumed[e.idx] for e in members if e.idx in consumed)
            for e in members:
                consumed.pop(e.idx, None)

            def rank(e):
                ok = e.outcome == 'ok' and e.open_at_call and e.open_at_return
                return (0 if ok else (1 if e.called else 2), e.idx)
            for e, position in zip(sorted(members, key=rank), positions):
                consumed[e.idx] = position
                order[position] = e.idx
        for e in everything:
            confirmed = e.outcome == 'ok' and e.open_at_call and e.open_at_return
            if confirmed and e.idx not in consumed:
                via = 'probe' if e is probe else senders[e.sender]['via']
                res.violate(f'C01/wire:message-missing:{via}',
                            f'{where}: message #{e.idx} ({e.key}) was sent without error on an open connection but '
                            f'is not on the wire; frames: {order}')
            if not e.called and e.idx in consumed:
                res.violate('C01/wire:unsent-message-on-the-wire', f'{where}: message #{e.idx} ({e.key})')
            if e.outcome == 'cancelled' and e.called:
                res.label('wire:cancelled-send:' + ('whole-frame-on-wire' if e.idx in consumed else 'nothing-on-wire'))
        refs = [lib_plain(e) for e in everything]
        if len(set(refs)) == len(refs):
            for s in senders:
                if s['via'] != 'send':
                    continue
                seq = [consumed[e.idx] for e in s['msgs'] if e.idx in consumed]
                if seq != sorted(seq):
                    res.violate('C01/wire:order-within-one-task',
                                f'{where}: messages {[e.idx for e in s["msgs"]]} sent one after the other by one task '
                                f'are on the wire as {order}')
        else:
            res.label('wire:identical-messages')
    res.label('wire:big-frames=%d' % min(big_frames, 3))
    res.nontrivial = big_frames >= 1 and len(order) >= 2


# -- generators of wire cases ----------------------------------------------------------------------------------

_WIRE_BIG_KINDS = {'server': ('chat', 'search', 'raw'), 'peer': ('userinfo', 'shares', 'raw'),
                   'peer-obf': ('userinfo', 'shares', 'raw')}
_WIRE_SMALL = {'server': ({'k': 'status'}, {'k': 'ping'}, {'k': 'search', 'n': 24}, {'k': 'chat', 'n': 300},
                          {'k': 'raw', 'n': 5}),
               'peer': ({'k': 'queue', 'n': 30}, {'k': 'inforeq'}, {'k': 'userinfo', 'n': 200}, {'k': 'shares', 'n': 3},
                        {'k': 'raw', 'n': 5})}
_WIRE_SIZES = {'server': (66_000, 140_000, 400_000, 1_000_000), 'peer': (66_000, 140_000, 400_000, 1_000_000),
               'peer-obf': (66_000, 100_000, 140_000, 230_000)}
_WIRE_FILES = (2600, 4000)


def _wire_big_desc(conn, i):
    kind = _WIRE_BIG_KINDS[conn][i % 3]
    if kind == 'shares':
        return {'k': 'shares', 'n': _WIRE_FILES[(i // 3) % 2], 's': i}
    return {'k': kind, 'n': _WIRE_SIZES[conn][(i // 3) % 4], 's': i}


def _wire_grid():
    """Deterministic grid: connection x back pressure x sending pattern; the big message rotates through the classes
    and sizes."""
    cases = []
    n = 0
    for conn in WIRE_CONNS:
        group = 'server' if conn == 'server' else 'peer'
        smalls = _WIRE_SMALL[group]
        for drain in (0, 1, 20):
            d = max(drain, 1)
            patterns = [
                # (a) one task, one after the other
                [{'via': 'send', 'msgs': ['s', 'B', 's']}],
                # (b) concurrently: gather (= Network.send_peer_messages), queue_messages, queue_message, several tasks
                [{'via': 'gather', 'msgs': ['B', 's']}],
                [{'via': 'gather', 'msgs': ['s', 'B', 's', 'B']}],
                [{'via': 'queues', 'msgs': ['B', 's', 's']}],
                [{'via': 'queue', 'msgs': ['s', 'B']}, {'via': 'send', 'msgs': ['s'], 'at': ['steps', 2]}],
                [{'via': 'send', 'msgs': ['B']}, {'via': 'send', 'msgs': ['s', 's'], 'at': ['steps', 1 + n % 3]}],
                [{'via': 'send', 'msgs': ['B']}, {'via': 'send', 'msgs': ['s'], 'at': ['ms', d * 1.5]},
                 {'via': 'queue', 'msgs': ['s'], 'at': ['ms', d * 2.5]}],
                [{'via': 'send', 'msgs': ['B']}, {'via': 'send', 'msgs': ['B'], 'at': ['ms', d * 0.5]}],
                # (c) a sender gives up / is cancelled in mid-send, the connection is used again
                [{'via': 'send', 'msgs': ['B'], 'cancel': ['steps', 2]},
                 {'via': 'send', 'msgs': ['s'], 'at': ['ms', d * 3 + 1]}],
                [{'via': 'send', 'msgs': ['B', 's'], 'cancel': ['ms', d * 1.5]},
                 {'via': 'send', 'msgs': ['s'], 'at': ['ms', d * 4]}],
                [{'via': 'send', 'msgs': ['B'], 'cancel': ['ms', d * 0.5], 'how': 'wait_for'},
                 {'via': 'queue', 'msgs': ['s'], 'at': ['ms', d * 2]}],
                [{'via': 'queues', 'msgs': ['B', 's'], 'cancel': ['ms', d * 1.5]}],
                [{'via': 'gather', 'msgs': ['B', 's'], 'cancel': ['steps', 3]},
                 {'via': 'send', 'msgs': ['s'], 'at': ['steps', 5]}],
                [{'via': 'send', 'msgs': ['s', 'B'], 'cancel': ['ms', d * 1.5]}],
            ]
            for pattern in patterns:
                senders = []
                for sd in pattern:
                    sd = dict(sd)
                    msgs = []
                    for m in sd['msgs']:
                        n += 1
                        msgs.append(_wire_big_desc(conn, n) if m == 'B' else dict(smalls[n % len(smalls)], s=n))
                    sd['msgs'] = msgs
                    senders.append(sd)
                cases.append({'t': 'wire', 'conn': conn, 'drain': drain, 'senders': senders})
        # the write never drains: the library's own write timeout (10 s) closes the connection
        for pattern in (
                [{'via': 'send', 'msgs': ['B']}, {'via': 'send', 'msgs': ['s'], 'at': ['ms', 1]},
                 {'via': 'send', 'msgs': ['s'], 'at': ['ms', 11000]}],
                [{'via': 'queues', 'msgs': ['s', 'B']}, {'via': 'send', 'msgs': ['s'], 'at': ['ms', 9999]}],
                [{'via': 'send', 'msgs': ['B'], 'cancel': ['ms', 500]}, {'via': 'send', 'msgs': ['s'], 'at': ['ms', 700]}]):
            senders = []
            for sd in pattern:
                sd = dict(sd)
                msgs = []
                for m in sd['msgs']:
                    n += 1
                    msgs.append(_wire_big_desc(conn, n) if m == 'B' else dict(smalls[n % len(smalls)], s=n))
                sd['msgs'] = msgs
                senders.append(sd)
            cases.append({'t': 'wire', 'conn': conn, 'block': True, 'senders': senders})
    return cases


@st.composite
def wire_case(draw):
    conn = draw(st.sampled_from(WIRE_CONNS))
    group = 'server' if conn == 'server' else 'peer'
    block = draw(st.sampled_from([False] * 13 + [True]))
    drain = draw(st.sampled_from([0, 0.5, 1, 1, 2, 5, 20, 50]))
    d = max(drain, 1)
    nmsgs = draw(st.integers(2, 5))
    big_at = draw(st.integers(0, nmsgs - 1))
    cap = WIRE_MAX_N[conn]
    msgs = []
    for i in range(nmsgs):
        if i == big_at or draw(st.sampled_from([False] * 5 + [True])):
            kind = draw(st.sampled_from(_WIRE_BIG_KINDS[conn]))
            if kind == 'shares':
                size = draw(st.integers(2500, 5000))
            else:
                size = draw(st.sampled_from([65_540, 66_000, 100_000, 131_080, 200_000]) |
                            st.integers(65_600, min(cap, 300_000)) | st.integers(65_600, cap))
            msgs.append({'k': kind, 'n': size, 's': draw(st.integers(0, 999))})
        elif draw(st.booleans()):
            key = draw(st.sampled_from(WIRE_GEN_KEYS[group]))
            mc = draw(message_case(key))
            msgs.append({'k': 'gen', 'key': key, 'values': mc['values']})
        else:
            msgs.append(dict(draw(st.sampled_from(_WIRE_SMALL[group])), s=draw(st.integers(0, 999))))
    nsenders = draw(st.integers(1, min(3, nmsgs)))
    owner = [draw(st.integers(0, nsenders - 1)) for _ in msgs]
    in_ms = st.tuples(st.just('ms'), st.sampled_from([0.25, 0.5, 1, 1.5, 2.5, 5, 17]).map(lambda f: f * d))
    offsets = st.one_of(st.tuples(st.just('steps'), st.integers(0, 6)), in_ms)
    cancel_offsets = st.one_of(st.tuples(st.just('steps'), st.integers(1, 6)), in_ms)
    senders = []
    for j in range(nsenders):
        mine = [m for m, o in zip(msgs, owner) if o == j]
        if not mine:
            continue
        sd = {'via': draw(st.sampled_from(WIRE_VIAS)), 'msgs': mine}
        if senders:
            sd['at'] = list(draw(offsets))
        if draw(st.sampled_from([False, False, True])):
            sd['cancel'] = list(draw(cancel_offsets))
            sd['how'] = draw(st.sampled_from(['cancel', 'cancel', 'wait_for']))
        senders.append(sd)
    case = {'t': 'wire', 'conn': conn, 'senders': senders}
    if block:
        case['block'] = True
    else:
        case['drain'] = drain
    return case


def run_case(case) -> CaseResult:
    res = CaseResult()
    if case.get('t') == 'raw':
        run_raw_case(case, res)
        return res
    if case.get('t') == 'obf':
        run_obf_case(case, res)
    elif case.get('t') == 'msg' and isinstance(case.get('values'), dict):
        run_msg_case(case, res)
    elif case.get('t') == 'wire':
        run_wire_case(case, res)
    return res


# ---------------------------------------------------------------------------

def _boundary_cases(key):
    """Deterministic all-min / all-max / all-present documents per class."""
    fields = wire_ref.BY_KEY[key]['fields']

    def fill(fs, mode, present):
        vals = {}
        for f in fs:
            vals[f['name']] = one(f['type'], f.get('subtype'), mode)
        # conditionals / optionals
        for f in fs:
            if 'if_true' in f and not vals.get(f['if_true']):
                vals[f['name']] = None
            if 'if_false' in f and vals.get(f['if_false']):
                vals[f['name']] = None
            if f.get('optional') and not present:
                vals[f['name']] = None
        return vals

    def one(typ, subtype, mode):
        if typ in wire_ref.INT_RANGE:
            lo, hi = wire_ref.INT_RANGE[typ]
            return lo if mode == 'min' else hi
        if typ == 'boolean':
            return mode == 'max'
        if typ == 'string':
            return '' if mode == 'min' else 'Zoë 漢\U0001F600' * 8
        if typ == 'bytearr':
            return {'$b': '' if mode == 'min' else 'ff00' * 70}
        if typ == 'ipaddr':
            return '0.0.0.0' if mode == 'min' else '255.254.1.0'
        if typ == 'array':
            return [] if mode == 'min' else [one(subtype, None, 'max'), one(subtype, None, 'min')]
        return fill(wire_ref.RECORDS[typ[7:]], mode, True)

    for mode in ('min', 'max'):
        for present in (True, False):
            yield {'t': 'msg', 'key': key, 'values': fill(fields, mode, present), 'obf_key': 'ffffffff'}


def run_shard(ctx):
    per_class = 150 if ctx.tier == 'quick' else 3000
    n_obf = 600 if ctx.tier == 'quick' else 20000
    mine = [k for i, k in enumerate(KEYS) if i % ctx.nshards == ctx.shard]
    # the small deterministic parts first: they are never the ones skipped when a loaded machine eats the budget
    for key in mine:
        for case in _boundary_cases(key):
            ctx.run(case)
    ctx.enumerate(_wire_grid())
    _replay_vectors_raw(ctx)
    ctx.explore(wire_case(), 20 if ctx.tier == 'quick' else 600, salt=7777)
    for i, key in enumerate(mine):
        ctx.explore(message_case(key), per_class, salt=i)
    ctx.explore(obf_case(), n_obf, salt=9999)
    ctx.extra['classes_covered'] = len(mine)
    if ctx.tier == 'thorough' and ctx.shard < len(FUZZ_TARGETS):
        _fuzz_tier(ctx)


def _vector_bodies(group, kind):
    import json
    import os
    path = os.path.join(os.path.dirname(os.path.dirname(os.path.abspath(__file__))), 'pinned', 'vectors.json')
    out = []
    for v in json.load(open(path)):
        g, _, k = v['key'].split(':')
        if (g, k) == (group, kind):
            out.append(bytes.fromhex(v['hex'])[4:])
    return out


def _replay_vectors_raw(ctx):
    """The hand-written vectors as raw frames through the metamorphic oracle (seconds; also the fuzz seed corpus)."""
    for i, (group, kind) in enumerate(FUZZ_TARGETS):
        if i % ctx.nshards != ctx.shard:
            continue
        for body in _vector_bodies(group, kind):
            ctx.run({'t': 'raw', 'group': group, 'kind': kind, 'hex': body.hex()})


def _fuzz_tier(ctx):
    """atheris / libFuzzer on one dispatcher per shard: once from an empty corpus, once from the unit-test vectors."""
    import os
    import shutil
    import subprocess
    import sys
    import tempfile
    group, kind = FUZZ_TARGETS[ctx.shard]
    verif = os.path.dirname(os.path.dirname(os.path.abspath(__file__)))
    runs = int(os.environ.get('VFW_FUZZ_RUNS', '1500000'))
    tmp = tempfile.mkdtemp(prefix='vfw-fuzz-')
    executed = 0
    try:
        for variant in ('empty', 'vectors'):
            art = os.path.join(tmp, 'art-' + variant)
            corpus = os.path.join(tmp, 'corpus-' + variant)
            os.makedirs(corpus)
            if variant == 'vectors':
                for i, body in enumerate(_vector_bodies(group, kind)):
                    with open(os.path.join(corpus, 'v%03d' % i), 'wb') as fh:
                        fh.write(body)
            cmd = [sys.executable, '-m', 'vfw.fuzz_c01', group, kind, str(runs // 2), str(ctx.base_seed), art, corpus]
            try:
                proc = subprocess.run(cmd, cwd=verif, capture_output=True, text=True,
                                      timeout=max(60, ctx.deadline - __import__('time').time()))
                tail = (proc.stderr or '')[-2000:]
            except subprocess.TimeoutExpired:
                ctx.extra['fuzz_timeouts'] = ctx.extra.get('fuzz_timeouts', 0) + 1
                continue
            if 'No module named' in tail and 'atheris' in tail:
                ctx.extra['fuzz_skipped_no_atheris'] = 1
                return
            executed += runs // 2
            if os.path.isdir(art):
                for name in sorted(os.listdir(art)):
                    with open(os.path.join(art, name), 'rb') as fh:
                        body = fh.read()
                    r = ctx.run({'t': 'raw', 'group': group, 'kind': kind, 'hex': body.hex()})
                    if r is not None and not r.violations:
                        # libFuzzer stopped on something our replay does not reproduce: report it as such
                        r2 = CaseResult()
                        r2.violate(f'C01/raw:fuzzer-artifact-not-reproduced:{group}', tail[-300:])
                        ctx.record({'t': 'raw', 'group': group, 'kind': kind, 'hex': body.hex()}, r2)
        ctx.extra['fuzz_executions'] = ctx.extra.get('fuzz_executions', 0) + executed
    finally:
        shutil.rmtree(tmp, ignore_errors=True)


MANIFEST_ENTRY = {
    'technique': 'property-based testing (Hypothesis): layout-driven value generation per message class, round-trip + '
                 'differential against an independent reference codec pinned to the protocol layout; generated send '
                 'schedules (sequential / concurrent / cancelled senders, write back pressure) on a real connection '
                 'over a simulated TCP link with an independent re-framing of the received byte stream',
    'level_text': 'Generated-input exploration: every pinned message class is exercised with boundary-biased values; '
                  'each case is checked against the round trip, the pinned byte layout (independent struct-based '
                  'reference encoder/decoder), the group dispatcher and the connection-level obfuscated path; frames '
                  'larger than 64 KiB are sent through real connections under write back pressure by concurrent and '
                  'cancelled senders and the received byte stream must be a sequence of whole reference frames. No proof: '
                  'absence of a violation is a statement about the generated set reported in the evidence.',
    'level_note': 'Trusted base: pinned/layout.json (validated at setup against 299 hand-written test vectors and 3 '
                  'obfuscation vectors), the reference codec vfw/wire_ref.py, Hypothesis, the virtual loop and in-memory '
                  'TCP layer (vfw/simloop.py, vfw/simnet.py). Compressed payloads are compared after inflate.',
}
