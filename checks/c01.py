"""C01 — wire codec round trip and byte compatibility (DESIGN §3 C01)."""
from __future__ import annotations

import zlib

from hypothesis import strategies as st

from vfw import msgbridge, wire_ref
from vfw.runner import CaseResult

PROPERTY = 'C01'
LEVEL = 'exploration'
RULE = (
    "Cases: (a) per pinned message class, field values drawn from the wire domain of pinned/layout.json "
    "(ints of the field width with boundary bias, int32 incl. negatives, bools, unicode text without surrogates "
    "0..60 chars, blobs, dotted quads, arrays of 0..4 scalars/nested records, conditional fields present iff their "
    "condition holds, trailing optionals with prefix-closed presence) plus an obfuscation key; (b) obfuscation "
    "cases: 4-byte key x payload of length 0..600. Oracles: decode(encode(m)) == m modulo absent optional -> class "
    "default; length prefix; pinned code/width; bytes == independent reference encoder (zlib messages: header "
    "bytewise, payload after inflate); group dispatcher picks the same class/value; reference decoder agrees; "
    "obfuscation == independent rotl-per-word reference both ways; DataConnection.encode/decode_message_data round "
    "trip; serialize_into() on a buffer that already holds bytes (3 junk bytes / a previous frame) appends exactly the "
    "frame; a stream of [init message +] the frame twice + a probe frame fed to the reader of a real ServerConnection / "
    "PeerConnection (plain; peer frames obfuscated; distributed connection accepted obfuscated whose init message is "
    "obfuscated and whose later frames are plain) is delivered as exactly those three messages. Non-trivial = payload non-empty and not all zero bytes (message cases) or payload longer than 4 bytes "
    "(obfuscation cases); distinct = distinct case document. (c) raw frames: the 299 hand-written vectors through the "
    "metamorphic oracle 'if the bytes decode to m then decode(encode(m)) == m and encode(decode(encode(m))) == encode(m)'; "
    "thorough additionally runs atheris (libFuzzer, coverage-guided) on each of the five dispatchers with that oracle, "
    "from an empty corpus and from the vectors (-runs, -seed=VERIF_SEED, fresh corpus directory); findings are replayed "
    "without atheris."
)
ASSUMPTIONS = [
    "pinned/layout.json (extracted once from snapshot ddacc78, reviewed against MESSAGES.rst and validated against "
    "299 hand-written unit-test vectors at setup) is the protocol layout peers expect",
    "encoder preconditions respected by the generator: non-optional fields never None; has_picture => picture not "
    "None; an absent optional is followed only by absent optionals",
    "compressed messages: any valid deflate stream is accepted by peers, so compressed bytes are not pinned",
]
BUDGET_S = {'quick': 120, 'thorough': 1500}

KEYS = sorted(wire_ref.BY_KEY)

# ---------------------------------------------------------------------------
# strategies (driven by the pinned layout only)

_TEXT = st.one_of(
    st.just(''),
    st.text(alphabet=st.characters(min_codepoint=32, max_codepoint=126), max_size=20),
    st.text(alphabet=st.characters(exclude_categories=['Cs']), max_size=60),
    st.text(alphabet=st.sampled_from('aé€漢😀\x00ÿŒ /\\'), min_size=1, max_size=40),
)


_INT_CACHE = {}


def _int_strategy(typ):
    if typ in _INT_CACHE:
        return _INT_CACHE[typ]
    lo, hi = wire_ref.INT_RANGE[typ]
    cands = [lo, lo + 1, hi, hi - 1, 0, 1, 127, 128, 255, 256, 65535, 65536, 2 ** 31 - 1, 2 ** 31,
             2 ** 32 - 1, 2 ** 32, 2 ** 63 - 1, 2 ** 63, 2 ** 64 - 1]
    bounds = sorted({b for b in cands if lo <= b <= hi})
    strat = st.one_of(st.sampled_from(bounds), st.integers(lo, hi), st.integers(max(lo, 0), min(hi, 300)))
    _INT_CACHE[typ] = strat
    return strat


def value_strategy(typ, subtype=None):
    if typ in wire_ref.INT_RANGE:
        return _int_strategy(typ)
    if typ == 'boolean':
        return st.booleans()
    if typ == 'string':
        return _TEXT
    if typ == 'bytearr':
        return st.binary(max_size=80).map(lambda b: {'$b': b.hex()})
    if typ == 'ipaddr':
        return st.tuples(*[st.sampled_from([0, 1, 127, 255]) | st.integers(0, 255)] * 4).map(
            lambda t: '.'.join(map(str, t)))
    if typ == 'array':
        return st.lists(value_strategy(subtype), max_size=4)
    if typ.startswith('record:'):
        return record_strategy(wire_ref.RECORDS[typ[7:]])
    raise ValueError(typ)


@st.composite
def record_strategy(draw, fields):
    return _draw_fields(draw, fields)


def _draw_fields(draw, fields):
    values = {}
    tail_open = True
    for f in fields:
        eligible = True
        if 'if_true' in f:
            eligible = bool(values.get(f['if_true']))
        if 'if_false' in f:
            eligible = not bool(values.get(f['if_false']))
        if not eligible:
            values[f['name']] = None
            continue
        if f.get('optional'):
            present = tail_open and draw(st.booleans())
            if not present:
                tail_open = False
                values[f['name']] = None
                continue
        values[f['name']] = draw(value_strategy(f['type'], f.get('subtype')))
    return values


@st.composite
def message_case(draw, key):
    values = _draw_fields(draw, wire_ref.BY_KEY[key]['fields'])
    obf_key = draw(st.sampled_from(['00000000', 'ffffffff', '01000000', '00000080']) |
                   st.binary(min_size=4, max_size=4).map(bytes.hex))
    return {'t': 'msg', 'key': key, 'values': values, 'obf_key': obf_key}


@st.composite
def obf_case(draw):
    key = draw(st.sampled_from(['00000000', 'ffffffff', '01000000', '00000080', '99abcdef']) |
               st.binary(min_size=4, max_size=4).map(bytes.hex))
    n = draw(st.sampled_from([0, 1, 3, 4, 5, 8, 124, 127, 128, 129, 131, 132, 133, 255, 256, 257, 600]) |
             st.integers(0, 600))
    kind = draw(st.sampled_from(['zero', 'ff', 'seq', 'rand']))
    if kind == 'rand':
        data = draw(st.binary(min_size=n, max_size=n))
    elif kind == 'zero':
        data = bytes(n)
    elif kind == 'ff':
        data = b'\xff' * n
    else:
        data = bytes(i % 251 for i in range(n))
    return {'t': 'obf', 'obf_key': key, 'data': data.hex()}


# ---------------------------------------------------------------------------
# oracle

def _norm(typ, v, subtype=None):
    if v is None:
        return None
    if typ in wire_ref.INT_RANGE:
        return int(v) if isinstance(v, (bool, int)) else v
    if typ == 'boolean':
        if isinstance(v, bool):
            return v
        if isinstance(v, int) and v in (0, 1):
            return bool(v)
        return v
    if typ == 'array':
        return [_norm(subtype, x) for x in v]
    if typ.startswith('record:'):
        return _norm_fields(wire_ref.RECORDS[typ[7:]], v)
    return v


def _norm_fields(fields, values):
    return {f['name']: _norm(f['type'], values.get(f['name']), f.get('subtype')) for f in fields}


def expected_after_roundtrip(key, values):
    """Absent fields decode to the pinned class default."""
    fields = wire_ref.BY_KEY[key]['fields']
    out = {}
    for f in fields:
        if wire_ref.field_present(f, values):
            out[f['name']] = values[f['name']]
        else:
            out[f['name']] = f.get('default')
    return _norm_fields(fields, out)


def _dispatch_live(group, kind, frame):
    from aioslsk.protocol import messages as M
    if group == 'server':
        return M.ServerMessage.deserialize_request(frame) if kind == 'Request' else \
            M.ServerMessage.deserialize_response(frame)
    if group == 'peer_init':
        return M.PeerInitializationMessage.deserialize_request(frame)
    if group == 'peer':
        return M.PeerMessage.deserialize_request(frame)
    return M.DistributedMessage.deserialize_request(frame)


class _FakeNet:
    pass


def _connection_for(group, kind, obfuscated):
    from aioslsk.network.connection import PeerConnection, PeerConnectionState, ServerConnection
    if group == 'server':
        c = ServerConnection('h', 1, _FakeNet(), obfuscated=obfuscated)
        return c
    c = PeerConnection('h', 1, _FakeNet(), obfuscated=obfuscated,
                       connection_type='D' if group == 'distributed' else 'P')
    if group != 'peer_init':
        c.connection_state = PeerConnectionState.ESTABLISHED
    return c


def _in_domain(typ, v, subtype=None) -> bool:
    """Shrunk / replayed documents must stay inside the wire domain."""
    try:
        if typ in wire_ref.INT_RANGE:
            lo, hi = wire_ref.INT_RANGE[typ]
            return isinstance(v, int) and not isinstance(v, bool) and lo <= v <= hi
        if typ == 'boolean':
            return isinstance(v, bool)
        if typ == 'string':
            if not isinstance(v, str):
                return False
            v.encode('utf-8')
            return True
        if typ == 'bytearr':
            bytes.fromhex(v['$b'])
            return True
        if typ == 'ipaddr':
            parts = v.split('.')
            return len(parts) == 4 and all(p.isdigit() and str(int(p)) == p and 0 <= int(p) <= 255 for p in parts)
        if typ == 'array':
            return isinstance(v, list) and all(_in_domain(subtype, x) for x in v)
        if typ.startswith('record:'):
            fs = wire_ref.RECORDS[typ[7:]]
            return isinstance(v, dict) and all(f['name'] in v and _in_domain(f['type'], v[f['name']], f.get('subtype'))
                                               for f in fs)
    except Exception:
        return False
    return False


def run_msg_case(case, res: CaseResult):
    import struct
    key, values = case['key'], case['values']
    if key not in wire_ref.BY_KEY:
        return
    m = wire_ref.BY_KEY[key]
    group, name, kind = key.split(':')
    fields = m['fields']
    # sanitise (shrunk documents): every present field must hold a value
    for f in fields:
        if f['name'] not in values:
            return
        if wire_ref.field_present(f, values):
            if not _in_domain(f['type'], values[f['name']], f.get('subtype')):
                return
        elif values[f['name']] is not None:
            return
    seen_absent = False
    for f in fields:   # prefix-closed optional tail
        if f.get('optional') and ('if_true' not in f or values.get(f['if_true'])) and \
                ('if_false' not in f or not values.get(f['if_false'])):
            if values[f['name']] is None:
                seen_absent = True
            elif seen_absent:
                return
    res.label('group:' + group)
    try:
        obj = msgbridge.to_obj(key, values)
    except Exception as exc:  # constructor refused an in-domain value
        res.violate(f'C01/construct:{key}:{type(exc).__name__}', repr(exc))
        return
    try:
        data = obj.serialize()
    except Exception as exc:
        res.violate(f'C01/serialize-raises:{key}:{type(exc).__name__}', repr(exc))
        return
    hdr = 4 + m['code_width']
    ref = wire_ref.encode(key, values)
    ref_payload = wire_ref.encode_payload(key, values)
    # (2) header
    if len(data) < hdr or struct.unpack_from('<I', data, 0)[0] != len(data) - 4:
        res.violate(f'C01/length-prefix:{key}', data[:16].hex())
        return
    if data[4:hdr] != wire_ref.encode_code(key):
        res.violate(f'C01/code:{key}', data[:hdr].hex())
    # (3) bytes vs the pinned layout
    if m['compressed']:
        try:
            payload = zlib.decompress(data[hdr:])
        except zlib.error as exc:
            res.violate(f'C01/compressed-body-invalid:{key}', repr(exc))
            return
        if payload != ref_payload:
            res.violate(f'C01/bytes-differ-from-layout:{key}', f'{payload.hex()[:200]} != {ref_payload.hex()[:200]}')
    else:
        payload = data[hdr:]
        if data != ref:
            res.violate(f'C01/bytes-differ-from-layout:{key}', f'{data.hex()[:200]} != {ref.hex()[:200]}')
    if len(payload) >= 128:
        res.label('payload>=128')
    want = expected_after_roundtrip(key, values)
    # (1) class round trip
    try:
        back = msgbridge.msg_class(key).deserialize(0, data)
        _, got = msgbridge.from_obj(back)
        got = _norm_fields(fields, got)
        if got != want:
            res.violate(f'C01/roundtrip:{key}', f'{got} != {want}')
        if type(back) is not type(obj):
            res.violate(f'C01/roundtrip-class:{key}', type(back).__qualname__)
    except Exception as exc:
        res.violate(f'C01/deserialize-raises:{key}:{type(exc).__name__}', repr(exc))
    # (4) dispatcher
    try:
        disp = _dispatch_live(group, kind, data)
        if type(disp) is not msgbridge.msg_class(key):
            res.violate(f'C01/dispatch-class:{key}', type(disp).__qualname__)
        else:
            _, got = msgbridge.from_obj(disp)
            if _norm_fields(fields, got) != want:
                res.violate(f'C01/dispatch-value:{key}', f'{got} != {want}')
    except Exception as exc:
        res.violate(f'C01/dispatch-raises:{key}:{type(exc).__name__}', repr(exc))
    # (5) reference decoder on the live bytes
    try:
        refdec = wire_ref.decode(key, data)
        refdec = _norm_fields(fields, {f['name']: refdec.get(f['name'], f.get('default')) for f in fields})
        if refdec != want:
            res.violate(f'C01/ref-decode-differs:{key}', f'{refdec} != {want}')
    except wire_ref.RefDecodeError as exc:
        res.violate(f'C01/ref-decode-rejects:{key}', repr(exc))
    # (7) connection level, plain and obfuscated
    from aioslsk.protocol import obfuscation
    okey = bytes.fromhex(case.get('obf_key', '00000000'))[:4].ljust(4, b'\0')
    for obfuscated in (False, True):
        try:
            conn = _connection_for(group, kind, obfuscated)
            if group == 'server' and kind == 'Request':
                # client only decodes responses: use the encode path + reference de-obfuscation
                enc = conn.encode_message_data(obj)
                plain = wire_ref.obf_decode(enc) if obfuscated else enc
                if plain != data:
                    res.violate(f'C01/conn-encode:{key}:obf={obfuscated}', plain.hex()[:200])
                continue
            enc = conn.encode_message_data(obj)
            plain = wire_ref.obf_decode(enc) if obfuscated else enc
            if plain != data:
                res.violate(f'C01/conn-encode:{key}:obf={obfuscated}', plain.hex()[:200])
            wire = wire_ref.obf_encode(data, okey) if obfuscated else data
            if obfuscated and obfuscation.encode(data, key=okey) != wire:
                res.violate('C01/obfuscation-encode', f'key={okey.hex()} len={len(data)}')
            dec = conn.decode_message_data(wire)
            _, got = msgbridge.from_obj(dec)
            if type(dec) is not msgbridge.msg_class(key) or _norm_fields(fields, got) != want:
                res.violate(f'C01/conn-decode:{key}:obf={obfuscated}', f'{got} != {want}')
        except Exception as exc:
            res.violate(f'C01/conn-raises:{key}:obf={obfuscated}:{type(exc).__name__}', repr(exc))
    # (8) serialize_into appends to whatever the buffer already holds (messages batched into one write)
    for prefix in (b'\x01\x02\x03', data):
        try:
            buf = bytearray(prefix)
            obj.serialize_into(buf, compress=True) if m['compressed'] else obj.serialize_into(buf)
            if bytes(buf) != prefix + data:
                res.violate(f'C01/serialize-into-occupied-buffer:{key}',
                            f'prefix {len(prefix)} bytes: {bytes(buf).hex()[:160]} != {(prefix + data).hex()[:160]}')
                break
        except Exception as exc:
            res.violate(f'C01/serialize-into-raises:{key}:{type(exc).__name__}', repr(exc))
            break
    # (9) a stream of frames through the reader of a real connection
    if not (group == 'server' and kind == 'Request') and group != 'peer_init':
        modes = ['plain'] if group == 'server' else (['plain', 'obf'] if group == 'peer' else ['plain', 'obf-init'])
        for mode in modes:
            try:
                out = _stream_roundtrip(group, obj, data, okey, mode)
            except Exception as exc:
                res.violate(f'C01/stream-raises:{group}:{mode}:{type(exc).__name__}', f'{key} {exc!r}')
                continue
            if isinstance(out, str):
                res.violate(f'C01/stream-framing:{group}:{mode}', f'{key}: {out}')
            else:
                _, got = msgbridge.from_obj(out)
                if _norm_fields(fields, got) != want:
                    res.violate(f'C01/stream-value:{key}:{mode}', f'{got} != {want}')
            res.label('stream:' + mode)
    res.nontrivial = len(ref_payload) > 0 and any(ref_payload)
    if any(v is None for v in values.values()):
        res.label('has-absent-field')
    if any(isinstance(v, list) and len(v) > 1 for v in values.values()):
        res.label('array>1')
    if any(isinstance(v, str) and any(ord(c) > 127 for c in v) for v in values.values()):
        res.label('non-ascii')


def run_obf_case(case, res: CaseResult):
    from aioslsk.protocol import obfuscation
    key = bytes.fromhex(case.get('obf_key', '00000000'))[:4].ljust(4, b'\0')
    data = bytes.fromhex(case.get('data', ''))[:600]
    res.label('obf')
    enc = obfuscation.encode(data, key=key)
    ref = wire_ref.obf_encode(data, key)
    if enc[:4] != key:
        res.violate('C01/obfuscation-key-prefix', f'key={key.hex()}')
    if enc != ref:
        first = next((i for i in range(min(len(enc), len(ref))) if enc[i] != ref[i]), None)
        res.violate('C01/obfuscation-encode', f'key={key.hex()} len={len(data)} first_diff={first}')
    dec = obfuscation.decode(ref)
    if dec != data:
        first = next((i for i in range(min(len(dec), len(data))) if dec[i] != data[i]), None)
        res.violate('C01/obfuscation-decode', f'key={key.hex()} len={len(data)} first_diff={first}')
    if obfuscation.decode(enc) != data:
        res.violate('C01/obfuscation-roundtrip', f'key={key.hex()} len={len(data)}')
    enc2 = obfuscation.encode(data)
    if len(enc2) != len(data) + 4 or wire_ref.obf_decode(enc2) != data:
        res.violate('C01/obfuscation-generated-key', f'len={len(data)}')
    res.nontrivial = len(data) > 4
    if len(data) > 128:
        res.label('obf>128')


FUZZ_TARGETS = [('server', 'Response'), ('server', 'Request'), ('peer', 'Request'), ('distributed', 'Request'),
                ('peer_init', 'Request')]


def run_raw_case(case, res: CaseResult):
    """Replay of a coverage-guided fuzzing finding: raw frame body, metamorphic oracle (no atheris needed)."""
    import struct
    group, kind = case.get('group'), case.get('kind')
    if (group, kind) not in FUZZ_TARGETS:
        return
    try:
        body = bytes.fromhex(case.get('hex', ''))[:4096]
    except ValueError:
        return
    frame = struct.pack('<I', len(body)) + body
    res.label('raw:' + group)
    try:
        m = _dispatch_live(group, kind, frame)
    except Exception:
        res.label('raw:rejected')
        return
    name = type(m).__qualname__
    try:
        e1 = m.serialize()
    except struct.error as exc:
        if group != 'peer_init':
            res.violate(f'C01/raw:reencode-raises:{name}', repr(exc))
        return
    except Exception as exc:
        res.violate(f'C01/raw:reencode-raises:{name}:{type(exc).__name__}', repr(exc))
        return
    try:
        m2 = _dispatch_live(group, kind, e1)
    except Exception as exc:
        res.violate(f'C01/raw:decode-of-own-encoding-raises:{name}', repr(exc))
        return
    if m2 != m or type(m2) is not type(m):
        res.violate(f'C01/raw:decode-encode-not-identity:{name}', f'{m!r:.300} vs {m2!r:.300}')
        return
    if not wire_ref.BY_KEY.get(msgbridge.key_of(m), {}).get('compressed'):
        if m2.serialize() != e1:
            res.violate(f'C01/raw:reencode-not-stable:{name}', '')
        if struct.unpack_from('<I', e1, 0)[0] != len(e1) - 4:
            res.violate(f'C01/raw:length-prefix:{name}', '')
    res.nontrivial = True



# ---------------------------------------------------------------------------
# (9) framing through a real connection object: the reader loop has to find the frame boundaries of a stream of
# several messages, plain, obfuscated, and on a distributed connection that starts obfuscated (init message) and
# goes on in plain, the way Network.on_peer_accepted drives it

_STREAM_LOOP = None


class _RecNet:
    def __init__(self):
        self.messages = []
        self.states = []

    async def on_message_received(self, message, connection):
        self.messages.append(message)

    async def on_state_changed(self, state, connection, close_reason=None):
        self.states.append(state)

    async def on_peer_accepted(self, connection):
        pass


def _stream_roundtrip(group, obj, data, okey, mode):
    """Feeds [init] + 2 x the frame + a probe frame through the reader of a real connection.
    Returns (error text | None)."""
    global _STREAM_LOOP
    import asyncio
    from aioslsk.network.connection import ConnectionState, PeerConnection, PeerConnectionState, ServerConnection
    from aioslsk.protocol import messages as M
    if _STREAM_LOOP is None or _STREAM_LOOP.is_closed():
        _STREAM_LOOP = asyncio.new_event_loop()
    loop = _STREAM_LOOP
    net = _RecNet()
    if group == 'server':
        probe = M.GetUserStatus.Response('probe', 1, False)
    elif group == 'peer':
        probe = M.PeerPlaceInQueueReply.Request('probe', 3)
    else:
        probe = M.DistributedBranchLevel.Request(7)
    probe_data = probe.serialize()

    async def main():
        reader = asyncio.StreamReader()
        if group == 'server':
            conn = ServerConnection('h', 1, net, obfuscated=False)
            conn._reader = reader
            conn.state = ConnectionState.CONNECTED
            wire = data + data + probe_data
            reader.feed_data(wire)
            conn.start_reader_task()
        else:
            typ = 'D' if group == 'distributed' else 'P'
            obf_conn = mode in ('obf', 'obf-init')
            conn = PeerConnection('h', 1, net, obfuscated=obf_conn, connection_type='P', incoming=True)
            conn._reader = reader
            conn.state = ConnectionState.CONNECTED
            init = M.PeerInit.Request('someone', typ, 0).serialize()
            frames_obf = obf_conn and typ == 'P'
            enc = (lambda b: wire_ref.obf_encode(b, okey)) if frames_obf else (lambda b: b)
            wire = (wire_ref.obf_encode(init, okey) if obf_conn else init) + enc(data) + enc(data) + enc(probe_data)
            reader.feed_data(wire)
            first = await conn.receive_message_object()
            if not isinstance(first, M.PeerInit.Request) or first.typ != typ:
                return f'init message not read back: {first!r}'
            conn.connection_type = first.typ
            conn.username = first.username
            conn.set_connection_state(PeerConnectionState.ESTABLISHED)
        for _ in range(60):
            if len(net.messages) >= 3 or conn._reader_task is None or conn._reader_task.done():
                break
            await asyncio.sleep(0)
        alive = conn._reader_task is not None and not conn._reader_task.done()
        got = list(net.messages)
        if conn._reader_task is not None:
            conn._reader_task.cancel()
            try:
                await conn._reader_task
            except BaseException:
                pass
        if len(got) != 3:
            return f'{len(got)} of 3 messages delivered (reader alive={alive}, state={conn.state})'
        if got[2] != probe:
            return f'probe frame decoded as {got[2]!r}'
        if type(got[0]) is not type(obj) or got[0] != got[1]:
            return f'frames decoded as {type(got[0]).__qualname__} / {type(got[1]).__qualname__}'
        return got[0]

    return loop.run_until_complete(main())


def run_case(case) -> CaseResult:
    res = CaseResult()
    if case.get('t') == 'raw':
        run_raw_case(case, res)
        return res
    if case.get('t') == 'obf':
        run_obf_case(case, res)
    elif case.get('t') == 'msg' and isinstance(case.get('values'), dict):
        run_msg_case(case, res)
    return res


# ---------------------------------------------------------------------------

def _boundary_cases(key):
    """Deterministic all-min / all-max / all-present documents per class."""
    fields = wire_ref.BY_KEY[key]['fields']

    def fill(fs, mode, present):
        vals = {}
        for f in fs:
            vals[f['name']] = one(f['type'], f.get('subtype'), mode)
        # conditionals / optionals
        for f in fs:
            if 'if_true' in f and not vals.get(f['if_true']):
                vals[f['name']] = None
            if 'if_false' in f and vals.get(f['if_false']):
                vals[f['name']] = None
            if f.get('optional') and not present:
                vals[f['name']] = None
        return vals

    def one(typ, subtype, mode):
        if typ in wire_ref.INT_RANGE:
            lo, hi = wire_ref.INT_RANGE[typ]
            return lo if mode == 'min' else hi
        if typ == 'boolean':
            return mode == 'max'
        if typ == 'string':
            return '' if mode == 'min' else 'Zoë 漢\U0001F600' * 8
        if typ == 'bytearr':
            return {'$b': '' if mode == 'min' else 'ff00' * 70}
        if typ == 'ipaddr':
            return '0.0.0.0' if mode == 'min' else '255.254.1.0'
        if typ == 'array':
            return [] if mode == 'min' else [one(subtype, None, 'max'), one(subtype, None, 'min')]
        return fill(wire_ref.RECORDS[typ[7:]], mode, True)

    for mode in ('min', 'max'):
        for present in (True, False):
            yield {'t': 'msg', 'key': key, 'values': fill(fields, mode, present), 'obf_key': 'ffffffff'}


def run_shard(ctx):
    per_class = 150 if ctx.tier == 'quick' else 3000
    n_obf = 600 if ctx.tier == 'quick' else 20000
    mine = [k for i, k in enumerate(KEYS) if i % ctx.nshards == ctx.shard]
    for key in mine:
        for case in _boundary_cases(key):
            ctx.run(case)
    for i, key in enumerate(mine):
        ctx.explore(message_case(key), per_class, salt=i)
    ctx.explore(obf_case(), n_obf, salt=9999)
    ctx.extra['classes_covered'] = len(mine)
    _replay_vectors_raw(ctx)
    if ctx.tier == 'thorough' and ctx.shard < len(FUZZ_TARGETS):
        _fuzz_tier(ctx)


def _vector_bodies(group, kind):
    import json
    import os
    path = os.path.join(os.path.dirname(os.path.dirname(os.path.abspath(__file__))), 'pinned', 'vectors.json')
    out = []
    for v in json.load(open(path)):
        g, _, k = v['key'].split(':')
        if (g, k) == (group, kind):
            out.append(bytes.fromhex(v['hex'])[4:])
    return out


def _replay_vectors_raw(ctx):
    """The hand-written vectors as raw frames through the metamorphic oracle (seconds; also the fuzz seed corpus)."""
    for i, (group, kind) in enumerate(FUZZ_TARGETS):
        if i % ctx.nshards != ctx.shard:
            continue
        for body in _vector_bodies(group, kind):
            ctx.run({'t': 'raw', 'group': group, 'kind': kind, 'hex': body.hex()})


def _fuzz_tier(ctx):
    """atheris / libFuzzer on one dispatcher per shard: once from an empty corpus, once from the unit-test vectors."""
    import os
    import shutil
    import subprocess
    import sys
    import tempfile
    group, kind = FUZZ_TARGETS[ctx.shard]
    verif = os.path.dirname(os.path.dirname(os.path.abspath(__file__)))
    runs = int(os.environ.get('VFW_FUZZ_RUNS', '1500000'))
    tmp = tempfile.mkdtemp(prefix='vfw-fuzz-')
    executed = 0
    try:
        for variant in ('empty', 'vectors'):
            art = os.path.join(tmp, 'art-' + variant)
            corpus = os.path.join(tmp, 'corpus-' + variant)
            os.makedirs(corpus)
            if variant == 'vectors':
                for i, body in enumerate(_vector_bodies(group, kind)):
                    with open(os.path.join(corpus, 'v%03d' % i), 'wb') as fh:
                        fh.write(body)
            cmd = [sys.executable, '-m', 'vfw.fuzz_c01', group, kind, str(runs // 2), str(ctx.base_seed), art, corpus]
            try:
                proc = subprocess.run(cmd, cwd=verif, capture_output=True, text=True,
                                      timeout=max(60, ctx.deadline - __import__('time').time()))
                tail = (proc.stderr or '')[-2000:]
            except subprocess.TimeoutExpired:
                ctx.extra['fuzz_timeouts'] = ctx.extra.get('fuzz_timeouts', 0) + 1
                continue
            if 'No module named' in tail and 'atheris' in tail:
                ctx.extra['fuzz_skipped_no_atheris'] = 1
                return
            executed += runs // 2
            if os.path.isdir(art):
                for name in sorted(os.listdir(art)):
                    with open(os.path.join(art, name), 'rb') as fh:
                        body = fh.read()
                    r = ctx.run({'t': 'raw', 'group': group, 'kind': kind, 'hex': body.hex()})
                    if r is not None and not r.violations:
                        # libFuzzer stopped on something our replay does not reproduce: report it as such
                        r2 = CaseResult()
                        r2.violate(f'C01/raw:fuzzer-artifact-not-reproduced:{group}', tail[-300:])
                        ctx.record({'t': 'raw', 'group': group, 'kind': kind, 'hex': body.hex()}, r2)
        ctx.extra['fuzz_executions'] = ctx.extra.get('fuzz_executions', 0) + executed
    finally:
        shutil.rmtree(tmp, ignore_errors=True)


MANIFEST_ENTRY = {
    'technique': 'property-based testing (Hypothesis): layout-driven value generation per message class, round-trip + '
                 'differential against an independent reference codec pinned to the protocol layout',
    'level_text': 'Generated-input exploration: every pinned message class is exercised with boundary-biased values; '
                  'each case is checked against the round trip, the pinned byte layout (independent struct-based '
                  'reference encoder/decoder), the group dispatcher and the connection-level obfuscated path. No proof: '
                  'absence of a violation is a statement about the generated set reported in the evidence.',
    'level_note': 'Trusted base: pinned/layout.json (validated at setup against 299 hand-written test vectors and 3 '
                  'obfuscation vectors), the reference codec vfw/wire_ref.py, Hypothesis. Compressed payloads are '
                  'compared after inflate.',
}
