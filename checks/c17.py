"""C17 — transfers survive a restart (DESIGN §3 C17, Appendix A "C17 fields compared")."""
from __future__ import annotations

import asyncio
import copy
import dbm
import hashlib
import os
import pickle
import shutil
import tempfile

from hypothesis import strategies as st

from vfw import simloop
from vfw.runner import CaseResult

PROPERTY = 'C17'
LEVEL = 'exploration'
RULE = (
    "Case (a deterministic function of one Hypothesis-drawn 64-bit integer) = an old cache (0..8 records; 'legacy' "
    "records are written by the harness as raw pickles whose state dict lacks abort_reason and/or carries "
    "_offset/bytes_written/bytes_read; in 10% of the cases the repository's own tests/unit/resources/data/transfers.* "
    "shelve is the seed), modern initial transfers added to a real TransferManager, and a history of 0..8 ops from "
    "{write (store_data), stop (the session is a real, never connected SoulSeekClient on the same cache directory and "
    "ends by the real SoulSeekClient.stop(); in a third of these its shares cache write raises OSError -- whatever "
    "stop() raises, the transfer cache must then hold the manager's transfers; followed by a restart with a new "
    "object or, in a third, by load_data() on the SAME client object, which must still list each transfer exactly "
    "once), restart "
    "(fresh manager + load_data on the same directory WITHOUT a write: the process can end at any point, the last "
    "written snapshot counts; in a third a transfer equal to a persisted one is requested on the new object through "
    "download()/add() BEFORE the load and must be listed once afterwards), outage (the process is killed and the next one starts while the cache cannot be read: "
    "data directory renamed away / replaced by a regular file / shelve.open raising EACCES; it optionally adds a "
    "transfer, the cache becomes reachable again and the session writes it, then a restart), set (put a live transfer into another state / field combination, with the pending "
    "task and speed log a running client would hold), remove (TransferManager.remove), add}; a final restart always "
    "follows. Transfers range over all 10 states x 2 directions x filesize {None,0,1,7,100,2^32+1} x progress "
    "{0,1,size-1,size/2,size} x fail/abort reasons x local path x remotely_queued x place_in_queue x start/complete "
    "times; user names over {a,b} (1..3 chars), remote paths over {a,b,\\} (1..4 chars); 60% of the "
    "collision-allowing cases draw (user,path) as different splits of one string, others share users and paths. "
    "Oracle (fields of DESIGN Appendix A only): a fresh cache.read() after every write is a permutation of the live "
    "list by (user, path, direction), each exactly once, removed ones gone, persisted fields equal (ABORTED with "
    "missing/None abort_reason reads as 'Requested', as the unit tests pin); after every restart manager.transfers "
    "equals the last written snapshot with INITIALIZING->QUEUED, DOWNLOADING/UPLOADING->COMPLETE iff filesize == "
    "bytes_transfered else INCOMPLETE, remotely_queued false, other states and their times unchanged; every loaded "
    "transfer is in manager.transfers once, has the manager as state listener once, an unlocked state lock and a "
    "state object bound to itself. A session that starts with an unreadable cache must either fail to load (nothing "
    "is touched) or, after it wrote the reachable-again cache, the cache must equal what was persisted before plus "
    "what that session added. Every session (process) runs with its own time.monotonic origin drawn from "
    "{0, 5 s, 1 h, 40 d} (lower than the previous one = reboot / cache moved, equal = same boot, higher), and "
    "transfers carry 0, 1, 2 or 30 failed remote-queue / upload-request attempts stamped with the monotonic clock of "
    "the session that made them (Transfer.increase_queue_attempts; the stamps are persisted). At the final restart a "
    "FRESH download is added per peer that has a loaded QUEUED/INCOMPLETE download and the manager is started for 1 s "
    "of virtual time (stub network, peer reachable): a management cycle must run, every loaded QUEUED/INCOMPLETE "
    "download must be queued remotely if its fresh twin is (differential), one QUEUED upload per user must be "
    "initialised, and no cancelled manager task may have died with an exception; then one driven state change per loaded transfer must reach "
    "TransferManager.on_transfer_state_changed exactly once with the right old/new states. avoid_collision cases "
    "(half) drop, inside run_case, any transfer whose user+path concatenation equals that of a different transfer "
    "seen earlier in the case, so the space behind the key-collision finding is explored; a case stops being "
    "evaluated at its first violating comparison (model and system have diverged). Non-trivial = a persisted "
    "snapshot holds an in-progress state or two transfers sharing a user, a path, or a user+path prefix; distinct = "
    "distinct case document."
)
ASSUMPTIONS = [
    "transfer identity is (username, remote_path, direction) (Transfer.__eq__; TransferManager.add de-duplicates on "
    "it), so generated lists never hold two transfers with the same triple",
    "DOWNLOADING only occurs on downloads and UPLOADING only on uploads (the other pairing is mapped onto it); "
    "bytes_transfered <= filesize whenever filesize is known; user names and paths are non-empty",
    "legacy records are keyed in the old cache exactly like the repository's own legacy shelve (sha256 of "
    "user+path+direction); only the legacy shapes named in the design are generated (no abort_reason, _offset, "
    "bytes_written/bytes_read); a record whose state is ABORTED and whose abort_reason is missing or None reads back "
    "as 'Requested' (pinned by tests/unit/transfer/test_transfer_model.py)",
    "queue-attempt counters, place_in_queue, speed logs and the times of repaired states are outside the property "
    "(DESIGN Appendix A) and not compared",
    "scheduling probe: user status UNKNOWN (not offline), 16 upload slots, network replaced by a stub that accepts "
    "every peer message and never answers; 'one upload per user' (C05) is taken as given; loaded QUEUED uploads and "
    "loaded QUEUED/INCOMPLETE downloads are required to be picked up, downloads only relative to a fresh download of "
    "the same peer added in the same session (1 s window)",
    "time.monotonic has an undefined reference point per process (Python documentation), so a later session may see "
    "any origin; time.monotonic of aioslsk.transfer.model and aioslsk.transfer.manager is the virtual loop clock plus "
    "the session's origin",
    "same-object reload: only 'each exactly once, manager listening once, stable fields equal' is demanded; the state "
    "may be the kept in-memory one or the repaired one (the property speaks of a new client). A transfer requested "
    "before the load is the one that stays listed (TransferManager.add keeps the existing equal transfer)",
    "start-up faults: the cache path is missing, is a regular file, or shelve.open raises PermissionError; an empty "
    "but existing data directory is indistinguishable from a first start and is not generated",
    "shutdown faults: only the store of ANOTHER service (shares cache write) fails; a failing transfer cache write is "
    "outside the property. Client sessions are not started (no management task runs between the generated ops)",
    "state changes between writes are applied by assigning state objects and fields directly (the transition graph "
    "itself is C03's subject); removal goes through TransferManager.remove",
    "the shelve backend is whatever dbm picks in this interpreter (dbm.dumb here); cache directories live on /dev/shm "
    "when available",
]
BUDGET_S = {'quick': 120, 'thorough': 1500}

STATES = ['VIRGIN', 'QUEUED', 'INITIALIZING', 'INCOMPLETE', 'DOWNLOADING', 'UPLOADING', 'COMPLETE', 'FAILED',
          'ABORTED', 'PAUSED']
IN_PROGRESS = ('INITIALIZING', 'DOWNLOADING', 'UPLOADING')
FAIL_REASONS = [None, 'Cancelled', 'Complete', 'Queued', 'File not shared.', 'File read error.', 'Remöte ✓']
ABORT_REASONS = [None, 'Requested', 'Blocked', 'File not shared']
SIZES = [None, 0, 1, 7, 100, 2 ** 32 + 1]
USER_ALPHA = 'ab'
PATH_ALPHA = 'ab\\'
LP_ALPHA = 'xyz/.'
LP_PREFIX = '/nonexistent-c17/dl/'
TIMES = [None, 0.0, 1.0, 3.0, 1700000000.25]
MAX_TRANSFERS = 8
MAX_OPS = 8
ANY = '<any>'
# time.monotonic() has an undefined reference point per process/boot: each session (process) of a case runs with its
# own origin, "uptime at session start", drawn from these values (equal consecutive values = same boot, clock goes on)
UPTIMES = [5.0, 5.0, 3600.0, 40 * 86400.0, 0.0]
TWIN_PATH = '@@c17\\fresh-twin'
PROBE_WINDOW = 1.0
KEY_COLLISION = 'C17/key-collision:user+path-concat'

# ---------------------------------------------------------------------------
# strategy: Hypothesis draws one 64-bit integer; the case document is a deterministic function of it (a private
# random.Random seeded with that integer).  Generating the ~100 fields of a case through individual draws cost as
# much as running the case; shrinking happens on the JSON document (runner), so nothing is lost.

def _gen_text(r, alphabet, lo, hi):
    return ''.join(r.choice(alphabet) for _ in range(r.randint(lo, hi)))


def _gen_fields(r):
    size = r.choice(SIZES)
    if size is None:
        done = r.choice([0, 0, 1, 50])
    else:
        done = max(0, min(size, r.choice([0, 1, size - 1, size, size, size // 2])))
    return {
        's': r.choice(STATES + list(IN_PROGRESS) * 2 + ['QUEUED']),
        'size': size,
        'done': done,
        'lp': None if r.random() < 0.4 else _gen_text(r, LP_ALPHA, 1, 4),
        'fr': r.choice(FAIL_REASONS),
        'ar': r.choice(ABORT_REASONS),
        'rq': r.random() < 0.5,
        'piq': r.choice([None, 0, 3]),
        'st': r.choice(TIMES),
        'ct': r.choice(TIMES),
        'qa': r.choice([0, 0, 1, 2, 30]),
    }


def _gen_transfer(r, pool, legacy_ok):
    if pool and r.random() < 0.8:
        u, p = r.choice(pool)
    else:
        u, p = _gen_text(r, USER_ALPHA, 1, 3), _gen_text(r, PATH_ALPHA, 1, 4)
    rec = {'u': u, 'p': p, 'd': r.randint(0, 1)}
    rec.update(_gen_fields(r))
    rec['legacy'] = r.choice([0, 0, 1, 2, 3]) if legacy_ok else 0
    return rec


def _gen_case(seed):
    import random
    r = random.Random(seed)
    avoid = r.random() < 0.5
    mode = r.choice(['shared', 'free']) if avoid else r.choice(['splits', 'splits', 'splits', 'shared', 'free'])
    pool = []
    if mode == 'splits':
        # different splits of one string: distinct (user, path) pairs with equal concatenation
        for _ in range(r.randint(1, 2)):
            run = _gen_text(r, USER_ALPHA, 2, 3)
            base = run + _gen_text(r, PATH_ALPHA, 0, 2)
            pool.extend((base[:i], base[i:]) for i in range(1, len(run) + 1) if i < len(base))
    elif mode == 'shared':
        users = [_gen_text(r, USER_ALPHA, 1, 3) for _ in range(r.randint(1, 2))]
        paths = [_gen_text(r, PATH_ALPHA, 1, 4) for _ in range(r.randint(1, 3))]
        pool = [(u, p) for u in users for p in paths]
    legacy_ok = r.random() < 0.35
    n = r.choice([0, 1, 1, 2, 2, 3, 3, 4, 4, 5, 6, 7, 8])
    transfers = [_gen_transfer(r, pool, legacy_ok) for _ in range(n)]
    ops = []
    for _ in range(r.randint(0, MAX_OPS - 1)):
        kind = r.choice(['write', 'write', 'write', 'restart', 'stop', 'set', 'set', 'set', 'remove', 'add', 'outage'])
        if kind == 'write':
            ops.append([kind])
        elif kind == 'restart':
            # optionally a transfer equal to a persisted one is requested on the new object BEFORE it loads the cache
            ops.append(['restart', r.choice([None, None, r.randint(0, 7)])])
        elif kind == 'outage':
            ops.append(['outage', r.randint(0, 2), _gen_transfer(r, pool, False) if r.random() < 0.5 else None])
        elif kind == 'stop':
            # [fault of the shares cache, 1 = the SAME client object loads the cache again instead of a new one]
            ops.append(['stop', r.choice([0, 0, 1]), r.choice([0, 0, 1])])
        elif kind == 'remove':
            ops.append(['remove', r.randint(0, 7)])
        elif kind == 'add':
            ops.append(['add', _gen_transfer(r, pool, False)])
        else:
            full = _gen_fields(r)
            keys = r.sample(['s', 'size', 'lp', 'fr', 'ar', 'rq', 'st', 'ct', 'qa'], r.randint(1, 3))
            if r.random() < 0.5 and 's' not in keys:
                keys.append('s')
            upd = {k: full[k] for k in sorted(keys)}
            if 'size' in upd:
                upd['done'] = full['done']
            ops.append(['set', r.randint(0, 7), upd])
    if r.random() < 0.75:
        last = r.choice(['write', 'write', 'stop', 'stop'])
        ops.append([last] if last == 'write' else ['stop', r.choice([0, 1]), r.choice([0, 0, 1])])
    return {
        'uptimes': [r.choice(UPTIMES) for _ in range(r.randint(1, 4))],
        'avoid_collision': avoid,
        'seed_repo_cache': r.random() < 0.1,
        'transfers': transfers,
        'ops': ops,
    }


def case_strategy():
    return st.integers(0, 2 ** 64 - 1).map(_gen_case)


# ---------------------------------------------------------------------------
# sanitising (shrunk / replayed documents must stay inside the domain)

def _is_num(v):
    return isinstance(v, (int, float)) and not isinstance(v, bool)


def _clean_fields(raw, partial=False):
    """Return the sanitised field dict or None (record rejected)."""
    if not isinstance(raw, dict):
        return None
    out = {}
    if 's' in raw:
        if raw['s'] not in STATES:
            return None
        out['s'] = raw['s']
    if 'size' in raw:
        v = raw['size']
        if v is not None and not (isinstance(v, int) and not isinstance(v, bool) and 0 <= v <= 2 ** 40):
            return None
        out['size'] = v
    if 'done' in raw:
        v = raw['done']
        if not (isinstance(v, int) and not isinstance(v, bool) and 0 <= v <= 2 ** 40):
            return None
        out['done'] = v
    if 'lp' in raw:
        v = raw['lp']
        if v is not None and not (isinstance(v, str) and 0 < len(v) <= 8 and all(c in LP_ALPHA for c in v)):
            return None
        out['lp'] = v
    if 'fr' in raw:
        if raw['fr'] not in FAIL_REASONS:
            return None
        out['fr'] = raw['fr']
    if 'ar' in raw:
        if raw['ar'] not in ABORT_REASONS:
            return None
        out['ar'] = raw['ar']
    if 'rq' in raw:
        out['rq'] = bool(raw['rq'])
    if 'piq' in raw:
        v = raw['piq']
        out['piq'] = v if (v is None or (isinstance(v, int) and not isinstance(v, bool) and 0 <= v < 10 ** 6)) else None
    for k in ('st', 'ct'):
        if k in raw:
            v = raw[k]
            if v is not None and not (_is_num(v) and 0 <= v <= 4e9):
                return None
            out[k] = None if v is None else float(v)
    if 'qa' in raw:
        v = raw['qa']
        out['qa'] = v if (isinstance(v, int) and not isinstance(v, bool) and 0 <= v < 1000) else 0
    if not partial:
        defaults = {'s': 'VIRGIN', 'size': None, 'done': 0, 'lp': None, 'fr': None, 'ar': None, 'rq': False,
                    'piq': None, 'st': None, 'ct': None, 'qa': 0}
        for k, v in defaults.items():
            out.setdefault(k, v)
    return out


def _clean_transfer(raw):
    if not isinstance(raw, dict):
        return None
    u, p, d = raw.get('u'), raw.get('p'), raw.get('d')
    if not (isinstance(u, str) and 0 < len(u) <= 4 and all(c in USER_ALPHA for c in u)):
        return None
    if not (isinstance(p, str) and 0 < len(p) <= 6 and all(c in PATH_ALPHA for c in p)):
        return None
    if d not in (0, 1) or isinstance(d, bool):
        return None
    out = _clean_fields(raw)
    if out is None:
        return None
    out.update({'u': u, 'p': p, 'd': d})
    lg = raw.get('legacy', 0)
    out['legacy'] = lg if lg in (0, 1, 2, 3) and not isinstance(lg, bool) else 0
    return out


def _normalise(m):
    """Map the record into the sound domain (direction/state pairing, progress <= size)."""
    if m['s'] == 'DOWNLOADING' and m['d'] == 0:
        m['s'] = 'UPLOADING'
    elif m['s'] == 'UPLOADING' and m['d'] == 1:
        m['s'] = 'DOWNLOADING'
    if m['size'] is not None:
        m['done'] = min(m['done'], m['size'])
    return m


def _ident(m):
    return (m['u'], m['p'], m['d'])


def _cache_key(m):
    """The key format of the old cache (same as the repository's legacy shelve)."""
    return hashlib.sha256((m['u'] + m['p'] + str(m['d'])).encode('utf-8')).hexdigest()


# ---------------------------------------------------------------------------
# model

def _lp_full(lp):
    return None if lp is None else LP_PREFIX + lp


def _expect_raw(m):
    """Fields expected from cache.read() for a record written as ``m``."""
    ar = m['ar']
    if m['legacy'] in (1, 3):
        ar = None            # field absent in the pickle
    if ar is None and m['s'] == 'ABORTED':
        ar = 'Requested'
    return {'u': m['u'], 'p': m['p'], 'd': m['d'], 's': m['s'], 'size': m['size'], 'done': m['done'],
            'lp': _lp_full(m['lp']), 'fr': m['fr'], 'ar': ar, 'st': m['st'], 'ct': m['ct']}


def _expect_loaded(m):
    e = _expect_raw(m)
    e['rq'] = False
    if m['s'] == 'INITIALIZING':
        e['s'] = 'QUEUED'
        e['st'] = e['ct'] = ANY
    elif m['s'] in ('DOWNLOADING', 'UPLOADING'):
        e['s'] = 'COMPLETE' if m['size'] == m['done'] else 'INCOMPLETE'
        e['st'] = e['ct'] = ANY
    return e


def _observe(t):
    state = getattr(getattr(t.state, 'VALUE', None), 'name', repr(t.state))
    return {'u': t.username, 'p': t.remote_path, 'd': getattr(t.direction, 'value', t.direction), 's': state,
            'size': getattr(t, 'filesize', '<missing>'), 'done': getattr(t, 'bytes_transfered', '<missing>'),
            'lp': getattr(t, 'local_path', '<missing>'), 'fr': getattr(t, 'fail_reason', '<missing>'),
            'ar': getattr(t, 'abort_reason', '<missing>'), 'rq': getattr(t, 'remotely_queued', '<missing>'),
            'st': getattr(t, 'start_time', '<missing>'), 'ct': getattr(t, 'complete_time', '<missing>')}


def _same(want, got):
    if want is ANY:
        return True
    if isinstance(want, tuple) and want and want[0] == 'one-of':
        return any(_same(w, got) for w in want[1])
    if isinstance(want, bool) or isinstance(got, bool) or want is None or got is None:
        return want is got
    if _is_num(want) and _is_num(got):
        return want == got
    return type(want) is type(got) and want == got


def _progress_tag(m):
    if m['s'] in ('DOWNLOADING', 'UPLOADING'):
        return '[all-bytes]' if m['size'] == m['done'] else '[partial]'
    return ''


# ---------------------------------------------------------------------------
# real objects

def _build(m, runtime=True):
    from aioslsk.transfer.model import Transfer, TransferDirection
    t = Transfer(m['u'], m['p'], TransferDirection(m['d']))
    _apply(t, m, runtime)
    return t


async def _forever():
    await asyncio.sleep(10 ** 6)


def _apply(t, m, runtime=True):
    """Put the real transfer into the modelled condition. With ``runtime`` the run-time-only attributes a live client
    would hold at that point of the transfer's life are set too (a pending task, speed log entries): they must not
    reach the cache."""
    from aioslsk.transfer.state import TransferState
    for attr in ('_transfer_task', '_remotely_queue_task'):
        task = getattr(t, attr, None)
        if task is not None:
            task.cancel()
            setattr(t, attr, None)
    t._speed_log.clear()
    if runtime and m['s'] in IN_PROGRESS:
        t._transfer_task = asyncio.ensure_future(_forever())
        if m['s'] != 'INITIALIZING':
            t._speed_log.append((asyncio.get_event_loop().time(), 10))
    elif runtime and m['s'] == 'QUEUED' and m['d'] == 1 and not m['rq']:
        t._remotely_queue_task = asyncio.ensure_future(_forever())
    t.state = TransferState.init_from_state(TransferState.State[m['s']], t)
    t.filesize = m['size']
    t.bytes_transfered = m['done']
    t.local_path = _lp_full(m['lp'])
    t.fail_reason = m['fr']
    t.abort_reason = m['ar']
    t.remotely_queued = m['rq']
    t.place_in_queue = m['piq']
    t.start_time = m['st']
    t.complete_time = m['ct']
    # failed attempts to queue remotely / to request the upload, stamped with the monotonic clock of *this* session
    # exactly as Transfer.increase_queue_attempts does (the stamps are persisted by __getstate__)
    t.reset_queue_attempts()
    t.reset_upload_request_attempts()
    for _ in range(min(m['qa'], 40)):
        if m['d'] == 1:
            t.increase_queue_attempts()
        else:
            t.increase_upload_request_attempt()


def _legacy_pickle(m):
    """Raw pickle of a Transfer whose state dict has the shape an older release wrote: built from the state dict of
    the current __getstate__ by deleting ``abort_reason`` and/or adding ``_offset``/``bytes_written``/``bytes_read``
    (compare tests/unit/resources/data/transfers.dat), then framed as GLOBAL Transfer, NEWOBJ, <state>, BUILD."""
    t = _build(m, runtime=False)
    state = dict(t.__getstate__())
    if m['legacy'] in (1, 3):
        state.pop('abort_reason', None)
    if m['legacy'] in (2, 3):
        state['_offset'] = m['done'] or None
    if m['legacy'] == 3:
        state['bytes_written'] = 0
        state['bytes_read'] = 0
    body = pickle.dumps(state, protocol=2)
    assert body[:2] == b'\x80\x02' and body[-1:] == b'.'
    return b'\x80\x02' + b'caioslsk.transfer.model\nTransfer\n' + b')' + b'\x81' + body[2:-1] + b'b' + b'.'


class _StubNetwork:
    """Accepts every message, never answers."""

    def __init__(self):
        self.peer_sent = []

    async def send_peer_messages(self, username, *messages, raise_on_error=True):
        for msg in messages:
            self.peer_sent.append((username, msg))
        return [(msg, None) for msg in messages]

    async def send_server_messages(self, *messages, raise_on_error=True):
        return [(msg, None) for msg in messages]

    def queue_server_messages(self, *messages):
        return []

    def create_peer_response_future(self, *args, **kwargs):
        return asyncio.get_event_loop().create_future()


async def _noop(*args, **kwargs):
    return None


_SETTINGS = None


class _SharesCache:
    """Shares cache of a client session; ``fail`` = its location cannot be written at shutdown (quota, read-only)."""

    def __init__(self, fail):
        self.fail = fail
        self.writes = 0

    def read(self):
        return []

    def write(self, shared_directories):
        self.writes += 1
        if self.fail:
            raise OSError(122, 'Disk quota exceeded', 'shares_index')


class _Session:
    """A fresh 'client' on ``directory``. Bare: real TransferManager + UserManager + EventBus + shelve cache and a
    stub network. With ``client_fault`` not None: a real (never connected, services not started) SoulSeekClient whose
    transfer cache is the shelve cache and whose shares cache fails on write iff ``client_fault`` is true; such a
    session ends with the real SoulSeekClient.stop()."""

    def __init__(self, directory, client_fault=None):
        from aioslsk.events import EventBus
        from aioslsk.settings import CredentialsSettings, Settings
        from aioslsk.transfer.cache import TransferShelveCache
        from aioslsk.transfer.manager import TransferManager
        from aioslsk.user.manager import UserManager
        global _SETTINGS
        if _SETTINGS is None:      # read-only configuration, shared by all sessions of the process
            _SETTINGS = Settings(credentials=CredentialsSettings(username='me', password='pw'))
            _SETTINGS.transfers.limits.upload_slots = 16
        settings = _SETTINGS
        self.client = None
        self.shares_cache = None
        if client_fault is None:
            self.bus = EventBus()
            self.net = _StubNetwork()
            self.users = UserManager(settings, self.bus, self.net)
            self.manager = TransferManager(settings, self.bus, self.users, object(), self.net,
                                           cache=TransferShelveCache(directory))
        else:
            from aioslsk.client import SoulSeekClient
            self.shares_cache = _SharesCache(bool(client_fault))
            self.client = SoulSeekClient(settings, shares_cache=self.shares_cache,
                                         transfer_cache=TransferShelveCache(directory))
            self.bus = self.client.events
            self.net = None
            self.users = self.client.users
            self.manager = self.client.transfers
        self.users.track_user = _noop
        self.users.untrack_user = _noop
        self.notified = []
        original = self.manager.on_transfer_state_changed

        async def recorder(transfer, old, new):
            self.notified.append((transfer, old, new))
            return await original(transfer, old, new)
        # Transfer.transition calls listener.on_transfer_state_changed: the instance attribute observes the call
        self.manager.on_transfer_state_changed = recorder
        self.cycles = 0
        manage = self.manager.manage_transfers

        def counted():
            self.cycles += 1
            return manage()
        self.manager.manage_transfers = counted

    def find(self, ident):
        return [t for t in self.manager.transfers
                if (t.username, t.remote_path, getattr(t.direction, 'value', None)) == ident]


# dbm.dumb rewrites its index on every close: a memory file system makes a case ~4x cheaper (results are identical)
_TMP_BASE = '/dev/shm' if os.path.isdir('/dev/shm') and os.access('/dev/shm', os.W_OK | os.X_OK) else None


class _Stop(Exception):
    """Stop evaluating the case (contaminated by a recorded violation)."""


# ---------------------------------------------------------------------------

def run_case(case) -> CaseResult:
    res = CaseResult()
    if not isinstance(case, dict):
        return res
    avoid = bool(case.get('avoid_collision', False))
    raw_transfers = case.get('transfers')
    raw_transfers = raw_transfers if isinstance(raw_transfers, list) else []
    raw_ops = case.get('ops')
    raw_ops = raw_ops if isinstance(raw_ops, list) else []
    seed_repo = bool(case.get('seed_repo_cache', False))
    uptimes = [float(v) for v in (case.get('uptimes') if isinstance(case.get('uptimes'), list) else [])
               if _is_num(v) and 0 <= v <= 1e9][:8] or [5.0]

    def session_end(start):
        """How the session that begins before op ``start`` ends: None = killed/plain restart (bare session),
        0/1 = by SoulSeekClient.stop() without/with a failing shares cache (decided from the op list alone)."""
        for op in raw_ops[:MAX_OPS][start:]:
            if isinstance(op, list) and op and op[0] in ('restart', 'outage'):
                return None
            if isinstance(op, list) and op and op[0] == 'stop':
                return 1 if (len(op) >= 2 and op[1] and not isinstance(op[1], (list, dict, str))) else 0
        return None

    concat_seen = {}      # (user+path, direction) -> identity, for avoid_collision
    stats = {'dropped_avoid': 0, 'collision': False, 'nontrivial': False, 'restarts': 0, 'writes': 0}

    def admit(m):
        """Construction rule of avoid_collision cases: a transfer whose user+path concatenation equals that of a
        different transfer seen earlier in the case is dropped."""
        ck = (m['u'] + m['p'], m['d'])
        other = concat_seen.get(ck)
        if other is not None and other != _ident(m):
            if avoid:
                stats['dropped_avoid'] += 1
                return False
            return True
        concat_seen.setdefault(ck, _ident(m))
        return True

    initial = []
    seen_ids = set()
    for raw in raw_transfers[:MAX_TRANSFERS]:
        m = _clean_transfer(raw)
        if m is None:
            continue
        m = _normalise(m)
        if _ident(m) in seen_ids or not admit(m):
            continue
        seen_ids.add(_ident(m))
        initial.append(m)

    tmp = tempfile.mkdtemp(prefix='c17-', dir=_TMP_BASE)

    def note_snapshot(models):
        ms = list(models)
        if any(m['s'] in IN_PROGRESS for m in ms):
            stats['nontrivial'] = True
            res.label('persisted-in-progress')
        for i in range(len(ms)):
            for j in range(i + 1, len(ms)):
                a, b = ms[i], ms[j]
                ca, cb = a['u'] + a['p'], b['u'] + b['p']
                if a['u'] == b['u'] or a['p'] == b['p'] or ca.startswith(cb) or cb.startswith(ca):
                    stats['nontrivial'] = True
        for m in ms:
            res.label(f"persist:{m['s']}:{'down' if m['d'] else 'up'}")

    def collision_partner(m, models):
        for o in models:
            if _ident(o) != _ident(m) and o['d'] == m['d'] and o['u'] + o['p'] == m['u'] + m['p']:
                return o
        return None

    def compare_set(where, got_transfers, want_models, expect_fn, removed):
        """Permutation check by identity + field comparison. Returns True when the key collision was hit."""
        hit_collision = False
        by_id = {}
        for t in got_transfers:
            ident = (t.username, t.remote_path, getattr(t.direction, 'value', None))
            by_id.setdefault(ident, []).append(t)
        want_ids = {_ident(m): m for m in want_models}
        for ident, ts in sorted(by_id.items(), key=lambda kv: repr(kv[0])):
            if len(ts) > 1:
                res.violate(f'C17/duplicate:{where}', f'{ident} appears {len(ts)} times')
            if ident not in want_ids:
                if ident in removed:
                    res.violate(f'C17/removed-transfer-still-present:{where}',
                                f'{ident} was removed before the last write but is read back')
                else:
                    res.violate(f'C17/unknown-transfer:{where}', f'{ident} was never written')
        for ident, m in sorted(want_ids.items(), key=lambda kv: repr(kv[0])):
            if ident not in by_id:
                partner = collision_partner(m, want_models)
                if partner is not None:
                    hit_collision = True
                    res.violate(KEY_COLLISION,
                                f'{where}: {ident} is lost; {_ident(partner)} has the same user+path concatenation, '
                                f'hence the same shelve key sha256(user+path+direction)')
                else:
                    what = ('was persisted before a session started while the cache could not be read; after the '
                            'cache was reachable again and that session wrote it, the record is gone'
                            if where == 'after-unreadable-start' else 'was written but is not read back')
                    res.violate(f"C17/lost:{where}:{'legacy' if m['legacy'] else 'modern'}",
                                f'{ident} (state {m["s"]}) {what}')
                continue
            t = by_id[ident][0]
            want = expect_fn(m)
            got = _observe(t)
            for f in sorted(want):
                if f in ('u', 'p', 'd'):
                    continue
                if _same(want[f], got[f]):
                    continue
                tag = 'legacy' + str(m['legacy']) if m['legacy'] else 'modern'
                if f == 's':
                    res.violate(f"C17/state:{where}:{m['s']}{_progress_tag(m)}->{got['s']}",
                                f"{ident} persisted {m['s']} size={m['size']} done={m['done']}: "
                                f"expected {want['s']}, got {got['s']}")
                elif f == 'rq':
                    res.violate(f"C17/remotely-queued-kept:{where}",
                                f'{ident} persisted in {m["s"]} with remotely_queued={m["rq"]}: got {got["rq"]!r}')
                elif f == 'ar':
                    # the ABORTED <-> 'Requested' default makes the persisted state part of the root cause
                    res.violate(f"C17/field:{where}:ar:{tag}:{'ABORTED' if m['s'] == 'ABORTED' else 'not-aborted'}",
                                f'{ident} (persisted state {m["s"]}) abort_reason: expected {want[f]!r}, '
                                f'got {got[f]!r}')
                else:
                    res.violate(f"C17/field:{where}:{f}:{tag}",
                                f'{ident} (persisted state {m["s"]}) field {f}: expected {want[f]!r}, got {got[f]!r}')
        return hit_collision

    async def main(loop):
        from aioslsk.protocol.messages import PeerTransferQueue, PeerTransferRequest
        from aioslsk.transfer.cache import TransferShelveCache
        from aioslsk.transfer.state import TransferState

        async def lib(api, coro_fn):
            """Run a library call that the property expects to complete normally."""
            try:
                return True, await coro_fn()
            except Exception as exc:  # noqa: BLE001
                res.violate(f'C17/unexpected-exception:{type(exc).__name__}@{api}', repr(exc))
                raise _Stop()

        # ---- per-session monotonic clock: origin = "uptime when the session's process started" -----------
        import types
        import aioslsk.transfer.manager as manager_module
        import aioslsk.transfer.model as model_module
        clock = {'boot': 0, 'uptime': uptimes[0], 'highest_before': uptimes[0]}
        base_ns = model_module.time          # the loop-bound namespace installed by vfw.simloop for this loop
        ns = types.SimpleNamespace(**vars(base_ns))
        ns.monotonic = lambda: clock['uptime'] + (loop.time() - simloop.START_TIME)
        ns.perf_counter = ns.monotonic
        model_module.time = ns
        manager_module.time = ns
        if len(set(uptimes)) > 1:
            res.label('clock-origin-varies')

        # ---- the old cache (written by the process of boot 0) --------------
        disk = {}          # identity -> model record (what the cache holds, unrepaired)
        removed = set()    # identities removed from the live list and not (re-)added / reloaded since
        db_path = os.path.join(tmp, TransferShelveCache.DEFAULT_FILENAME)
        if seed_repo:
            src = os.path.join(os.environ.get('VFW_REPO', '/repo'), 'tests', 'unit', 'resources', 'data')
            names = [n for n in ('transfers.dat', 'transfers.dir', 'transfers.bak')
                     if os.path.isfile(os.path.join(src, n))]
            if len(names) == 3 and dbm.whichdb(os.path.join(src, 'transfers')) == 'dbm.dumb':
                for n in names:
                    shutil.copy(os.path.join(src, n), os.path.join(tmp, n))
                for u, p, d in (('user0', '@abcdef\\file.mp3', 1), ('user1', '@abcdef\\file.flac', 0)):
                    m = {'u': u, 'p': p, 'd': d, 's': 'VIRGIN', 'size': None, 'done': 0, 'lp': None, 'fr': None,
                         'ar': None, 'rq': False, 'piq': None, 'st': None, 'ct': None, 'qa': 0, 'legacy': 3}
                    disk[_ident(m)] = m
                res.label('seed-repo-cache')
        legacy = [m for m in initial if m['legacy']]
        if legacy:
            res.label('legacy-records')
            old = {}
            for m in legacy:
                old[_cache_key(m)] = m          # an older release used the same key: a later record replaces
            db = dbm.open(db_path, 'c')
            try:
                for key in sorted(old):
                    db[key.encode('utf-8')] = _legacy_pickle(old[key])
            finally:
                db.close()
            for m in old.values():
                disk[_ident(m)] = m
        note_snapshot(disk.values())

        live = []          # model records of the live list (order irrelevant)

        def new_boot():
            # a new process: its monotonic clock has its own origin (lower after a reboot, equal = same boot)
            clock['boot'] += 1
            new_uptime = uptimes[clock['boot'] % len(uptimes)]
            if new_uptime < clock['uptime']:
                res.label('restart:clock-lower')
            clock['highest_before'] = max(clock['highest_before'], clock['uptime'])
            clock['uptime'] = new_uptime

        async def outage(how, extra):
            """The running process ends here (killed: the last written snapshot counts). The next process starts
            while the cache cannot be read: data directory missing (volume not mounted), path is a regular file, or
            shelve.open fails with EACCES. Either its load_data fails (acceptable: nothing is touched; the user starts
            again once the cache is back) or it starts -- then, after the cache is reachable again and that session
            wrote it, nothing persisted earlier may be lost: cache == persisted before + what the session added."""
            import aioslsk.transfer.cache as cache_module
            new_boot()
            offline = tmp + '.offline'
            real_shelve = cache_module.shelve
            if how in (0, 1):
                os.rename(tmp, offline)
                if how == 1:
                    open(tmp, 'w').close()
            else:
                def refuse(*args, **kwargs):
                    raise PermissionError(13, 'Permission denied', db_path)
                fake = types.SimpleNamespace(**{k: getattr(real_shelve, k) for k in dir(real_shelve)
                                                if not k.startswith('__')})
                fake.open = refuse
                cache_module.shelve = fake
            res.label(f"outage:{('dir-missing', 'path-is-file', 'open-raises-EACCES')[how]}")
            fsession = _Session(tmp)
            try:
                try:
                    await fsession.manager.load_data()
                    started = True
                except Exception as exc:  # noqa: BLE001 - a loud failure to start is the acceptable outcome
                    started = False
                    res.label(f'outage:load-failed-{type(exc).__name__}')
            finally:
                # the cache is reachable again
                cache_module.shelve = real_shelve
                if how == 1 and os.path.isfile(tmp):
                    os.remove(tmp)
                if how in (0, 1):
                    if os.path.isdir(tmp):          # created by the faulty session in the meantime: not expected
                        shutil.rmtree(tmp, ignore_errors=True)
                        res.label('outage:directory-recreated')
                    os.rename(offline, tmp)
            if not started:
                return
            res.label('outage:session-started')
            want = [copy.deepcopy(m) for m in disk.values()]
            if extra is not None and _ident(extra) not in disk and not fsession.find(_ident(extra)) and \
                    len(want) < MAX_TRANSFERS and admit(extra):
                t = _build(extra)
                await lib('TransferManager.add', lambda: fsession.manager.add(t))
                want.append(extra)
            await lib('TransferManager.store_data', fsession.manager.store_data)
            n_before = len(res.violations)
            try:
                back = TransferShelveCache(tmp).read()
            except Exception as exc:  # noqa: BLE001
                res.violate(f'C17/unexpected-exception:{type(exc).__name__}@TransferShelveCache.read', repr(exc))
                raise _Stop()
            # records the faulty session did load keep whatever it wrote; the others must be untouched
            hit = compare_set('after-unreadable-start', back, want, _expect_raw, removed)
            if hit or len(res.violations) > n_before:
                raise _Stop()
            disk.clear()
            for m in want:
                disk[_ident(m)] = m

        async def restart(final, next_op=0, pre=None):
            nonlocal live
            stats['restarts'] += 1
            new_boot()
            session = _Session(tmp, None if final else session_end(next_op))
            mgr = session.manager
            # unusual but legal order: a transfer that equals a persisted one is requested on the new object BEFORE
            # the cache is loaded (download() for downloads, add() for uploads). TransferManager.add documents that
            # an existing equal transfer is kept: still each transfer exactly once.
            fresh = {}          # identity -> (model of the fresh transfer, real object)
            if pre is not None and disk:
                pm = disk[sorted(disk, key=repr)[pre % len(disk)]]
                fm = {'u': pm['u'], 'p': pm['p'], 'd': pm['d'], 's': 'QUEUED' if pm['d'] == 1 else 'VIRGIN',
                      'size': None, 'done': 0, 'lp': None, 'fr': None, 'ar': None, 'rq': False, 'piq': None,
                      'st': None, 'ct': None, 'qa': 0, 'legacy': 0}
                if pm['d'] == 1:
                    obj = (await lib('TransferManager.download', lambda: mgr.download(pm['u'], pm['p'])))[1]
                else:
                    from aioslsk.transfer.model import Transfer, TransferDirection
                    obj = (await lib('TransferManager.add', lambda: mgr.add(
                        Transfer(pm['u'], pm['p'], TransferDirection.UPLOAD))))[1]
                fresh[_ident(fm)] = (fm, obj)
                res.label('restart:transfer-requested-before-load')
            await lib('TransferManager.load_data', session.manager.load_data)
            where = 'load'
            n_before = len(res.violations)

            def expect_loaded(m):
                if _ident(m) in fresh and any(t is fresh[_ident(m)][1] for t in session.find(_ident(m))):
                    e = _expect_raw(fresh[_ident(m)][0])      # the transfer that existed before the load is kept
                    e['rq'] = False
                    return e
                return _expect_loaded(m)
            hit = compare_set(where, sorted(mgr.transfers, key=lambda t: 0 if any(t is f[1] for f in fresh.values())
                                            else 1),
                              list(disk.values()), expect_loaded, removed)
            # nothing may be left in progress, whatever the model says
            for t in mgr.transfers:
                name = getattr(getattr(t.state, 'VALUE', None), 'name', None)
                if name in IN_PROGRESS and not any(k.startswith('C17/state:load') for k, _ in res.violations):
                    res.violate(f'C17/in-progress-after-load:{name}', repr(t))
            if hit:
                raise _Stop()
            # structural wiring of every loaded transfer
            for t in list(mgr.transfers):
                ident = (t.username, t.remote_path, getattr(t.direction, 'value', None))
                if sum(1 for x in mgr.transfers if x is t) != 1:
                    res.violate('C17/wiring:listed-more-than-once', str(ident))
                n_listen = sum(1 for x in getattr(t, 'state_listeners', []) if x is mgr)
                if n_listen != 1:
                    res.violate(f'C17/wiring:manager-listener-count={n_listen}', str(ident))
                lock = getattr(t, '_state_lock', None)
                if not isinstance(lock, asyncio.Lock) or lock.locked():
                    res.violate('C17/wiring:state-lock', f'{ident}: {lock!r}')
                if not isinstance(t.state, TransferState) or getattr(t.state, 'transfer', None) is not t:
                    res.violate('C17/wiring:state-object-not-bound', f'{ident}: {t.state!r}')
            if len(res.violations) > n_before:
                raise _Stop()       # model and system have diverged: later observations would be contaminated
            # the loaded list becomes the live list of this session (model := what the property demands)
            new_live = []
            for m in disk.values():
                ts = session.find(_ident(m))
                if not ts:
                    continue
                if _ident(m) in fresh and any(t is fresh[_ident(m)][1] for t in ts):
                    new_live.append(dict(fresh[_ident(m)][0]))
                    continue
                e = _expect_loaded(m)
                got = _observe(ts[0])
                nm = dict(m)
                nm.update({'s': e['s'], 'ar': e['ar'], 'rq': False, 'legacy': 0,
                           'st': got['st'] if e['st'] is ANY else e['st'],
                           'ct': got['ct'] if e['ct'] is ANY else e['ct']})
                if not (nm['st'] is None or _is_num(nm['st'])) or not (nm['ct'] is None or _is_num(nm['ct'])):
                    nm['st'] = nm['ct'] = None
                new_live.append(nm)
            live = new_live
            removed.difference_update(set(disk))
            if final:
                await probes(session)
            return session

        async def reload_same_object(session, next_op):
            """The user stops the client and starts the SAME object again (disconnect / connect without leaving the
            application): the cache is loaded on top of the list the manager still holds. Each transfer must still
            be listed exactly once with its fields; whether the kept in-memory object or the repaired record from the
            cache is listed is left open (the property speaks of a new client), so the state may be either."""
            mgr = session.manager
            stats['restarts'] += 1
            await lib('TransferManager.load_data', mgr.load_data)
            n_before = len(res.violations)

            def expect_reloaded(m):
                e = _expect_raw(m)
                e['s'] = ('one-of', [m['s'], _expect_loaded(m)['s']])
                e['ar'] = ('one-of', [m['ar'], e['ar']])      # kept in memory as it is / as a cache read yields it
                e['st'] = e['ct'] = ANY
                return e
            hit = compare_set('reload-same-object', list(mgr.transfers), live, expect_reloaded, removed)
            for t in list(mgr.transfers):
                ident = (t.username, t.remote_path, getattr(t.direction, 'value', None))
                n_listen = sum(1 for x in getattr(t, 'state_listeners', []) if x is mgr)
                if n_listen != 1:
                    res.violate(f'C17/wiring:reload-same-object:manager-listener-count={n_listen}', str(ident))
            if hit or len(res.violations) > n_before:
                raise _Stop()
            for m in live:
                got = _observe(session.find(_ident(m))[0])
                if got['s'] in IN_PROGRESS:
                    res.label('reload-same-object:in-progress-state-kept')
                m.update({'s': got['s'], 'rq': bool(got['rq']), 'legacy': 0, 'ar': got['ar'],
                          'st': got['st'] if got['st'] is None or _is_num(got['st']) else None,
                          'ct': got['ct'] if got['ct'] is None or _is_num(got['ct']) else None})
            # the session goes on and ends as the op list says
            nxt = session_end(next_op)
            session.shares_cache.fail = bool(nxt)
            session.shares_cache.writes = 0
            res.label('restart:same-object')

        async def probes(session):
            mgr = session.manager
            loaded = list(mgr.transfers)
            if not loaded:
                return
            # (1) the new client starts its services: the management task must run a cycle for the loaded transfers.
            # Differential: per peer with a loaded download that has to be picked up, a FRESH download of the same
            # peer is added in this session; whatever the scheduling does for the fresh one within the window it
            # must do for the loaded one (peer reachable: the stub network accepts every message).
            due = [m for m in live if m['d'] == 1 and m['s'] in ('QUEUED', 'INCOMPLETE')]
            for user in sorted({m['u'] for m in due}):
                await lib('TransferManager.download', lambda: mgr.download(user, TWIN_PATH))
            await lib('TransferManager.start', mgr.start)
            await asyncio.sleep(PROBE_WINDOW)
            cancelled = await lib('TransferManager.stop', mgr.stop)
            for outcome in await asyncio.gather(*cancelled[1], return_exceptions=True):
                if isinstance(outcome, Exception):
                    res.violate(f'C17/unexpected-exception:{type(outcome).__name__}@task-after-load', repr(outcome))
            if session.cycles == 0:
                res.violate('C17/no-management-cycle-after-load',
                            f'{len(loaded)} transfers loaded and the manager started, but no management cycle ran '
                            f'(nothing requested one)')
                return
            queued_remote = {(u, getattr(msg, 'filename', None)) for u, msg in session.net.peer_sent
                             if isinstance(msg, PeerTransferQueue.Request)}
            upload_reqs = {(u, getattr(msg, 'filename', None)) for u, msg in session.net.peer_sent
                           if isinstance(msg, PeerTransferRequest.Request)}
            by_user_uploads = {}
            for m in due:
                if (m['u'], m['p']) in queued_remote:
                    continue
                if (m['u'], TWIN_PATH) not in queued_remote:
                    res.label('probe:fresh-twin-not-scheduled-either')     # not a matter of loading
                    continue
                was = disk[_ident(m)]
                rel = 'session-clock-lower' if clock['uptime'] < clock['highest_before'] else 'session-clock-not-lower'
                res.violate(f"C17/not-scheduled:download:{m['s']}:queue_attempts{'>0' if m['qa'] else '=0'}:{rel}",
                            f'loaded {m["s"]} download {_ident(m)} (persisted state {was["s"]}, remotely_queued='
                            f'{was["rq"]}, queue_attempts={was["qa"]}; this session started with monotonic clock '
                            f'{clock["uptime"]}, origins of the sessions: {uptimes}) was not queued remotely within '
                            f'{PROBE_WINDOW} s of virtual time although a fresh download of the same peer was')
            for m in live:
                if m['s'] == 'QUEUED' and m['d'] == 0:
                    by_user_uploads.setdefault(m['u'], []).append(m)
            for user in sorted(by_user_uploads):
                ms = by_user_uploads[user]
                if not any((user, m['p']) in upload_reqs for m in ms):
                    rel = 'session-clock-lower' if clock['uptime'] < clock['highest_before'] else \
                        'session-clock-not-lower'
                    res.violate(f"C17/not-scheduled:upload:request_attempts"
                                f"{'>0' if any(m['qa'] for m in ms) else '=0'}:{rel}",
                                f'none of the loaded QUEUED uploads {[_ident(m) for m in ms]} was initialised within '
                                f'{PROBE_WINDOW} s of virtual time (session clock origin {clock["uptime"]}, origins '
                                f'{uptimes})')
            res.label('probe:management-cycle')
            # (2) one driven state change per loaded transfer reaches the manager
            for t in loaded:
                ident = (t.username, t.remote_path, getattr(t.direction, 'value', None))
                before = t.state.VALUE
                del session.notified[:]
                method = 'pause' if before == TransferState.QUEUED else 'queue'
                want_new = TransferState.PAUSED if method == 'pause' else TransferState.QUEUED
                try:
                    ok = await asyncio.wait_for(getattr(t.state, method)(), 5.0)
                except asyncio.TimeoutError:
                    res.violate(f'C17/state-change-hangs:{before.name}', f'{ident}.state.{method}()')
                    continue
                except Exception as exc:  # noqa: BLE001
                    res.violate(f'C17/unexpected-exception:{type(exc).__name__}@state.{method}:{before.name}',
                                f'{ident}: {exc!r}')
                    continue
                if not ok or t.state.VALUE != want_new:
                    res.violate(f'C17/state-change-refused:{before.name}->{want_new.name}',
                                f'{ident}.state.{method}() returned {ok!r}, state {t.state.VALUE.name}')
                    continue
                calls = [(old, new) for (tr, old, new) in session.notified if tr is t]
                if calls != [(before, want_new)]:
                    res.violate('C17/state-change-not-reported',
                                f'{ident} {before.name}->{want_new.name}: manager listener calls '
                                f'{[(o.name, n.name) for o, n in calls]}')
            res.label('probe:state-change')

        # ---- session 1 ------------------------------------------------------
        session = await restart(final=False, next_op=0)
        for m in initial:
            if m['legacy']:
                continue
            if any(_ident(x) == _ident(m) for x in live) or len(live) >= MAX_TRANSFERS:
                continue
            t = _build(m)
            await lib('TransferManager.add', lambda: session.manager.add(t))
            live.append(dict(m))

        for op_index, op in enumerate(raw_ops[:MAX_OPS]):
            if not isinstance(op, list) or not op or not isinstance(op[0], str):
                continue
            kind = op[0]
            if kind in ('write', 'stop'):
                stats['writes'] += 1
                where = 'read-after-write'
                if kind == 'stop' and session.client is not None:
                    # the process ends by the real SoulSeekClient.stop(); in a generated fraction the shares cache
                    # (an earlier service) cannot be written. Whatever stop() raises, the transfer cache must hold
                    # the manager's transfers afterwards.
                    fault = session.shares_cache.fail
                    where = 'read-after-stop:shares-store-fails' if fault else 'read-after-write'
                    try:
                        await session.client.stop()
                    except Exception as exc:  # noqa: BLE001
                        if not fault:
                            res.violate(f'C17/unexpected-exception:{type(exc).__name__}@SoulSeekClient.stop', repr(exc))
                            raise _Stop()
                        res.label(f'op:stop:raised-{type(exc).__name__}')
                    res.label('op:stop:shares-store-fails' if fault else 'op:stop:client')
                    if session.shares_cache.writes == 0:
                        res.label('op:stop:shares-cache-never-written')
                else:
                    if kind == 'stop':
                        # what SoulSeekClient.stop() does with this service before the process ends
                        cancelled = await lib('TransferManager.stop', session.manager.stop)
                        await asyncio.gather(*cancelled[1], return_exceptions=True)
                        res.label('op:stop')
                    await lib('TransferManager.store_data', session.manager.store_data)
                # what is really in the manager must be what the model thinks (harness sanity)
                groups = {}
                for m in live:
                    groups.setdefault(_cache_key(m), set()).add(_ident(m))
                if any(len(g) > 1 for g in groups.values()):
                    stats['collision'] = True
                    if avoid:
                        raise AssertionError('avoid_collision case wrote colliding transfers (generator rule broken)')
                note_snapshot(live)
                n_before = len(res.violations)
                try:
                    back = TransferShelveCache(tmp).read()
                except Exception as exc:  # noqa: BLE001
                    res.violate(f'C17/unexpected-exception:{type(exc).__name__}@TransferShelveCache.read', repr(exc))
                    raise _Stop()
                hit = compare_set(where, back, live, _expect_raw, removed)
                disk.clear()
                for m in live:
                    disk[_ident(m)] = copy.deepcopy(m)
                if hit or len(res.violations) > n_before:
                    raise _Stop()
                same = kind == 'stop' and session.client is not None and len(op) >= 3 and bool(op[2]) and \
                    not isinstance(op[2], (list, dict, str))
                if same:
                    await reload_same_object(session, op_index + 1)
                elif kind == 'stop':
                    session = await restart(final=False, next_op=op_index + 1)
            elif kind == 'restart':
                pre = op[1] if len(op) >= 2 and isinstance(op[1], int) and not isinstance(op[1], bool) else None
                session = await restart(final=False, next_op=op_index + 1, pre=pre)
                res.label('restart-mid-history')
            elif kind == 'outage' and len(op) >= 2 and isinstance(op[1], int) and not isinstance(op[1], bool):
                extra = _clean_transfer(op[2]) if len(op) >= 3 else None
                if extra is not None:
                    extra = _normalise(extra)
                    extra['legacy'] = 0
                await outage(op[1] % 3, extra)
                session = await restart(final=False, next_op=op_index + 1)
            elif kind == 'remove' and len(op) >= 2 and isinstance(op[1], int) and not isinstance(op[1], bool):
                if not live:
                    continue
                m = live.pop(op[1] % len(live))
                ts = session.find(_ident(m))
                if len(ts) != 1:
                    raise AssertionError(f'harness model out of sync: {_ident(m)} {ts}')
                await lib('TransferManager.remove', lambda: session.manager.remove(ts[0]))
                if session.find(_ident(m)):
                    res.violate('C17/remove-did-not-remove', str(_ident(m)))
                    raise _Stop()
                removed.add(_ident(m))
                res.label('op:remove')
            elif kind == 'add' and len(op) >= 2:
                m = _clean_transfer(op[1])
                if m is None:
                    continue
                m = _normalise(m)
                m['legacy'] = 0
                if any(_ident(x) == _ident(m) for x in live) or len(live) >= MAX_TRANSFERS or not admit(m):
                    continue
                t = _build(m)
                await lib('TransferManager.add', lambda: session.manager.add(t))
                live.append(m)
                removed.discard(_ident(m))
                res.label('op:add')
            elif kind == 'set' and len(op) >= 3 and isinstance(op[1], int) and not isinstance(op[1], bool):
                if not live:
                    continue
                upd = _clean_fields(op[2], partial=True)
                if not upd:
                    continue
                m = live[op[1] % len(live)]
                m.update(upd)
                _normalise(m)
                ts = session.find(_ident(m))
                if len(ts) != 1:
                    raise AssertionError(f'harness model out of sync: {_ident(m)} {ts}')
                _apply(ts[0], m)
                res.label('op:set')

        # ---- process end: whatever was written last is what the next client sees ----
        await restart(final=True)

    try:
        try:
            _, errors = simloop.run_case_on_loop(main)
        except _Stop:
            errors = []
            res.label('stopped-after-violation')
        if errors:
            res.violate('C17/loop-error', str(errors[:2]))
    finally:
        import aioslsk.transfer.cache as cache_module
        import shelve as real_shelve_module
        cache_module.shelve = real_shelve_module
        if os.path.isfile(tmp):
            os.remove(tmp)
        shutil.rmtree(tmp, ignore_errors=True)
        shutil.rmtree(tmp + '.offline', ignore_errors=True)

    res.nontrivial = stats['nontrivial']
    res.label('avoid-collision' if avoid else 'collisions-allowed')
    if stats['collision']:
        res.label('has-key-collision')
    if stats['dropped_avoid']:
        res.label('avoid-collision:dropped-a-transfer')
    res.label(f'initial={len(initial)}')
    if stats['writes'] >= 2:
        res.label('writes>=2')
    return res


def run_shard(ctx):
    n = 500 if ctx.tier == 'quick' else 8000
    ctx.explore(case_strategy(), n)
    ctx.extra['cases_with_key_collision_written'] = ctx.labels.get('has-key-collision', 0)
    ctx.extra['cases_avoid_collision'] = ctx.labels.get('avoid-collision', 0)
    ctx.extra['cases_collisions_allowed'] = ctx.labels.get('collisions-allowed', 0)


MANIFEST_ENTRY = {
    'technique': 'property-based testing (Hypothesis): generated transfer lists and write/mutate/remove/add/restart '
                 'histories against the real shelve cache and real TransferManager objects, compared with a small '
                 'reference model of the persisted snapshot and of the documented state repair',
    'level_text': 'Generated-history exploration: every write is read back through a fresh cache object and compared as '
                  'a permutation of the live list; every restart builds a fresh TransferManager on the same directory '
                  'and compares its transfers with the repaired last snapshot, checks listener/list wiring, runs the '
                  'real management task for 1 s on a virtual-time loop (loaded downloads against a fresh twin of the '
                  'same peer, sessions with different monotonic clock origins) and drives one state change per loaded '
                  'transfer; sessions that end by the real SoulSeekClient.stop() get a failing shares cache in a '
                  'generated fraction. '
                  'Sampled lists and histories over a deliberately small name alphabet; no proof.',
    'level_note': 'Trusted base: the reference model in checks/c17.py (fields of DESIGN Appendix A), the virtual loop, '
                  'Hypothesis, a stub network that accepts every peer message. Legacy records are raw pickles framed '
                  'by the harness around the state dict of the current __getstate__ minus/plus the legacy keys. '
                  'Transfers that hit the listed key-collision finding end the evaluation of that case; half of the '
                  'cases exclude such collisions by construction.',
}

KNOWN_REPLAYS = {
    KEY_COLLISION: {
        'avoid_collision': False, 'seed_repo_cache': False,
        'transfers': [{'u': 'ab', 'p': 'a', 'd': 1}, {'u': 'a', 'p': 'ba', 'd': 1}],
        'ops': [['write']],
    },
}
