"""C14 — search requests flow down the distributed tree exactly once and are answered to the asker (DESIGN §3 C14)."""
from __future__ import annotations

import asyncio
import collections
import os
import shutil
import struct
import tempfile

from hypothesis import strategies as st

from vfw import simworld, wire_ref, xfer
from vfw.runner import CaseResult

PROPERTY = 'C14'
LEVEL = 'exploration'
RULE = (
    "Case = a small share tree written to a temp dir (1..6 files, names built from an 8-word vocabulary, in an "
    "'everyone' directory and a sibling 'friends' directory, so locked results occur), a friends set, whether the "
    "server announces parent speed values (child limit 5 or 20, never exceeded), and a history of <=14 operations "
    "against a logged-in real SoulSeekClient, a simulated server and 5 scripted distributed peers t0..t4 (0..5 "
    "children, usually 0..3): "
    "pp (server sends PotentialParents; the client connects out: candidates), announce (a candidate or the parent "
    "sends DistributedBranchLevel/Root in 5 forms: level+root, root+level, level 0 alone, level alone, root alone; "
    "the first complete announcement without a parent makes the parent and the client drops the other candidates), "
    "join (a peer connects in with type D and PeerInit -- to the plain port, or to the obfuscated listening port with "
    "an obfuscated PeerInit and plain frames afterwards --, or -- indirect -- lets the server relay ConnectToPeer of "
    "type D so that the client connects to the peer and sends PeerPierceFirewall: child either way, or candidate if "
    "its name is in the potential-parent cache), leave "
    "(a child, parent or candidate closes by EOF or reset), reset (server sends ResetDistributed: the client closes "
    "children and parent; optionally the close of one child connection is confirmed only after 0.2 / 1.5 / 5.5 s, "
    "as for a peer that does not drain its socket, and 0..2 new peers connect with type D while the client is "
    "still awaiting that close: they are accepted and are current children afterwards), setname (the application "
    "assigns settings.credentials.username = an asker's / tree member's / unknown / new / the own name while the "
    "session stays active: the logged-in user, and with it 'own', does not change), damage (after the scan a "
    "shared file is deleted, or the sub-directory holding it is replaced by a plain file so that reading its size "
    "fails with NotADirectoryError; no rescan), and search requests (carrier ServerSearchRequest from the server while there is no "
    "parent, DistributedSearchRequest or legacy DistributedServerSearchRequest from the parent otherwise; user in "
    "{friend asker, stranger asker, tree member, own username, user unknown to the server}, incl. an asker and an "
    "unknown user whose names hold 2-, 3- and 4-byte UTF-8 characters; arbitrary uint32 ticket; query of 1..3 "
    "terms: present/absent words incl. non-ASCII ones (file names too), -exclude, *wildcard, upper case, word "
    "prefixes; the request bytes are built by the pinned reference codec vfw/wire_ref), optionally "
    "glued to the previous request (same instant, same connection). Half of the shards never use the own username. "
    "Every operation is followed by 0.5 s of virtual time (quiescence). Oracle per request group, from the frames "
    "seen by every scripted connection (for joined peers: the bytes the client wrote, framed as plain frames and "
    "decoded by the reference codec, not by the library): each current child connection received exactly one "
    "DistributedSearchRequest per request with the same username, ticket and query; parent, candidates, closed connections and the server received no search message; a request carrying "
    "the own username is neither forwarded nor answered (no PeerSearchReply received by anybody, no own address "
    "lookup); the asker received exactly one PeerSearchReply (own username, same ticket, results == visible "
    "reference set, locked_results == locked reference set, compared as multisets of (remote path, size)) iff one "
    "of the sets is non-empty; nobody else received a reply; the loop recorded no error. Non-trivial = a request "
    "evaluated with >=1 current child and a non-empty local result; distinct = (tree shape at the request, "
    "carrier, user class, locked/visible class)."
)
ASSUMPTIONS = [
    "who is a current child is decided by the harness model of the documented rules (docs/source/DESIGN.rst "
    "'Children'/'Parent'): a type-D connection made on the peer's initiative (the peer connects and sends "
    "PeerInit, or the client connects on a server-relayed ConnectToPeer of the peer and pierces) is a child unless "
    "its user name was listed in a PotentialParents message; child acceptance is on and the child limit (5 by default, 20 with the announced "
    "speed values) is never reached; an incoming connection from a listed potential parent is only generated while "
    "a parent is set (DESIGN.rst and the code disagree on the other case); children never announce branch values",
    "ServerSearchRequest is only sent while the client has no parent (acting as branch root); distributed carriers "
    "only come from the current parent; distributed_code is always 3",
    "the matching file set of a query is taken from the library's own SharesManager.query(query) (verified by "
    "C07/C08); visible vs locked is computed independently from the directory modes and friends configured by the "
    "case (file under the friends directory and asker not a friend => locked); sizes are the sizes written to disk",
    "no excluded search phrases, no blocked users, shared directories are siblings (nesting is C08), fewer than "
    "max_results matches",
    "operations are separated by 0.5 s of virtual time with 1 ms latencies (membership changes happen between "
    "requests, as in the quantifier); the whole history stays below the 60 s peer read timeout",
    "scripted askers keep the reply connection open, or close it at a quiescent point (drawn)",
    "slow close: the client-side in-memory transport of one child reports is_closing() at once and connection_lost "
    "after the drawn delay (behaviour of a socket transport with unsent buffered data); during that window only "
    "joins of peers that were never listed as potential parents are generated, requests resume after it; at most "
    "12 s of such windows per case",
    "the 'unknown' field of forwarded requests and result order are not compared",
    "'the logged-in user' / 'the own username' is the name of the active session (the name the client logged in "
    "with), not the current value of settings.credentials.username",
    "a matching file that became unreadable after the scan is omitted from the reply and the other matches are "
    "sent (docstring of shares.utils.convert_items_to_file_data: 'If an exception occurs when converting the item "
    "an error will be logged and the item will be omitted from the list'); when every match of a request is "
    "unreadable both no reply and one reply without files are accepted",
]
BUDGET_S = {'quick': 150, 'thorough': 1500}

OWN = 'me'
TREE = ['t0', 't1', 't2', 't3', 't4']
ASKERS = ['alice', 'bob', 'bj\u00f6rk']              # the third asker has a 2-byte UTF-8 character in its name
UNKNOWN = ['ghost', '\u7247\u4eee\u540d\U0001f3a7']        # not known to the server; the second name has 3- and 4-byte characters
USERS = ['alice', 'bob', 't0', 't1', OWN, UNKNOWN[0], ASKERS[2], UNKNOWN[1]]
FRIEND_POOL = ['alice', 'bob', 't0', 't1']
ROOTS = ['rootA', 'rootB', 't4']
WORDS = ['alpha', 'beta', 'gamma', 'delta', 'rock', 'jazz', 'live', '2020', 'bj\u00f6rk', '\u65e5\u672c\u8a9e']
ABSENT = ['omega', 'zeta']
VOCAB = WORDS[:8] + ABSENT + WORDS[8:] + ['dj\U0001f3a7']     # old indices keep their meaning; the last word has a 4-byte character
SUBDIRS = ['', 'live', os.path.join('live', '2020')]
SEPS = [' ', '_', ' - ']
EXTS = ['.mp3', '.flac', '.txt']
QUIET = 0.5
MAX_OPS = 16
# values the application assigns to settings.credentials.username while the session of OWN stays active
NAMES = ['alice', 'bob', 't0', 't1', 'ghost', 'me2', OWN]
SLOW_CLOSE = [0.0, 0.2, 1.5, 5.5]      # seconds until a closing child connection is confirmed closed (5.5 > DISCONNECT_TIMEOUT)
SLOW_BUDGET = 12.0                     # total virtual seconds of slow closes per case (peer read timeout is 60 s)


# ---------------------------------------------------------------------------
# strategies

def _term(anchor=None):
    # 'p': take the word from the words actually used by the files ('w' indexes the flattened word list), so that
    # most queries have matches; follow-up terms stay close to the first one (same file, usually)
    w = st.integers(0, 17) if anchor is None else st.integers(anchor, anchor + 2)
    return st.fixed_dictionaries({
        'w': w,
        'p': st.sampled_from([True, True, True, False]),
        'm': st.sampled_from([0, 0, 0, 0, 0, 1, 2, 3, 4]),
    })


@st.composite
def _query(draw):
    first = draw(_term())
    n = draw(st.sampled_from([1, 1, 1, 2, 2, 3]))
    return [first] + [draw(_term(first['w'])) for _ in range(n - 1)]


def _search(avoid_own=False):
    users = [0, 0, 1, 1, 1, 2, 3, 5, 6, 6, 7] if avoid_own else [0, 0, 1, 1, 1, 2, 3, 4, 4, 5, 6, 6, 7]
    return st.fixed_dictionaries({
        'op': st.just('search'),
        'carrier': st.integers(0, 2),
        'user': st.sampled_from(users),
        'ticket': st.one_of(st.sampled_from([0, 1, 2 ** 31, 2 ** 32 - 1]), st.integers(0, 2 ** 32 - 1)),
        'q': _query(),
        'glue': st.sampled_from([False, False, False, True]),
    })


# how a peer joins: it connects to the client's port and sends PeerInit ('direct'; 'obfuscated': to the obfuscated
# port with an obfuscated PeerInit), or it lets the server relay a ConnectToPeer of type D and the client connects to
# the peer and sends PeerPierceFirewall ('indirect')
_VIA = st.sampled_from(['direct', 'indirect', 'indirect', 'obfuscated', 'obfuscated'])


def _change():
    return st.one_of(
        st.fixed_dictionaries({'op': st.just('join'), 'peer': st.integers(0, 4), 'via': st.just('direct')}),
        st.fixed_dictionaries({'op': st.just('join'), 'peer': st.integers(0, 4), 'via': _VIA}),
        st.fixed_dictionaries({'op': st.just('leave'), 'which': st.integers(0, 7), 'how': st.sampled_from(['eof', 'reset']),
                               'glue': st.sampled_from(['none', 'none', 'before', 'after'])}),
        st.fixed_dictionaries({'op': st.just('pp'), 'peers': st.lists(st.integers(0, 4), min_size=1, max_size=2)}),
        st.fixed_dictionaries({'op': st.just('announce'), 'which': st.integers(0, 3), 'form': st.sampled_from([0, 0, 1, 2, 3, 4]),
                               'level': st.integers(1, 4), 'root': st.integers(0, 2)}),
        _reset(),
        st.fixed_dictionaries({'op': st.just('setname'), 'name': st.integers(0, len(NAMES) - 1)}),
        st.fixed_dictionaries({'op': st.just('damage'), 'file': st.integers(0, 5),
                               'how': st.sampled_from(['delete', 'dirfile', 'dirfile'])}),
    )


def _reset():
    # 'slow': the client-side close of one child ('stall') is confirmed late (index into SLOW_CLOSE), as for a
    # peer that does not drain its socket; 'join': peers that connect while the reset still awaits that close
    return st.fixed_dictionaries({'op': st.just('reset'), 'slow': st.sampled_from([0, 1, 2, 2, 3]),
                                  'stall': st.integers(0, 3), 'join': st.lists(st.integers(0, 4), max_size=2)})


@st.composite
def case_strategy(draw, avoid_own=False):
    files = draw(st.lists(st.fixed_dictionaries({
        'd': st.sampled_from([0, 0, 1]), 's': st.integers(0, 2),
        'w': st.lists(st.integers(0, len(WORDS) - 1), min_size=1, max_size=3),
        'sep': st.integers(0, 2), 'e': st.integers(0, 2), 'n': st.integers(0, 40)}), min_size=1, max_size=6))
    ops = []
    # initial shape: parent or not, extra candidates, 0..3 children before/after the parent is set
    with_parent = draw(st.sampled_from([True, True, False]))
    n_kids = draw(st.integers(0, 3))
    kids_first = draw(st.booleans())
    kid_ops = [{'op': 'join', 'peer': i, 'via': draw(st.sampled_from(['direct', 'direct', 'indirect', 'obfuscated']))} for i in range(n_kids)]
    if kids_first:
        ops += kid_ops
    if with_parent:
        extra = draw(st.booleans())
        ops.append({'op': 'pp', 'peers': [4, 3] if extra else [4]})
        ops.append({'op': 'announce', 'which': 0, 'form': draw(st.sampled_from([0, 0, 1, 2])),
                    'level': draw(st.integers(1, 4)), 'root': draw(st.integers(0, 2))})
        if extra and draw(st.booleans()):
            ops.append({'op': 'join', 'peer': 3, 'via': draw(st.sampled_from(['direct', 'direct', 'indirect', 'obfuscated']))})   # listed potential parent joins: candidate
    elif draw(st.booleans()):
        ops.append({'op': 'pp', 'peers': [4, 3][:draw(st.integers(1, 2))]})   # silent candidates, client stays root
    if not kids_first:
        ops += kid_ops
    rounds = draw(st.integers(1, 3))
    for _ in range(rounds):
        ops.append(draw(_search(avoid_own)))
        if draw(st.booleans()):
            ops.append(draw(_search(avoid_own)))
        motif = draw(st.integers(0, 9))
        if motif <= 1:
            # a child joins while a reset still waits for a slowly closing child, then a request
            ops.append({'op': 'reset', 'slow': draw(st.sampled_from([1, 2, 2, 3])), 'stall': draw(st.integers(0, 3)),
                        'join': draw(st.lists(st.integers(0, 4), min_size=1, max_size=2))})
        elif motif == 2:
            # the application assigns another user name to the settings while the session stays active; then a
            # request of the logged-in user or of the user with the newly configured name
            name = draw(st.integers(0, len(NAMES) - 2))
            ops.append({'op': 'setname', 'name': name})
            nxt = draw(_search(avoid_own))
            users = ([] if avoid_own else [USERS.index(OWN)]) + ([USERS.index(NAMES[name])] if NAMES[name] in USERS else [])
            if users:
                nxt['user'] = draw(st.sampled_from(users))
            ops.append(nxt)
        elif motif in (4, 5):
            # a child leaves in the very instant of a request (right before it / right behind it)
            leave = {'op': 'leave', 'which': draw(st.integers(0, 3)), 'how': draw(st.sampled_from(['eof', 'reset'])),
                     'glue': draw(st.sampled_from(['before', 'after']))}
            nxt = draw(_search(avoid_own))
            nxt['glue'] = False
            ops += [leave, nxt] if leave['glue'] == 'before' else [nxt, leave]
        elif motif == 3:
            # a matching file becomes unreadable after the scan (its directory is replaced by a plain file, or it
            # is deleted), then a request for one of its words
            fi = draw(st.integers(0, len(files) - 1))
            ops.append({'op': 'damage', 'file': fi, 'how': draw(st.sampled_from(['dirfile', 'dirfile', 'delete']))})
            nxt = draw(_search(avoid_own))
            first = sum(len(f['w']) for f in files[:fi])
            nxt['q'] = [{'w': first + draw(st.integers(0, len(files[fi]['w']) - 1)), 'p': True, 'm': 0}]
            nxt['user'] = draw(st.sampled_from([0, 1, 1, 2]))
            ops.append(nxt)
        else:
            ops += draw(st.lists(_change(), min_size=0, max_size=2))
    ops.append(draw(_search(avoid_own)))
    return {
        'files': files,
        'friends': draw(st.integers(0, 15)),
        'speed': draw(st.integers(0, 1)),
        'asker_close': draw(st.booleans()),
        'ops': ops[:MAX_OPS],
    }


# ---------------------------------------------------------------------------
# sanitising (run_case is total: shrunk documents are clamped into the domain)

def _int(v, lo, hi, default=0):
    try:
        if isinstance(v, bool) or not isinstance(v, int):
            return default
        return max(lo, min(hi, v))
    except Exception:
        return default


def _sanitise(case):
    try:
        return _sanitise_inner(case)
    except Exception:
        return None


def _sanitise_inner(case):
    if not isinstance(case, dict):
        return None
    files = []
    for f in (case.get('files') or [])[:6]:
        if not isinstance(f, dict):
            continue
        words = [WORDS[_int(w, 0, 10 ** 6) % len(WORDS)] for w in (f.get('w') or [])[:3] if isinstance(w, int)]
        if not words:
            continue
        files.append({'d': _int(f.get('d'), 0, 1), 's': _int(f.get('s'), 0, 2), 'w': words,
                      'sep': _int(f.get('sep'), 0, 2), 'e': _int(f.get('e'), 0, 2), 'n': _int(f.get('n'), 0, 40)})
    ops = []
    for o in (case.get('ops') or [])[:MAX_OPS]:
        if not isinstance(o, dict):
            continue
        kind = o.get('op')
        if kind == 'search':
            q = []
            for t in (o.get('q') or [])[:3]:
                if isinstance(t, dict):
                    q.append({'w': _int(t.get('w'), 0, 10 ** 6), 'p': bool(t.get('p')), 'm': _int(t.get('m'), 0, 4)})
            ops.append({'op': 'search', 'carrier': _int(o.get('carrier'), 0, 2), 'user': _int(o.get('user'), 0, 10 ** 6) % len(USERS),
                        'ticket': _int(o.get('ticket'), 0, 2 ** 32 - 1), 'q': q, 'glue': bool(o.get('glue'))})
        elif kind == 'join':
            ops.append({'op': 'join', 'peer': _int(o.get('peer'), 0, 10 ** 6),
                        'via': o.get('via') if o.get('via') in ('indirect', 'obfuscated') else 'direct'})
        elif kind == 'leave':
            ops.append({'op': 'leave', 'glue': o.get('glue') if o.get('glue') in ('before', 'after') else 'none',
                        'which': _int(o.get('which'), 0, 10 ** 6),
                        'how': 'reset' if o.get('how') == 'reset' else 'eof'})
        elif kind == 'pp':
            peers = [_int(p, 0, 10 ** 6) % len(TREE) for p in (o.get('peers') or [])[:2] if isinstance(p, int)]
            if peers:
                ops.append({'op': 'pp', 'peers': peers})
        elif kind == 'announce':
            ops.append({'op': 'announce', 'which': _int(o.get('which'), 0, 10 ** 6), 'form': _int(o.get('form'), 0, 4),
                        'level': _int(o.get('level'), 1, 50, 1), 'root': _int(o.get('root'), 0, 10 ** 6) % len(ROOTS)})
        elif kind == 'setname':
            ops.append({'op': 'setname', 'name': _int(o.get('name'), 0, 10 ** 6) % len(NAMES)})
        elif kind == 'damage':
            ops.append({'op': 'damage', 'file': _int(o.get('file'), 0, 10 ** 6),
                        'how': 'dirfile' if o.get('how') == 'dirfile' else 'delete'})
        elif kind == 'reset':
            ops.append({'op': 'reset', 'slow': _int(o.get('slow'), 0, len(SLOW_CLOSE) - 1),
                        'stall': _int(o.get('stall'), 0, 10 ** 6),
                        'join': [_int(p, 0, 10 ** 6) for p in (o.get('join') or [])[:2] if isinstance(p, int)]})
    return {'files': files, 'friends': _int(case.get('friends'), 0, 15), 'speed': _int(case.get('speed'), 0, 1),
            'asker_close': bool(case.get('asker_close')), 'ops': ops}


def _query_text(terms, file_words):
    out = []
    for t in terms:
        w = file_words[t['w'] % len(file_words)] if t['p'] and file_words else VOCAB[t['w'] % len(VOCAB)]
        m = t['m']
        if m == 1:
            out.append('-' + w)
        elif m == 2:
            out.append('*' + w[1:])
        elif m == 3:
            out.append(w.upper())
        elif m == 4:
            out.append(w[:-1])      # a proper prefix of a word: must not match that word
        else:
            out.append(w)
    return ' '.join(out)


def _file_relpath(f):
    name = SEPS[f['sep']].join(f['w']) + EXTS[f['e']]
    return os.path.join('friends' if f['d'] else 'pub', SUBDIRS[f['s']], name)


# ---------------------------------------------------------------------------
# harness-side model of one scripted distributed connection

class _Conn:
    __slots__ = ('link', 'peer', 'role', 'level', 'root', 'seen', 'incoming', 'raw_pos')

    def __init__(self, link, peer, role, incoming):
        self.link = link
        self.peer = peer          # user name
        self.role = role          # child | parent | candidate | closed-child | closed-parent | closed-candidate
        self.level = None
        self.root = None
        self.seen = 0             # number of messages of the link already attributed to earlier groups
        self.incoming = incoming  # the peer connected to the client
        self.raw_pos = 0          # bytes of the captured client->peer stream already framed (see _capture)

    @property
    def open(self):
        return not self.role.startswith('closed')


def _slow_close(link, delay):
    """The client's transport of this connection confirms close() only after ``delay`` virtual seconds (what a real
    socket transport does while unsent data is buffered for a peer that does not read): is_closing() is true at
    once, connection_lost -- and with it StreamWriter.wait_closed() -- comes later."""
    ep = link.ep
    tr = ep.link.sides[1 - ep.index]

    def close():
        if tr._closing:
            return
        tr._closing = True

        def confirm():
            if tr._lost:
                return
            tr._lost = True
            tr._protocol.connection_lost(None)
            tr._link.side_closed(tr._index)
        tr._loop.call_later(delay, confirm)
    tr.close = close


class _Obs:
    """A frame the client wrote to a scripted connection, decoded by the pinned reference codec (vfw/wire_ref)."""
    __slots__ = ('cls', 'fields')

    def __init__(self, cls, fields):
        self.cls = cls
        self.fields = fields

    def __repr__(self):
        return f'{self.cls}{self.fields!r}'


_REF_KEYS = {'server': 'server:ServerSearchRequest:Response',
             'distributed': 'distributed:DistributedSearchRequest:Request',
             'legacy': 'distributed:DistributedServerSearchRequest:Request'}


def _request_frame(r):
    """The request as bytes, built by the reference codec (independent of the library's serializer)."""
    values = {'unknown': 0x31, 'username': r['user'], 'ticket': r['ticket'], 'query': r['query']}
    if r['carrier'] != 'distributed':
        values['distributed_code'] = 3
    return wire_ref.encode(_REF_KEYS[r['carrier']], values)


def _capture(link):
    """Record every byte the client writes on this scripted connection (the in-memory TCP is lossless and ordered,
    so this is what the peer receives); framed and decoded later by the reference codec as PLAIN frames."""
    link.c14_raw = bytearray()
    own_side = link.ep.index

    def tap(_link, sender, data):
        if sender != own_side:
            link.c14_raw.extend(data)
    link.ep.link.tap = tap


def _ref_frames(k):
    raw = getattr(k.link, 'c14_raw', None)
    out = []
    while len(raw) - k.raw_pos >= 4:
        (n,) = struct.unpack_from('<I', raw, k.raw_pos)
        if len(raw) - k.raw_pos < 4 + n:
            break           # incomplete (or a garbage length prefix: nothing readable follows)
        frame = bytes(raw[k.raw_pos:k.raw_pos + 4 + n])
        k.raw_pos += 4 + n
        key = wire_ref.dispatch('distributed', 'Request', frame)
        if key is None:
            out.append(_Obs('undecodable', None))
            continue
        try:
            values = wire_ref.decode(key, frame)
        except Exception:
            out.append(_Obs('undecodable', None))
            continue
        fields = None
        if all(x in values for x in ('username', 'ticket', 'query')):
            fields = (values['username'], values['ticket'], values['query'])
        out.append(_Obs(key.split(':')[1] + '.Request', fields))
    return out


def _search_fields(msg):
    if isinstance(msg, _Obs):
        return msg.fields
    try:
        return (msg.username, msg.ticket, msg.query)
    except AttributeError:
        return None


def _clsname(msg):
    if isinstance(msg, _Obs):
        return msg.cls
    return type(msg).__qualname__ if not isinstance(msg, tuple) else 'undecodable'


def run_case(case) -> CaseResult:
    res = CaseResult()
    c = _sanitise(case)
    if c is None or not c['files'] or not any(o['op'] == 'search' for o in c['ops']):
        return res
    from aioslsk.constants import POTENTIAL_PARENTS_CACHE_SIZE
    from aioslsk.events import MessageReceivedEvent
    from aioslsk.protocol import messages as M
    from aioslsk.protocol.primitives import PotentialParent

    friends = sorted(FRIEND_POOL[i] for i in range(4) if c['friends'] >> i & 1)
    file_words = [w for f in c['files'] for w in f['w']]
    tmp = tempfile.mkdtemp(prefix='c14-')
    sizes = {}          # absolute path -> size
    try:
        pub = os.path.join(tmp, 'pub')
        fri = os.path.join(tmp, 'friends')
        os.makedirs(pub)
        os.makedirs(fri)
        os.makedirs(os.path.join(tmp, 'dl'))
        for f in c['files']:
            path = os.path.join(tmp, _file_relpath(f))
            os.makedirs(os.path.dirname(path), exist_ok=True)
            with open(path, 'wb') as fh:
                fh.write(b'\x00' * f['n'])
            sizes[path] = f['n']

        groups = []      # evaluated request groups (observations)
        notes = []

        async def main(world: simworld.World):
            s = simworld.mk_settings(OWN)
            s.shares.download = os.path.join(tmp, 'dl')
            xfer.share_dir_settings(s, pub, 'everyone')
            xfer.share_dir_settings(s, fri, 'friends')
            for name in friends:
                s.users.friends.add(name)
            if c['speed']:
                world.server.post_login = [M.ParentMinSpeed.Response(1), M.ParentSpeedRatio.Response(10)]
                world.server.users[OWN] = {'stats': (20480, 5, 10, 2)}
            peers = {}
            for name in ASKERS + TREE:
                peers[name] = world.add_peer(name, indirect='silent')
            pierce_tickets = {}      # ticket of a relayed ConnectToPeer -> link on which the client pierced

            def on_link(link):
                # the client connected to the peer on the peer's (server relayed) request: a distributed connection
                if isinstance(link.init, M.PeerPierceFirewall.Request) and link.init.ticket in pierce_tickets:
                    link.typ = 'D'
                    pierce_tickets[link.init.ticket] = link
                    _capture(link)
            for name in TREE:
                peers[name].on_link = on_link
            client = await world.start_client(s)
            self_replies = []

            async def on_msg(event):
                if isinstance(event.message, M.PeerSearchReply.Request):
                    self_replies.append(event.message)
            client.events.register(MessageReceivedEvent, on_msg)
            await client.shares.scan()
            await asyncio.sleep(QUIET)

            conns: list[_Conn] = []
            cache = collections.deque(maxlen=POTENTIAL_PARENTS_CACHE_SIZE)
            state = {'parent': None}
            reply_seen = {}
            slow_left = [SLOW_BUDGET]
            damaged = set()      # absolute paths that became unreadable after the scan

            def open_conn_of(name):
                return [k for k in conns if k.peer == name and k.open]

            def adopt_outgoing():
                """Connections the client opened to potential parents become candidates of the model."""
                known = {id(k.link) for k in conns}
                for name in TREE:
                    for link in peers[name].links:
                        if link.incoming_to_peer and link.typ == 'D' and id(link) not in known and \
                                isinstance(link.init, M.PeerInit.Request):
                            conns.append(_Conn(link, name, 'candidate', False))

            def model_announce(k, msgs):
                for kind, val in msgs:
                    if not k.open:
                        return
                    if kind == 'level':
                        k.level = val
                        if val == 0:
                            k.root = k.peer
                    else:
                        if k.root == val:
                            continue
                        k.root = val
                    if k.role == 'parent':
                        continue
                    if k.level is not None and k.root is not None:
                        if state['parent'] is None:
                            k.role = 'parent'
                            state['parent'] = k
                            for other in conns:
                                if other.role == 'candidate':
                                    other.role = 'closed-candidate'
                        else:
                            k.role = 'closed-candidate'

            async def quiet():
                await asyncio.sleep(QUIET)
                adopt_outgoing()

            pending = []     # search ops of the current glued group
            pending_leaves = []   # (conn, how): children that leave in the instant of the next / current request

            async def flush():
                if not pending:
                    return
                reqs = list(pending)
                pending.clear()
                srv_before = len(world.server.frames)
                und_before = len(world.server.undecodable)
                self_before = len(self_replies)
                shape = {
                    'children': sorted(k.peer for k in conns if k.role == 'child'),
                    'parent': state['parent'].peer if state['parent'] else None,
                    'candidates': sorted(k.peer for k in conns if k.role == 'candidate'),
                    'closed': sorted(k.peer + ':' + k.role for k in conns if not k.open),
                }
                for r in reqs:
                    if r['carrier'] == 'server':
                        world.server.send(_request_frame(r))
                    else:
                        state['parent'].link.send_msg(_request_frame(r))
                for k, how in pending_leaves:
                    # a child leaves in the very instant the request is passed on ("after": right behind it)
                    (k.link.ep.reset if how == 'reset' else k.link.ep.close)()
                pending_leaves.clear()
                await asyncio.sleep(QUIET)
                # reference result sets (strings only; items are not kept)
                for r in reqs:
                    try:
                        items, _ = client.shares.query(r['query'])
                        found = sorted((it.get_remote_path(), it.get_absolute_path()) for it in items)
                        del items
                    except Exception as exc:     # the query itself is C07's subject
                        found = []
                        notes.append('query-raised:' + type(exc).__name__)
                    vis, lck = [], []
                    r['damaged'] = 0
                    for remote, absolute in found:
                        if absolute in damaged:
                            r['damaged'] += 1      # documented: an item that cannot be converted is omitted
                            continue
                        entry = (remote, sizes.get(absolute, -1))
                        in_friends = absolute.startswith(fri + os.sep)
                        (lck if in_friends and r['user'] not in friends else vis).append(entry)
                    r['visible'], r['locked'] = sorted(vis), sorted(lck)
                obs = {'reqs': reqs, 'shape': shape, 'links': [], 'replies': {}, 'server': [], 'own_lookup': 0,
                       'self_replies': len(self_replies) - self_before,
                       'lib_children': sorted(p.username for p in client.distributed_network.children),
                       'lib_parent': client.distributed_network.parent.username if client.distributed_network.parent else None}
                for k in conns:
                    new = [m for _, m in k.link.messages[k.seen:]]
                    k.seen = len(k.link.messages)
                    if getattr(k.link, 'c14_raw', None) is not None:
                        new = _ref_frames(k)      # independent framing + decoding of what the client wrote
                    obs['links'].append((k.peer, k.role, new))
                for name in sorted(peers):
                    fresh = []
                    for li, link in enumerate(peers[name].links):     # per link: arrival order is per connection
                        start = reply_seen.get((name, li), 0)
                        fresh += [m for _, m in link.messages[start:] if isinstance(m, M.PeerSearchReply.Request)]
                        reply_seen[(name, li)] = len(link.messages)
                    obs['replies'][name] = fresh
                for _, _, m in world.server.frames[srv_before:]:
                    if 'Search' in type(m).__qualname__:
                        obs['server'].append(repr(m))
                    if isinstance(m, M.GetPeerAddress.Request) and m.username == OWN:
                        obs['own_lookup'] += 1
                obs['server'] += ['undecodable:' + fr.hex()[:60] for _, _, fr, _ in world.server.undecodable[und_before:]]
                groups.append(obs)
                for k in conns:
                    if k.role == 'leaving-child':
                        k.role = 'closed-child'
                if c['asker_close']:
                    for name in sorted(peers):
                        for link in peers[name].links:
                            if link.typ == 'P' and not link.ep.closed:
                                link.ep.close()
                    await asyncio.sleep(0.05)

            for oi, o in enumerate(c['ops']):
                kind = o['op']
                if kind == 'leave' and o.get('glue') in ('before', 'after'):
                    nxt = c['ops'][oi + 1] if oi + 1 < len(c['ops']) else None
                    if o['glue'] == 'before' and nxt is not None and nxt['op'] == 'search' and pending:
                        await flush()     # earlier requests are evaluated first; the leave belongs to the next one
                    kids = [k for k in conns if k.open and k.role == 'child']
                    if kids and ((o['glue'] == 'before' and nxt is not None and nxt['op'] == 'search' and not pending) or
                                 (o['glue'] == 'after' and pending)):
                        k = kids[o['which'] % len(kids)]
                        k.role = 'leaving-child'
                        if o['glue'] == 'before':
                            (k.link.ep.reset if o['how'] == 'reset' else k.link.ep.close)()
                        else:
                            pending_leaves.append((k, o['how']))
                        notes.append('child-leaves-in-request-instant:' + o['glue'])
                        continue
                if kind == 'search':
                    parent = state['parent']
                    avail = ['server'] if parent is None else ['distributed', 'legacy']
                    carrier = avail[o['carrier'] % len(avail)]
                    if pending and not o['glue']:
                        await flush()
                    pending.append({'carrier': carrier, 'user': USERS[o['user']], 'ticket': o['ticket'],
                                    'query': _query_text(o['q'], file_words)})
                    continue
                await flush()
                # mark messages that arrive because of membership operations as seen at the next group only:
                # nothing to do here, searches are attributed by group window
                if kind == 'join':
                    free = [n for n in TREE if not open_conn_of(n)]
                    if not free:
                        continue
                    name = free[o['peer'] % len(free)]
                    if name in cache and state['parent'] is None:
                        notes.append('skipped-ambiguous-join')
                        continue
                    role = 'candidate' if name in cache else 'child'
                    if o.get('via') == 'indirect':
                        ticket = 700000 + len(pierce_tickets)
                        pierce_tickets[ticket] = None
                        world.server.send(M.ConnectToPeer.Response(
                            username=name, typ='D', ip=peers[name].ip, port=peers[name].port, ticket=ticket,
                            privileged=False, obfuscated_port_amount=0, obfuscated_port=0))
                        await quiet()
                        link = pierce_tickets[ticket]
                        if link is None:
                            notes.append('indirect-join-not-connected')    # connecting is C11's subject
                            continue
                        conns.append(_Conn(link, name, role, True))
                        notes.append('indirect-join:' + role)
                    else:
                        # 'obfuscated': the peer connects to the obfuscated listening port; only its PeerInit is
                        # obfuscated, everything after it on a distributed connection is plain in both directions
                        obfs = o.get('via') == 'obfuscated'
                        link = peers[name].connect('D', obfuscated=obfs)
                        _capture(link)
                        conns.append(_Conn(link, name, role, True))
                        if obfs:
                            notes.append('obfuscated-port-join:' + role)
                        await quiet()
                elif kind == 'leave':
                    live = [k for k in conns if k.open]
                    if not live:
                        continue
                    k = live[o['which'] % len(live)]
                    if o['how'] == 'reset':
                        k.link.ep.reset()
                    else:
                        k.link.ep.close()
                    if k.role == 'parent':
                        state['parent'] = None
                    k.role = 'closed-' + k.role
                    await quiet()
                elif kind == 'pp':
                    names = []
                    for i in o['peers']:
                        n = TREE[i]
                        if n not in names and not open_conn_of(n):
                            names.append(n)
                    if not names:
                        continue
                    cache.extend(names)
                    world.server.send(M.PotentialParents.Response(
                        [PotentialParent(n, peers[n].ip, peers[n].port) for n in names]))
                    await quiet()
                elif kind == 'announce':
                    adopt_outgoing()
                    pool = [k for k in conns if k.role in ('candidate', 'parent')]
                    if not pool:
                        continue
                    k = pool[o['which'] % len(pool)]
                    form, level, root = o['form'], o['level'], ROOTS[o['root']]
                    if root == k.peer:
                        root = ROOTS[(o['root'] + 1) % len(ROOTS)]
                    if form == 0:
                        msgs = [('level', level), ('root', root)]
                    elif form == 1:
                        msgs = [('root', root), ('level', level)]
                    elif form == 2:
                        msgs = [('level', 0)]
                    elif form == 3:
                        msgs = [('level', level)]
                    else:
                        msgs = [('root', root)]
                    for mk, val in msgs:
                        k.link.send_msg(M.DistributedBranchLevel.Request(val) if mk == 'level'
                                        else M.DistributedBranchRoot.Request(val))
                    model_announce(k, msgs)
                    await quiet()
                elif kind == 'setname':
                    # run-time change of a setting; the session (user OWN) stays as it is
                    client.settings.credentials.username = NAMES[o['name']]
                    if NAMES[o['name']] != OWN:
                        notes.append('configured-username-differs-from-session-user')
                    await asyncio.sleep(0.01)
                elif kind == 'damage':
                    f = c['files'][o['file'] % len(c['files'])]
                    path = os.path.join(tmp, _file_relpath(f))
                    if o['how'] == 'dirfile' and f['s'] > 0:
                        d = os.path.dirname(path)
                        if os.path.isdir(d):
                            shutil.rmtree(d)
                            with open(d, 'wb'):
                                pass
                            damaged.update(p for p in sizes if p.startswith(d + os.sep))
                            notes.append('damage:directory-replaced-by-file')
                    elif os.path.isfile(path):
                        os.remove(path)
                        damaged.add(path)
                        notes.append('damage:file-deleted')
                elif kind == 'reset':
                    kids = [k for k in conns if k.role == 'child']
                    delay = SLOW_CLOSE[o.get('slow', 0)]
                    if delay and kids and slow_left[0] >= delay:
                        slow_left[0] -= delay
                        _slow_close(kids[o['stall'] % len(kids)].link, delay)
                        notes.append('reset-with-slow-child-close')
                    else:
                        delay = 0.0
                    world.server.send(M.ResetDistributed.Response())
                    for k in conns:
                        if k.role in ('child', 'parent'):
                            k.role = 'closed-' + k.role
                    state['parent'] = None
                    # peers that connect while the client is still closing its old children: they are accepted
                    # (told the branch level) and are current children from then on
                    for step, i in enumerate(o.get('join', [])):
                        await asyncio.sleep(0.05)
                        free = [n for n in TREE if not open_conn_of(n) and n not in cache]
                        if not free:
                            break
                        name = free[i % len(free)]
                        link = peers[name].connect('D')
                        _capture(link)
                        conns.append(_Conn(link, name, 'child', True))
                        if delay > 0.05 * (step + 1):
                            notes.append('child-joins-during-reset')
                    await asyncio.sleep(delay)
                    await quiet()
            await flush()
            await client.stop()

        _, loop_errors = simworld.run_world(main)
    finally:
        shutil.rmtree(tmp, ignore_errors=True)

    _evaluate(res, groups, notes, loop_errors)
    if c['speed']:
        res.label('speed-values-announced')
    if c['asker_close']:
        res.label('asker-closes-reply-connection')
    return res


# ---------------------------------------------------------------------------
# oracle

def _user_class(user):
    if user == OWN:
        return 'own'
    if user in UNKNOWN:
        return 'unknown'
    return 'asker' if user in ASKERS else 'tree-member'


def _evaluate(res, groups, notes, loop_errors):
    nontrivial_keys = []
    for g in groups:
        reqs = g['reqs']
        carrier0 = reqs[0]['carrier']
        ctx = (f"shape={g['shape']} lib_children={g['lib_children']} lib_parent={g['lib_parent']} "
               f"requests={[(r['carrier'], r['user'], r['ticket'], r['query']) for r in reqs]}")

        def carrier_of(triple, default=carrier0):
            for r in reqs:
                if (r['user'], r['ticket'], r['query']) == triple:
                    return r['carrier']
            return default

        # ---- forwarding ---------------------------------------------------
        expect = collections.Counter()
        for r in reqs:
            if r['user'] != OWN:
                expect[(r['user'], r['ticket'], r['query'])] += 1
        own_triples = {(r['user'], r['ticket'], r['query']) for r in reqs if r['user'] == OWN}
        for peer, role, new in g['links']:
            searches = [m for m in new if 'Search' in _clsname(m) or _clsname(m) == 'undecodable']
            if role == 'leaving-child':
                # left in the very instant of the request: may or may not have received it, never twice
                cnt = collections.Counter(_search_fields(m) for m in searches)
                for triple, n in cnt.items():
                    if n > 1:
                        res.violate(f"C14/forwarded-more-than-once:{carrier_of(triple)}",
                                    f"leaving child {peer} received {n}x {triple}; {ctx}")
                continue
            if role != 'child':
                if searches:
                    m = searches[0]
                    f = _search_fields(m)
                    res.violate(f"C14/forwarded-to-non-child:{role}:{carrier_of(f)}",
                                f"{peer} ({role}) received {searches!r:.400}; {ctx}")
                continue
            got = collections.Counter()
            for m in searches:
                f = _search_fields(m)
                if _clsname(m) != 'DistributedSearchRequest.Request':
                    res.violate(f"C14/forward-wrong-class:{carrier_of(f)}:{_clsname(m)}", f"child {peer} received {m!r:.300}; {ctx}")
                    if f is None:
                        continue
                got[f] += 1
            missing = []
            leftover = []
            for triple in sorted(set(got) | set(expect), key=repr):
                n, want = got.get(triple, 0), expect.get(triple, 0)
                if triple in own_triples:
                    if n:
                        res.violate(f"C14/own-search-forwarded:{carrier_of(triple)}",
                                    f"child {peer} received {n}x {triple}; {ctx}")
                    continue
                if want == 0:
                    leftover += [triple] * n
                elif n < want:
                    missing += [triple] * (want - n)
                elif n > want:
                    res.violate(f"C14/forwarded-more-than-once:{carrier_of(triple)}",
                                f"child {peer} received {n}x {triple}, expected {want}; {ctx}")
            for a in leftover:
                if missing:
                    best = max(missing, key=lambda e: sum(x == y for x, y in zip(a, e)))
                    missing.remove(best)
                    diff = '+'.join(nm for nm, x, y in zip(('username', 'ticket', 'query'), a, best) if x != y)
                    res.violate(f"C14/forward-altered:{carrier_of(best)}:{diff}",
                                f"child {peer} received {a}, request was {best}; {ctx}")
                else:
                    res.violate(f"C14/forward-unexpected:{carrier0}", f"child {peer} received {a}; {ctx}")
            for e in missing:
                res.violate(f"C14/not-forwarded-to-child:{carrier_of(e)}", f"child {peer} did not receive {e}; {ctx}")
        if g['server']:
            res.violate(f"C14/search-sent-to-server:{carrier0}", f"{g['server'][:3]}; {ctx}")

        # ---- own requests are not answered ----------------------------------
        own_reqs = [r for r in reqs if r['user'] == OWN]
        if own_reqs and (g['own_lookup'] or g['self_replies']):
            res.violate(f"C14/own-search-answered:{own_reqs[0]['carrier']}",
                        f"own address lookups={g['own_lookup']} PeerSearchReply received by the client itself="
                        f"{g['self_replies']}; {ctx}")

        # ---- replies --------------------------------------------------------
        for name in sorted(g['replies']):
            actual = []
            for m in g['replies'][name]:
                vis = sorted((fd.filename, fd.filesize) for fd in (m.results or []))
                lck = sorted((fd.filename, fd.filesize) for fd in (m.locked_results or []))
                actual.append((m.username, m.ticket, vis, lck))
            expected = []
            for r in reqs:
                if r['user'] == name and name != OWN and (r['visible'] or r['locked']):
                    expected.append((OWN, r['ticket'], r['visible'], r['locked'], r['carrier']))
            # every match became unreadable after the scan: the reply is not specified (none, or one without files)
            optional = [r['ticket'] for r in reqs if r['user'] == name and name != OWN and r['damaged'] and
                        not r['visible'] and not r['locked']]
            matched = []
            rest_a = []
            rest_e = list(expected)
            for a in actual:
                hit = next((e for e in rest_e if e[:4] == a), None)
                if hit is not None:
                    rest_e.remove(hit)
                    matched.append(hit)
                else:
                    rest_a.append(a)
            for a in rest_a:
                cands = [e for e in rest_e if e[1] == a[1]] or rest_e
                if cands:
                    e = cands[0]
                    rest_e.remove(e)
                    if a[0] != e[0]:
                        res.violate(f"C14/reply-wrong-username:{e[4]}", f"{name} received username={a[0]!r}; {ctx}")
                    if a[1] != e[1]:
                        res.violate(f"C14/reply-wrong-ticket:{e[4]}", f"{name} received ticket={a[1]} expected {e[1]}; {ctx}")
                    parts = [nm for nm, x, y in (('visible', a[2], e[2]), ('locked', a[3], e[3])) if x != y]
                    if parts:
                        res.violate(f"C14/reply-wrong-files:{e[4]}:{'+'.join(parts)}",
                                    f"{name} received results={a[2]} locked={a[3]}, expected results={e[2]} "
                                    f"locked={e[3]}; {ctx}")
                    continue
                if a[0] == OWN and a[1] in optional and not a[2] and not a[3]:
                    optional.remove(a[1])
                    res.label('empty-reply-all-matches-unreadable')
                    continue
                carrier = next((r['carrier'] for r in reqs if r['ticket'] == a[1]), carrier0)
                if any(e[:4] == a for e in matched):
                    res.violate(f"C14/reply-more-than-once:{carrier}", f"{name} received again {a!r:.300}; {ctx}")
                elif not a[2] and not a[3]:
                    res.violate(f"C14/reply-without-matches:{carrier}", f"{name} received {a!r:.300}; {ctx}")
                else:
                    res.violate(f"C14/reply-unexpected:{carrier}", f"{name} received {a!r:.300}; {ctx}")
            for e in rest_e:
                res.violate(f"C14/no-reply:{e[4]}", f"{name} did not receive a reply for ticket {e[1]} "
                                                   f"(results={e[2]} locked={e[3]}); {ctx}")

        # ---- labels / coverage -----------------------------------------------
        nkids = len(g['shape']['children'])
        for r in reqs:
            ucls = _user_class(r['user'])
            rcls = ('visible+locked' if r['visible'] and r['locked'] else 'visible' if r['visible']
                    else 'locked' if r['locked'] else 'none')
            res.label('carrier:' + r['carrier'], 'user:' + ucls, 'result:' + rcls, 'children:%d' % nkids)
            if r['damaged']:
                res.label('unreadable-match:' + ('with-readable-match' if r['visible'] or r['locked'] else 'only'))
            if nkids and (r['visible'] or r['locked']):
                nontrivial_keys.append([nkids, bool(g['shape']['parent']), bool(g['shape']['candidates']),
                                        bool(g['shape']['closed']), r['carrier'], ucls, rcls])
        if len(reqs) > 1:
            res.label('glued-group')
        if g['shape']['candidates']:
            res.label('with-candidate')
        if any(x.endswith('closed-child') for x in g['shape']['closed']):
            res.label('with-closed-child')
        if g['shape']['parent']:
            res.label('with-parent')
        if sorted(g['shape']['children']) != g['lib_children'] or g['shape']['parent'] != g['lib_parent']:
            res.label('model-differs-from-library-state')
    for n in sorted(set(notes)):
        res.label(n)
    for e in loop_errors:
        res.violate(f"C14/loop-error:{e['exc_type']}", str(e)[:300])
        break
    res.nontrivial = bool(nontrivial_keys)
    if nontrivial_keys:
        res.key = sorted(nontrivial_keys, key=repr)


def run_shard(ctx):
    # odd shards never use the own username as asker: the space behind the own-search findings (a client that
    # answered itself has an extra connection to itself) is explored without their trigger too
    n = 75 if ctx.tier == 'quick' else 2000
    ctx.explore(case_strategy(avoid_own=(ctx.shard % 2 == 1)), n)


MANIFEST_ENTRY = {
    'technique': 'property-based testing (Hypothesis): generated distributed-tree histories (parent, candidates, '
                 'children joining/leaving, reset) and search requests over all three carriers against a real logged-in '
                 'client on a virtual-time loop with in-memory TCP; per-connection frame observers and a reference '
                 'model of tree membership and of visible/locked result sets as oracle',
    'level_text': 'Generated-history exploration of the real SoulSeekClient (DistributedNetwork + SearchManager + '
                  'SharesManager on real files) against a simulated server and scripted distributed peers: every '
                  'frame received by every child, parent, candidate, closed connection, asker and the server is '
                  'compared with the exactly-once fan-out / exactly-one-reply reference after each request group.',
    'level_note': 'Trusted base: virtual loop and in-memory TCP (ordered, lossless, 1 ms latency), the scripted '
                  'server/peers of vfw/simworld.py, the membership model in checks/c14.py, SharesManager.query for '
                  'the matching file set (C07/C08). Membership changes only at quiescent points (0.5 s apart), except '
                  'children that leave in the request instant and children that join while a distributed reset '
                  'still awaits a slowly closing child.',
}

_Q = [{'w': 0, 'p': True, 'm': 0}]
_FILES = [{'d': 0, 's': 0, 'w': [0], 'sep': 0, 'e': 2, 'n': 1}]
_PARENT = [{'op': 'pp', 'peers': [4]}, {'op': 'announce', 'which': 0, 'form': 0, 'level': 1, 'root': 0}]


def _known(carrier, child):
    ops = ([{'op': 'join', 'peer': 0}] if child else []) + _PARENT + [
        {'op': 'search', 'carrier': carrier, 'user': USERS.index(OWN), 'ticket': 7, 'q': _Q, 'glue': False}]
    return {'files': _FILES, 'friends': 0, 'speed': 0, 'asker_close': False, 'ops': ops}


KNOWN_REPLAYS = {
    'C14/own-search-forwarded:distributed': _known(0, True),
    'C14/own-search-forwarded:legacy': _known(1, True),
    'C14/own-search-answered:distributed': _known(0, False),
    'C14/own-search-answered:legacy': _known(1, False),
}
