"""C11 — connecting to a peer succeeds iff a path works, and leaves nothing behind (DESIGN §3 C11)."""
from __future__ import annotations

import asyncio
import struct

from hypothesis import strategies as st

from vfw import simloop, simnet, simworld
from vfw.runner import CaseResult

PROPERTY = 'C11'
LEVEL = 'fault_enumeration'
RULE = (
    "Case (role 'request') = one Network.create_peer_connection(peer, typ) on a real Network + EventBus over the "
    "in-memory TCP layer against a simulated server and one scripted peer: connect mode {fallback, race} x direct "
    "outcome {accept after d ms (fast < 1 s, slow <= 9.5 s), refused after d ms, hang (10 s connect timeout), accept "
    "then the PeerInit write fails, server reports no address} x indirect outcome {peer pierces i ms after the relay "
    "(fast < 1 s, slow <= 59 s), server relays CannotConnect after i ms, silence (60 s timeout), the ConnectToPeer "
    "write to the server fails, peer pierces AND server relays CannotConnect for the same ticket (either order, and "
    "in the same instant swept over 0..8 loop-iteration offsets on either delivery)} x optionally a first message "
    "glued to the pierce message in one TCP segment x peer ports {clear, obfuscated, both} x network.peer.obfuscate "
    "x address looked up "
    "/ passed by the caller x connection type P/D/F x pierce to our clear/obfuscated port x optional cancellation of "
    "the request task at c ms. The outcome table is enumerated in full (every cell with all its d<i, i<d timing "
    "representatives and all five port / preference configurations), every alignable cell also with both outcomes in the *same "
    "virtual instant* swept over sub-instant offsets (0..10 extra loop iterations on either side), and every cell "
    "with cancellation at, between and after each modelled event (lookup reply, direct outcome, relay, indirect "
    "outcome, completion; ties swept over iteration offsets and over listeners that yield, incl. the cancellation "
    "firing 0..3 iterations before / after the winner's result is reported, i.e. also while the race tears the loser "
    "down); Hypothesis adds cases "
    "with drawn timings. Role 'reverse' = a ConnectToPeer.Response from the server on behalf of a peer whose "
    "address accepts / refuses / hangs / fails the PeerPierceFirewall write / has no port, x ports x preference x "
    "type, after a history of 0..2 earlier connections with that same peer (every sequence enumerated: opened by our "
    "own create_peer_connection or by the peer's PeerInit, type P or D, still open or closed again by the peer) in "
    "either connect mode: the answer is owed whatever connections exist already, and those connections are not "
    "residue. Oracle (outcome table computed from the case; events closer than 5 ms are ties and both orders are "
    "accepted): the request returns a connection iff the direct attempt succeeds within 10 s or the indirect one "
    "within 60 s of its own start (fallback: the indirect attempt starts when the direct one failed; race: the "
    "earlier success wins), otherwise it raises PeerConnectionError and nothing else, a cancelled request raises "
    "CancelledError; completion is not later than the modelled instant + 1 s. A returned connection is registered, "
    "CONNECTED, ESTABLISHED (F: NEGOTIATING_TRANSFER), has the peer's username and the requested type, was announced "
    "by one PeerInitializedEvent, the peer saw PeerInit(our name, type) / the relayed ticket, a message sent on it "
    "reaches the scripted peer and a message from the peer is delivered as MessageReceivedEvent for it (F: raw "
    "bytes both ways). Port selection: every TCP connect goes to the port select_port documents. Residue, observed "
    "at completion (+20 loop iterations, zero virtual time), 0.2 s after every later scripted event and 100 s after "
    "the last one (the peer keeps every open link alive with a message every 25 s): no entry in "
    "_expected_connection_futures, no entry in _expected_response_futures, Network.peer_connections == [returned "
    "connection] (accepted sockets whose init message is still in flight are only judged at the end), every other "
    "simulated socket closed on our side, no attempt task of the race still running, no loop error. The residue kind "
    "names what was left and in which situation (race loser cancelled / request cancelled / ConnectToPeer write "
    "failed / normal completion); a connection left by a cancelled request gets the suffix announced-before-cancel "
    "when its PeerInitializedEvent had been emitted no later than the instant the cancelled request finished. "
    "A peer may advertise a port no TCP connect can be made to (uint32 on the wire: 65536, 70000, 2**32-1, or 0 "
    "with an address): the direct attempt then fails at once and everything else holds unchanged (success iff the "
    "indirect path works, PeerConnectionError and no other exception type otherwise, nothing left; reverse role: "
    "CannotConnect). Role 'multi' = 2..3 create_peer_connection calls in flight at once (different users or the same "
    "user twice; started in the same instant or so that a server message for one coincides with the address reply "
    "of another) with the server's messages of one instant delivered in separate segments, glued in ONE segment, or "
    "glued in reverse order: each request is judged by the same outcome table, must return or raise within the "
    "documented timeouts (10 s + 60 s + 10 s slack, else request-never-finished), no two requests get the same "
    "connection, registry == the returned connections, no waiter / socket / task left. "
    "In every role a peer without obfuscated port may have its address relayed WITHOUT the optional obfuscated port "
    "part (GetPeerAddress.Response / ConnectToPeer.Response fields absent on the wire, None after decoding) x "
    "network.peer.obfuscate: nothing changes in the expectation (the clear port is used). Role 'multi' may also lose "
    "the server connection and log in again (connect_server + SessionInitializedEvent) between two overlapping "
    "requests (the earlier one already past its lookup and ConnectToPeer): outcomes as per table, and the tickets in "
    "the ConnectToPeer requests the server receives for requests whose indirect attempts overlap in time are distinct. "
    "Role 'reuse' = the re-use path in front of create_peer_connection (Network.get_peer_connection / "
    "send_peer_messages) with an earlier P/D connection to the peer (made by us or by the peer) that is being closed "
    "(EOF / reset by the peer, local disconnect) while a listener of its CLOSING report suspends for 0 / 300 ms "
    "(drawn: up to 1.5 s): calls before the close, in the first iterations / middle / end of the CLOSING window and "
    "right after CLOSED, x peer reachable directly / only indirectly / not at all. The state of the earlier connection "
    "is read in the same step in which the library looks at its connections: CONNECTED -> re-use is right (the message "
    "/ probe must arrive when the peer had not closed yet); CLOSING / CLOSED -> that connection must not be handed "
    "out, a new usable connection (or delivery of the message to the peer) is owed iff a path works, else "
    "PeerConnectionError -- never a silent drop; afterwards the earlier connection is CLOSED and unregistered and "
    "nothing but the new connection remains. "
    "Reverse role: the peer observed PeerPierceFirewall(ticket) "
    "xor the server observed CannotConnect.Request(ticket, peer), success leaves exactly that initialised usable "
    "connection, failure leaves nothing; no connect task remains. Non-trivial = the other attempt was still pending "
    "when the request finished, or the request was cancelled mid-attempt, or (fallback) the indirect attempt "
    "started; distinct = distinct case document."
)
ASSUMPTIONS = [
    "in-memory TCP: ordered, lossless, strictly positive latency (1 ms per hop); loop iterations take zero virtual "
    "time, so 'same instant' orders are explored by delaying a delivery / a connect result / the cancellation by a "
    "number of loop iterations",
    "PEER_CONNECT_TIMEOUT = 10 s and PEER_INDIRECT_CONNECT_TIMEOUT = 60 s are pinned in the model (slow successes "
    "are generated up to 9.5 s / 59 s)",
    "roles 'request' and 'reverse' run one request per case, role 'multi' 2..3 concurrent ones (no cancellation, "
    "requests for the same user share that user's peer behaviour); the scripted peer gives one indirect outcome (pierce, CannotConnect, silence) or, kind "
    "'both', a pierce and a CannotConnect relay for the same ticket: the earlier one decides the indirect attempt, "
    "within 5 ms either resolution is accepted but nothing may be left behind",
    "when the ConnectToPeer write to the server fails in race mode the caller passes ip/port (the failed write "
    "closes the server connection; a direct attempt still waiting for GetPeerAddress on a dead server connection "
    "has no timeout of its own and is outside the quantifier)",
    "listeners of PeerInitializedEvent may yield to the loop (0..3 iterations), as the library's own managers do",
    "the reverse role does not include failure of the CannotConnect write itself",
    "attempt tasks of the race are recognised by their task names (direct-connect-* / indirect-connect-*); their "
    "'exception was never retrieved' records are ignored because they appear at garbage-collection time",
]
BUDGET_S = {'quick': 150, 'thorough': 1500}

EPS_MS = 5.0
CONNECT_TIMEOUT_MS = 10000.0
INDIRECT_TIMEOUT_MS = 60000.0
LATE_MS = 1000.0
HORIZON_S = 100.0
KEEPALIVE_S = 25.0
HARD_LIMIT_S = 200.0
MAX_HOPS = 16

DIRECT = ['accept', 'refuse', 'hang', 'initfail', 'noaddr', 'badport']
BAD_PORTS = [65536, 70000, 2 ** 32 - 1, 0]    # advertised ports no TCP connect can be made to (uint32 on the wire)
INDIRECT = ['pierce', 'cannot', 'silent', 'sendfail', 'both']
REV_DIRECT = ['accept', 'refuse', 'hang', 'initfail', 'badport']
PORTS = ['clear', 'obf', 'both']
REV_PORTS = ['clear', 'obf', 'both', 'none']
TYPES = ['P', 'D', 'F']
PEER_NAME = 'bob'
PEER_IP = '20.0.0.1'
CLEAR_PORT, OBF_PORT = 2234, 2235
MY_PORTS = (60000, 60001)


# ---------------------------------------------------------------------------
# case normalisation (run_case is total: the runner shrinks at the JSON level)

def _int(v, lo, hi, default):
    try:
        if isinstance(v, bool):
            v = int(v)
        v = int(v)
    except Exception:
        v = default
    return max(lo, min(hi, v))


def _pick(v, domain, default):
    return v if isinstance(v, str) and v in domain else default


def _bad_port(v):
    """Port advertised by a 'badport' peer: 0 or a uint32 above 65535 (clamped into that domain)."""
    v = _int(v, 0, 2 ** 32 - 1, 70000)
    return v if (v == 0 or v > 65535) else 65536


def _advertised(c):
    """-> (clear port, obfuscated port) the server hands out for the peer of a request / reverse case"""
    if c['direct']['kind'] == 'badport':
        n = c['direct']['port']
        return (n if c['ports'] in ('clear', 'both') else 0), (n if c['ports'] in ('obf', 'both') else 0)
    return (CLEAR_PORT if c['ports'] in ('clear', 'both') else 0), (OBF_PORT if c['ports'] in ('obf', 'both') else 0)


MULTI_USERS = ['alice', 'bob', 'carol']
MULTI_DIRECT = ['accept', 'refuse', 'hang', 'noaddr', 'badport']
MULTI_INDIRECT = ['pierce', 'cannot', 'silent']


def _sanitise_multi(case):
    """2..3 concurrent requests; requests for the same user share that user's (first given) peer behaviour."""
    reqs = []
    behaviour = {}
    raw = case.get('requests')
    for r in (raw if isinstance(raw, list) else [])[:3]:
        if not isinstance(r, dict):
            continue
        user = _int(r.get('user', 0), 0, len(MULTI_USERS) - 1, 0)
        d = r.get('direct') if isinstance(r.get('direct'), dict) else {}
        i = r.get('indirect') if isinstance(r.get('indirect'), dict) else {}
        beh = behaviour.setdefault(user, {
            'direct': {'kind': _pick(d.get('kind'), MULTI_DIRECT, 'accept'), 'ms': _int(d.get('ms', 2), 1, 9500, 2),
                       'port': _bad_port(d.get('port'))},
            'indirect': {'kind': _pick(i.get('kind'), MULTI_INDIRECT, 'pierce'),
                         'ms': _int(i.get('ms', 2), 1, 59000, 2), 'obf': bool(i.get('obf')), 'cc_ms': 2,
                         'glue': False}})
        reqs.append({'user': user, 'typ': _pick(r.get('typ'), ('P', 'D'), 'P'),
                     'start_ms': _int(r.get('start_ms', 0), 0, 5000, 0),
                     'direct': beh['direct'], 'indirect': beh['indirect']})
    if len(reqs) < 2:
        return None
    mode = _pick(case.get('mode'), ('fallback', 'race'), 'fallback')
    relogin = case.get('relogin_ms')
    if relogin is not None:
        # the server connection is lost at relogin_ms and we log in again right away. Requests started before it must
        # have their address and their ConnectToPeer through by then (a lookup on a dead server connection has no
        # timeout: outside the quantifier), requests after it start once the new session is initialised
        relogin = _int(relogin, 0, 20000, 10)
        early = [r for r in reqs if r['start_ms'] < relogin]
        for r in early:
            m = _model({'addr': 'lookup', 'mode': mode, 'cancel_ms': None, 'direct': r['direct'],
                        'indirect': r['indirect']})
            ready = r['start_ms'] + max(m['look'], (m['s_i'] if m['s_i'] is not None else 0.0) + 1.0) + 2.0
            relogin = max(relogin, int(ready) + 1)
        for r in reqs:
            if r not in early:
                r['start_ms'] = max(r['start_ms'], relogin + 10)
    return {'role': 'multi', 'mode': mode, 'requests': reqs,
            'glue': bool(case.get('glue')), 'reverse_replies': bool(case.get('reverse_replies')),
            'prefer_obf': bool(case.get('prefer_obf')), 'omit_obf': bool(case.get('omit_obf')),
            'relogin_ms': relogin, 'ev_hops': _int(case.get('ev_hops', 0), 0, 3, 0)}


def _sanitise_reuse(case):
    d = case.get('direct') if isinstance(case.get('direct'), dict) else {}
    i = case.get('indirect') if isinstance(case.get('indirect'), dict) else {}
    call = case.get('call') if isinstance(case.get('call'), dict) else {}
    api = _pick(case.get('api'), ('get', 'send'), 'get')
    return {
        'role': 'reuse', 'mode': _pick(case.get('mode'), ('fallback', 'race'), 'fallback'),
        'typ': 'P' if api == 'send' else _pick(case.get('typ'), ('P', 'D'), 'P'),
        'api': api, 'how': _pick(case.get('how'), ('out', 'in'), 'out'),
        'close': _pick(case.get('close'), ('eof', 'reset', 'local'), 'eof'),
        'hold_ms': _int(case.get('hold_ms', 0), 0, 2000, 0),
        'call': {'phase': _pick(call.get('phase'), ('before', 'inside', 'after'), 'inside'),
                 'ms': _int(call.get('ms', 0), 0, 2000, 0), 'hops': _int(call.get('hops', 0), 0, MAX_HOPS, 0)},
        'direct': {'kind': _pick(d.get('kind'), ('accept', 'refuse'), 'accept'), 'ms': _int(d.get('ms', 2), 1, 200, 2),
                   'port': 70000},
        'indirect': {'kind': _pick(i.get('kind'), ('pierce', 'cannot', 'silent'), 'silent'),
                     'ms': _int(i.get('ms', 2), 1, 200, 2), 'obf': bool(i.get('obf')), 'cc_ms': 2, 'glue': False},
        'prefer_obf': False, 'ev_hops': _int(case.get('ev_hops', 0), 0, 3, 0),
    }


def _sanitise(case):
    if not isinstance(case, dict):
        return None
    role = _pick(case.get('role'), ('request', 'reverse', 'multi', 'reuse'), 'request')
    if role == 'multi':
        return _sanitise_multi(case)
    if role == 'reuse':
        return _sanitise_reuse(case)
    d = case.get('direct') if isinstance(case.get('direct'), dict) else {}
    i = case.get('indirect') if isinstance(case.get('indirect'), dict) else {}
    c = {
        'role': role,
        'typ': _pick(case.get('typ'), TYPES, 'P'),
        'prefer_obf': bool(case.get('prefer_obf')),
        'omit_obf': bool(case.get('omit_obf')),     # a peer without obfuscated port: that part is absent, not 0
        'ev_hops': _int(case.get('ev_hops', 0), 0, 3, 0),
        'd_hops': _int(case.get('d_hops', 0), 0, MAX_HOPS, 0),
    }
    if role == 'reverse':
        c['ports'] = _pick(case.get('ports'), REV_PORTS, 'clear')
        c['direct'] = {'kind': _pick(d.get('kind'), REV_DIRECT, 'accept'), 'ms': _int(d.get('ms', 2), 1, 9500, 2),
                       'port': _bad_port(d.get('port'))}
        if c['direct']['kind'] == 'badport' and c['ports'] == 'none':
            c['ports'] = 'clear'
        c['mode'] = _pick(case.get('mode'), ('fallback', 'race'), 'race')
        pre = []
        raw = case.get('pre')
        for p in (raw if isinstance(raw, list) else [])[:2]:
            if not isinstance(p, dict):
                continue
            how = _pick(p.get('how'), ('out', 'in'), 'in')
            if c['ports'] == 'none':
                how = 'in'          # a peer without a listening port can only have connected to us
            pre.append({'how': how, 'typ': _pick(p.get('typ'), ('P', 'D'), 'P'), 'closed': bool(p.get('closed'))})
        c['pre'] = pre
        return c
    c['mode'] = _pick(case.get('mode'), ('fallback', 'race'), 'fallback')
    c['ports'] = _pick(case.get('ports'), PORTS, 'clear')
    c['direct'] = {'kind': _pick(d.get('kind'), DIRECT, 'accept'), 'ms': _int(d.get('ms', 2), 1, 9500, 2),
                   'port': _bad_port(d.get('port'))}
    if c['direct']['kind'] == 'badport':
        # GetPeerAddress carries the obfuscated port as uint16: only the clear port (uint32) can be out of range
        c['ports'] = 'clear'
    c['indirect'] = {'kind': _pick(i.get('kind'), INDIRECT, 'pierce'), 'ms': _int(i.get('ms', 2), 1, 59000, 2),
                     'obf': bool(i.get('obf')),
                     # kind 'both': the peer pierces after ms AND the server relays CannotConnect after cc_ms
                     'cc_ms': _int(i.get('cc_ms', 2), 1, 59000, 2), 'glue': bool(i.get('glue'))}
    c['cc_hops'] = _int(case.get('cc_hops', 0), 0, MAX_HOPS, 0)
    c['i_hops'] = _int(case.get('i_hops', 0), 0, MAX_HOPS, 0)
    c['c_hops'] = _int(case.get('c_hops', 0), 0, MAX_HOPS, 0)
    cancel = case.get('cancel_ms')
    c['cancel_ms'] = None if cancel is None else _int(cancel, 0, 80000, 0)
    addr = _pick(case.get('addr'), ('lookup', 'given'), 'lookup')
    if c['indirect']['kind'] == 'sendfail' and c['mode'] == 'race':
        # the failed write closes the server connection in the instant the request starts: the direct attempt
        # must not depend on the server (see ASSUMPTIONS)
        addr = 'given'
        if c['direct']['kind'] == 'noaddr':
            c['direct']['kind'] = 'refuse'
    elif c['direct']['kind'] == 'noaddr':
        addr = 'lookup'
    c['addr'] = addr
    return c


def _expected_port(ports, prefer_obf):
    """-> (port, obfuscated) as documented for Network.select_port"""
    if ports == 'both':
        return (OBF_PORT, True) if prefer_obf else (CLEAR_PORT, False)
    if ports == 'clear':
        return CLEAR_PORT, False
    if ports == 'obf':
        return OBF_PORT, True
    return 0, True


# ---------------------------------------------------------------------------
# outcome table (reference model, times in ms relative to the start of the request)

def _model_variant(c, pierce_wins):
    """Outcome table for one resolution of an ambiguous indirect outcome (kind 'both' with pierce and CannotConnect
    in the same instant: ``pierce_wins`` says which of the two the attempt acts upon)."""
    look = 2.0 if c['addr'] == 'lookup' else 0.0
    dk, ik = c['direct']['kind'], c['indirect']['kind']
    d_ms, i_ms = float(c['direct']['ms']), float(c['indirect']['ms'])
    d_ok = dk == 'accept'
    if dk in ('accept', 'refuse', 'initfail'):
        t_d = look + d_ms
    elif dk == 'hang':
        t_d = look + CONNECT_TIMEOUT_MS
    elif dk == 'badport':
        t_d = look          # no connect can even be attempted (port 0 given by the caller: refused at once)
    else:
        t_d = 2.0
    if ik == 'both':
        # the attempt ends with whichever of the two arrives first
        rel = 2.0 + min(i_ms, float(c['indirect']['cc_ms']))
        i_ok = pierce_wins
    else:
        rel = {'pierce': 2.0 + i_ms, 'cannot': 2.0 + i_ms, 'silent': INDIRECT_TIMEOUT_MS, 'sendfail': 0.0}[ik]
        i_ok = ik == 'pierce'
    race = c['mode'] == 'race'
    s_i = 0.0 if race else (None if d_ok else t_d)
    t_i = None if s_i is None else s_i + rel
    if race:
        succ = ([(t_d, 'direct')] if d_ok else []) + ([(t_i, 'indirect')] if i_ok else [])
        if succ:
            t_ret = min(t for t, _ in succ)
            allowed = {w for t, w in succ if t <= t_ret + EPS_MS}
        else:
            t_ret = max(t_d, t_i)
            allowed = {'error'}
    elif d_ok:
        t_ret, allowed = t_d, {'direct'}
    elif i_ok:
        t_ret, allowed = t_i, {'indirect'}
    else:
        t_ret, allowed = t_i, {'error'}
    works = sorted(w for w, ok in (('direct', d_ok), ('indirect', i_ok and (race or not d_ok))) if ok)
    t_c = c['cancel_ms']
    cancel_class = 'none'
    if t_c is not None:
        if t_c < t_ret - EPS_MS:
            allowed = {'cancelled'}
            cancel_class = 'before-completion'
        elif t_c <= t_ret + EPS_MS:
            allowed = set(allowed) | {'cancelled'}
            cancel_class = 'tie-with-completion'
        else:
            cancel_class = 'after-completion'
    if t_i is None:
        order = 'indirect-not-started'
    else:
        order = 'same-instant' if abs(t_d - t_i) <= EPS_MS else ('direct-first' if t_d < t_i else 'indirect-first')
    # instants (ms) at which the environment does something for this request
    events = [t_d]
    if s_i is not None:
        if ik == 'both':
            events += [s_i + 2.0 + i_ms, s_i + 2.0 + float(c['indirect']['cc_ms'])]
        else:
            events.append(t_i)
    return {'t_d': t_d, 't_i': t_i, 's_i': s_i, 't_ret': t_ret, 'allowed': allowed, 'd_ok': d_ok, 'i_ok': i_ok,
            'works': works, 'cancel_class': cancel_class, 'order': order, 'look': look, 'events': events,
            't_exp': {tag: t_ret for tag in allowed if tag != 'cancelled'}, 'ambiguous': False}


def _model(c):
    """Reference outcome. For kind 'both' the indirect attempt succeeds when the pierce arrives before the
    CannotConnect and fails when it arrives after it; in the same instant (within EPS_MS) both resolutions are
    accepted (union of the allowed outcomes) -- what must hold in either case is that nothing is left behind."""
    ind = c['indirect']
    if ind['kind'] != 'both':
        return _model_variant(c, True)
    diff = float(ind['ms']) - float(ind['cc_ms'])
    if diff < -EPS_MS:
        return _model_variant(c, True)
    if diff > EPS_MS:
        return _model_variant(c, False)
    a, b = _model_variant(c, True), _model_variant(c, False)
    merged = dict(a)
    merged['allowed'] = set(a['allowed']) | set(b['allowed'])
    merged['t_exp'] = {tag: max(a['t_exp'].get(tag, 0.0), b['t_exp'].get(tag, 0.0))
                       for tag in set(a['t_exp']) | set(b['t_exp'])}
    merged['works'] = sorted(set(a['works']) | set(b['works']))
    merged['ambiguous'] = True
    if a['cancel_class'] != b['cancel_class']:
        merged['cancel_class'] = 'tie-with-completion'
    return merged


# ---------------------------------------------------------------------------
# harness helpers

def _omit_obfuscated_part(world, names):
    """GetPeerAddress replies for ``names`` (peers without obfuscated port) leave the optional trailing obfuscated
    port part off the wire (the fields decode to None), as the message definition allows."""
    M = simworld.M()
    previous = world.server.handlers.get(M.GetPeerAddress.Request)

    def address_reply(server, idx, msg):
        u = server.users.get(msg.username)
        if msg.username in names and u and u.get('online', True) and not u.get('obf_port'):
            server.send(M.GetPeerAddress.Response(msg.username, u['ip'], u.get('port', 0)), idx)
            return True
        return bool(previous and previous(server, idx, msg))
    world.server.handlers[M.GetPeerAddress.Request] = address_reply


def _after_hops(loop, n, fn, *args):
    """Call fn after n further loop iterations (zero virtual time)."""
    if n <= 0:
        fn(*args)
    else:
        loop.call_soon(_after_hops, loop, n - 1, fn, *args)


def _delay_deliveries(loop, tr, hops):
    """Everything the in-memory link delivers to transport ``tr`` arrives ``hops`` loop iterations later (FIFO)."""
    if hops <= 0:
        return
    deliver, deliver_eof, deliver_reset = tr.deliver, tr.deliver_eof, tr.deliver_reset
    tr.deliver = lambda data: _after_hops(loop, hops, deliver, data)
    tr.deliver_eof = lambda: _after_hops(loop, hops, deliver_eof)
    tr.deliver_reset = lambda: _after_hops(loop, hops, deliver_reset)


def _make_peer_class():
    class Peer(simworld.ScriptedPeer):
        """ScriptedPeer that pierces to an explicit port of a bare Network, can fail the first write of an accepted
        connection, closes its sockets on EOF and remembers the port a connection came in on."""
        init_fail = False
        pierce_obf = False
        i_hops = 0
        asked_typ = None        # reverse role: the type this peer asked for (a pierce message does not carry it)

        def _accepted(self, ep, obfuscated):
            link = super()._accepted(ep, obfuscated)
            link.via_obf = obfuscated
            link.typ = self.asked_typ
            ep.on_eof = lambda e: e.close()
            if self.init_fail:
                ep.link.sides[0].fail_writes = ConnectionResetError('sim: write failed')
            return link

        cc_delay = 0.002        # indirect == 'both': delay of the CannotConnect relay (the pierce uses indirect_delay)
        glue = False            # a first message follows the pierce message in the same TCP segment (P / D)
        glued = None

        def on_connect_to_peer(self, server, session_idx, sender, msg):
            self.connect_to_peer_requests.append((self.loop.time(), msg))
            if self.indirect in ('pierce', 'both'):
                self.loop.call_later(max(simnet.MIN_LATENCY, self.indirect_delay), self._pierce, msg)
            if self.indirect in ('cannot', 'both'):
                delay = self.cc_delay if self.indirect == 'both' else self.indirect_delay
                notice = simworld.M().CannotConnect.Response(msg.ticket)
                # to whatever session of ours is current by then (we may have logged in again in the meantime)
                self.loop.call_later(max(simnet.MIN_LATENCY, delay),
                                     lambda: server.send(notice, len(server.sessions) - 1))

        def _pierce(self, msg):
            port = MY_PORTS[1 if self.pierce_obf else 0]
            if not self.net.can_connect_in(port):
                return
            if self.glue and msg.typ in ('P', 'D'):
                link = self.connect(typ=msg.typ, ticket=msg.ticket, init='none', port=port, obfuscated=self.pierce_obf)
                _delay_deliveries(self.loop, link.ep.link.sides[1], self.i_hops)
                sent = []
                plain_send = link.ep.send
                link.ep.send = lambda data, delay=0.0: sent.append(bytes(data))
                link.send_msg(simworld.M().PeerPierceFirewall.Request(msg.ticket))
                link.init = 'sent-pierce'
                if msg.typ != 'P':
                    link.obfuscated = False
                self.glued = _probe_messages(msg.typ)[3]
                link.send_msg(self.glued)
                link.ep.send = plain_send
                link.ep.send(b''.join(sent))        # one segment: init message + first message
            else:
                link = self.connect(typ=msg.typ, ticket=msg.ticket, init='pierce', port=port,
                                    obfuscated=self.pierce_obf)
                _delay_deliveries(self.loop, link.ep.link.sides[1], self.i_hops)
            link.typ = msg.typ
            link.via_obf = self.pierce_obf
            link.ep.on_eof = lambda e: e.close()
    return Peer


def _probe_messages(typ, salt=0):
    """-> (probe we send, probe the peer sends, keepalive, message glued to a pierce); ``salt`` makes the two probes
    of one connection distinguishable from those of another connection of the same peer"""
    M = simworld.M()
    k = 16 * salt
    if typ == 'P':
        return M.PeerPlaceInQueueReply.Request('c11-out', 7 + k), M.PeerPlaceInQueueReply.Request('c11-in', 9 + k), \
            M.PeerPlaceInQueueReply.Request('c11-keepalive', 1), M.PeerPlaceInQueueReply.Request('c11-glued', 3)
    if typ == 'D':
        return M.DistributedBranchLevel.Request(7 + k), M.DistributedBranchLevel.Request(9 + k), \
            M.DistributedBranchLevel.Request(1), M.DistributedBranchLevel.Request(3)
    return struct.pack('<I', 0x0C110007 + k), struct.pack('<I', 0x0C110009 + k), None, None


class _Observer:
    """Everything the oracle reads, collected inside the loop as plain data."""

    def __init__(self):
        self.outcome = None          # ('returned', path) | ('raised', type, repr) | ('cancelled',) | ('never',)
        self.t_done_ms = None
        self.residue = []            # (checkpoint, what, detail)
        self.problems = []           # (kind suffix, detail) about the returned connection
        self.conn_repr = None
        self.facts = {}


def _snapshot(world, network, label, returned, returned_tr, server_link, final, announced_ms=None, owned=()):
    """-> [(checkpoint, what, detail, ms at which the connection was announced by PeerInitializedEvent | None)]"""
    from aioslsk.network.connection import ConnectionState, PeerConnectionState
    M = simworld.M()
    out = []
    for ticket in sorted(network._expected_connection_futures):
        fut = network._expected_connection_futures[ticket]
        out.append((label, 'ticket-waiter', f'ticket={ticket} done={fut.done()} cancelled={fut.cancelled()}', None))
    for fut in list(network._expected_response_futures):
        if fut.message_class is M.CannotConnect.Response:
            what = 'cannot-connect-waiter'
        elif fut.message_class is M.GetPeerAddress.Response:
            what = 'peer-address-waiter'
        else:
            what = 'response-waiter'
        out.append((label, what, f'{fut.message_class.__qualname__} fields={fut.fields} done={fut.done()}', None))
    for name in sorted(t.get_name() for t in asyncio.all_tasks(world.loop) if not t.done()):
        if name.startswith('direct-connect-') or name.startswith('indirect-connect-'):
            out.append((label, 'orphaned-attempt-task', f'task {name} is still running', None))
    registered = set()
    for conn in list(network.peer_connections):
        if conn._writer is not None:
            registered.add(id(conn._writer.transport))
        if conn is returned or any(conn is o for o in owned):
            continue        # the result of the request / a connection that existed before it
        if conn.incoming and conn.connection_state == PeerConnectionState.AWAITING_INIT and not final:
            continue    # accepted, init message still in flight: judged at the end
        if not conn.incoming and conn.state == ConnectionState.CONNECTING:
            what = 'registered-connecting-connection'
        else:
            what = 'unowned-connection:' + ('incoming' if conn.incoming else 'outgoing')
        out.append((label, what, repr(conn), announced_ms(conn) if announced_ms else None))
    for link in world.net.links:
        if link is server_link or any(side is sess for side in link.sides for sess in world.server.sessions):
            continue        # (a) connection to the server
        for idx, side in enumerate(link.sides):
            if not isinstance(side, simnet.MemTransport) or side.dead:
                continue
            if side is returned_tr or id(side) in registered:
                continue
            if idx == 1 and not final:
                continue    # accepted socket not yet handed to on_peer_accepted
            out.append((label, 'open-socket', link.name, None))
    return out


def _client_transport(conn):
    w = getattr(conn, '_writer', None)
    return None if w is None else w.transport


async def _check_usable(world, loop, obs, conn, peer, typ, received, t_mark, salt=0):
    """Probe both directions of ``conn``; returns the scripted peer's link carrying it (or None)."""
    out_msg, in_msg = _probe_messages(typ, salt)[:2]
    try:
        await asyncio.wait_for(conn.send_message(out_msg), 5.0)
    except Exception as exc:  # noqa: BLE001 - any failure makes the connection unusable
        obs.problems.append(('unusable:send-raised', f'{type(exc).__name__}: {exc}'))
        return None
    await asyncio.sleep(0.03)
    carrier = None
    for link in peer.links:
        if typ == 'F':
            if bytes(out_msg) in bytes(link.raw):
                carrier = link
        elif any(m == out_msg for _, m in link.messages):
            carrier = link
    if carrier is None:
        obs.problems.append(('unusable:probe-not-received-by-peer',
                             f'links={[(l.typ, repr(l.init)[:60], len(l.messages), len(l.raw)) for l in peer.links]}'))
        return None
    if typ == 'F':
        carrier.ep.send(in_msg)
        try:
            got = await asyncio.wait_for(conn.receive_transfer_ticket(), 5.0)
        except Exception as exc:  # noqa: BLE001
            obs.problems.append(('unusable:peer-data-not-readable', f'{type(exc).__name__}: {exc}'))
            return carrier
        if got != struct.unpack('<I', in_msg)[0]:
            obs.problems.append(('unusable:peer-data-garbled', hex(got)))
    else:
        carrier.send_msg(in_msg)
        await asyncio.sleep(0.03)
        hits = [cn for cn, m in received if m == in_msg]
        if not hits:
            obs.problems.append(('unusable:peer-message-not-delivered', f'{len(received)} events'))
        elif any(cn is not conn for cn in hits):
            obs.problems.append(('unusable:peer-message-delivered-for-other-connection', repr(hits[0])))
    return carrier


def _keepalive(peer):
    """The scripted peer sends a message on each of its links that is still open (keeps read timeouts away)."""
    for link in peer.links:
        ep = link.ep
        if ep.dead or ep.peer_closed or link.typ not in ('P', 'D'):
            continue
        if link.init is None or isinstance(link.init, tuple):
            continue    # no (decodable) init message seen yet
        link.send_msg(_probe_messages(link.typ)[2])


def _check_connection_fields(obs, conn, typ, network, username=PEER_NAME):
    from aioslsk.network.connection import ConnectionState, PeerConnectionState
    if conn not in network.peer_connections:
        obs.problems.append(('returned-connection-not-registered', repr(conn)))
    if conn.state != ConnectionState.CONNECTED:
        obs.problems.append(('returned-connection-not-connected', repr(conn)))
    want = PeerConnectionState.NEGOTIATING_TRANSFER if typ == 'F' else PeerConnectionState.ESTABLISHED
    if conn.connection_state != want:
        obs.problems.append((f'returned-connection-not-initialised:{conn.connection_state.name}', repr(conn)))
    if conn.username != username:
        obs.problems.append(('returned-connection-wrong-username', repr(conn)))
    if conn.connection_type != typ:
        obs.problems.append(('returned-connection-wrong-type', repr(conn)))
    if typ != 'P' and conn.obfuscated:
        obs.problems.append(('returned-connection-still-obfuscated', repr(conn)))


def _setup_network(world, c, race):
    from aioslsk.events import (ConnectionStateChangedEvent, EventBus, MessageReceivedEvent, PeerInitializedEvent)
    from aioslsk.network.network import Network, PeerConnectMode
    loop = world.loop
    settings = simworld.mk_settings('me', port=MY_PORTS[0], obfuscated_port=MY_PORTS[1])
    settings.network.peer.connect_mode = PeerConnectMode.RACE if race else PeerConnectMode.FALLBACK
    settings.network.peer.obfuscate = c['prefer_obf']
    settings.network.server.reconnect.auto = False
    bus = EventBus()
    network = Network(settings, bus)
    received, inits, states = [], [], []
    ev_hops = c['ev_hops']

    async def on_msg(event):
        received.append((event.connection, event.message))

    async def on_init(event):
        inits.append((loop.time(), event.connection, event.requested))
        for _ in range(ev_hops):
            await asyncio.sleep(0)

    hold = c.setdefault('_hold', {'conn': None, 's': 0.0})     # role 'reuse': a slow listener of one connection's CLOSING

    async def on_state(event):
        states.append((loop.time(), event.connection, event.state, event.close_reason))
        if hold['conn'] is not None and event.connection is hold['conn'] and hold['s'] > 0 and \
                event.state.name == 'CLOSING':
            await asyncio.sleep(hold['s'])
    bus.register(MessageReceivedEvent, on_msg)
    bus.register(PeerInitializedEvent, on_init)
    bus.register(ConnectionStateChangedEvent, on_state)
    keep = (on_msg, on_init, on_state, bus)      # the bus holds its listeners weakly
    return settings, network, received, inits, states, keep


def _install_connect_hops(peer_ip, hops):
    """The result of a TCP connect to the peer is reported ``hops`` loop iterations later."""
    if hops <= 0:
        return
    import aioslsk.network.connection as C
    inner = C.asyncio.open_connection

    async def open_connection(host=None, port=None, **kw):
        reader, writer = await inner(host, port, **kw)
        if host == peer_ip:
            try:
                for _ in range(hops):
                    await asyncio.sleep(0)
            except BaseException:
                writer.close()      # a cancelled connect closes its socket
                raise
        return reader, writer
    C.asyncio.open_connection = open_connection


def _loop_error_violations(res, loop_errors, ctx):
    seen = set()
    for e in loop_errors:
        task = str(e.get('task') or '')
        if task.startswith('direct-connect-') or task.startswith('indirect-connect-'):
            # "exception never retrieved" of an attempt task of the race: reported when the task object is garbage
            # collected, i.e. not at a deterministic point; a task that outlives its request is found by _snapshot
            continue
        kind = f'C11/loop-error:{e["exc_type"]}:{ctx}'
        if kind not in seen:
            seen.add(kind)
            res.violate(kind, str(e)[:300])


# ---------------------------------------------------------------------------
# role 'request'

def _run_request(c) -> CaseResult:
    res = CaseResult()
    from aioslsk.exceptions import PeerConnectionError
    from aioslsk.network.connection import PeerConnection
    M = simworld.M()
    model = _model(c)
    race = c['mode'] == 'race'
    typ = c['typ']
    dk, ik = c['direct']['kind'], c['indirect']['kind']
    exp_port, exp_obf = _expected_port(c['ports'], c['prefer_obf'])
    obs = _Observer()

    async def main(world: simworld.World):
        loop = world.loop
        settings, network, received, inits, states, keep = _setup_network(world, c, race)
        await network.initialize()
        network.server_connection.start_reader_task()
        server_link = world.net.links[0]
        Peer = _make_peer_class()
        listener_outcome = {'accept': 'accept', 'initfail': 'accept', 'refuse': 'refuse', 'hang': 'hang',
                            'noaddr': 'refuse', 'badport': 'refuse'}[dk]
        adv_port, adv_obf = _advertised(c)
        peer = Peer(world, PEER_NAME, PEER_IP, port=adv_port, obf_port=adv_obf,
                    direct=listener_outcome, direct_delay=c['direct']['ms'] / 1000.0,
                    indirect={'pierce': 'pierce', 'cannot': 'cannot', 'silent': 'silent', 'sendfail': 'silent',
                              'both': 'both'}[ik],
                    indirect_delay=c['indirect']['ms'] / 1000.0)
        peer.cc_delay = c['indirect']['cc_ms'] / 1000.0
        peer.glue = c['indirect']['glue']
        peer.init_fail = dk == 'initfail'
        peer.pierce_obf = c['indirect']['obf']
        peer.i_hops = c['i_hops']
        world.peers[PEER_NAME] = peer
        if dk == 'noaddr':
            world.server.users[PEER_NAME]['online'] = False
        if dk == 'badport':
            # the server hands out exactly the advertised numbers (also "an address but no port at all")
            def address_reply(server, idx, msg):
                if msg.username != PEER_NAME:
                    return False
                if c['omit_obf'] and not adv_obf:
                    server.send(M.GetPeerAddress.Response(PEER_NAME, PEER_IP, adv_port), idx)
                else:
                    server.send(M.GetPeerAddress.Response(PEER_NAME, PEER_IP, adv_port,
                                                          obfuscated_port_amount=1 if adv_obf else 0,
                                                          obfuscated_port=adv_obf), idx)
                return True
            world.server.handlers[M.GetPeerAddress.Request] = address_reply
        if c['omit_obf']:
            _omit_obfuscated_part(world, {PEER_NAME})
        if ik == 'sendfail':
            tr = network.server_connection._writer.transport
            plain_write = tr.write

            def write(data):
                if len(data) >= 8 and struct.unpack_from('<I', data, 4)[0] == 0x12:     # ConnectToPeer
                    tr.fail_writes = ConnectionResetError('sim: server write failed')
                return plain_write(data)
            tr.write = write
        if ik == 'cannot':
            _delay_deliveries(loop, server_link.sides[0], c['i_hops'])
        elif ik == 'both':
            _delay_deliveries(loop, server_link.sides[0], c['cc_hops'])
        _install_connect_hops(PEER_IP, c['d_hops'])
        await asyncio.sleep(0.01)

        kwargs = {}
        if c['addr'] == 'given':
            kwargs = {'ip': PEER_IP, 'port': exp_port, 'obfuscate': exp_obf}
            if dk == 'badport':
                kwargs['port'] = c['direct']['port']
        t0 = loop.time()
        task = asyncio.ensure_future(network.create_peer_connection(PEER_NAME, typ, **kwargs))
        if c['cancel_ms'] is not None:
            loop.call_at(t0 + c['cancel_ms'] / 1000.0, _after_hops, loop, c['c_hops'], task.cancel)

        def announced_ms(conn):
            times = [t for t, cn, _ in inits if cn is conn]
            return (times[0] - t0) * 1000.0 if times else None
        done, _ = await asyncio.wait([task], timeout=HARD_LIMIT_S)
        obs.t_done_ms = (loop.time() - t0) * 1000.0
        returned = None
        if not done:
            obs.outcome = ('never',)
            task.cancel()
            await asyncio.wait([task], timeout=1.0)
        elif task.cancelled():
            obs.outcome = ('cancelled',)
        elif task.exception() is not None:
            exc = task.exception()
            obs.outcome = ('raised', type(exc).__name__, repr(exc)[:200], isinstance(exc, PeerConnectionError))
        else:
            returned = task.result()
            obs.conn_repr = repr(returned)
            if isinstance(returned, PeerConnection):
                obs.outcome = ('returned', 'indirect' if returned.incoming else 'direct')
            else:
                obs.outcome = ('returned-no-connection', repr(returned)[:200])
                returned = None
        await simloop.step(20)
        returned_tr = _client_transport(returned) if returned is not None else None
        obs.residue += _snapshot(world, network, 'at-completion', returned, returned_tr, server_link, False,
                                 announced_ms)

        async def keepalive_job():
            while True:
                await asyncio.sleep(KEEPALIVE_S)
                _keepalive(peer)
        keepalive_task = asyncio.ensure_future(keepalive_job())

        carrier = None
        if returned is not None:
            _check_connection_fields(obs, returned, typ, network)
            n_init = [(r, cn) for _, cn, r in inits if cn is returned]
            if len(n_init) != 1 or n_init[0][0] is not True:
                obs.problems.append(('initialized-event-count', f'{[(r) for r, _ in n_init]}'))
            carrier = await _check_usable(world, loop, obs, returned, peer, typ, received, loop.time())
            if peer.glued is not None and returned.incoming:
                # the message that followed the pierce message in the same segment belongs to this connection
                if not any(cn is returned and m == peer.glued for cn, m in received):
                    obs.problems.append(('unusable:message-glued-to-pierce-not-delivered', f'{len(received)} events'))
            if carrier is not None:
                obs.facts['carrier_direct'] = carrier.incoming_to_peer
                if carrier.incoming_to_peer:
                    init = carrier.init
                    if not isinstance(init, M.PeerInit.Request) or init.username != 'me' or init.typ != typ:
                        obs.problems.append(('peer-saw-wrong-init', repr(init)[:200]))
                    obs.facts['carrier_via_obf'] = carrier.via_obf

        # later scripted events (a late pierce, a late CannotConnect, an attempt that was left running)
        now_ms = (loop.time() - t0) * 1000.0
        events = sorted({t for t in model['events'] if t + 200.0 > now_ms})
        for t in events:
            delay = t0 + (t + 200.0) / 1000.0 - loop.time()
            if delay > 0:
                await asyncio.sleep(delay)
            obs.residue += _snapshot(world, network, 'after-late-event', returned, returned_tr, server_link, False,
                                     announced_ms)
        await asyncio.sleep(HORIZON_S)
        obs.residue += _snapshot(world, network, 'final', returned, returned_tr, server_link, True, announced_ms)
        if returned is not None:
            from aioslsk.network.connection import ConnectionState
            if returned not in network.peer_connections or returned.state != ConnectionState.CONNECTED:
                closes = [(round(t - t0, 3), r.name) for t, cn, s, r in states
                          if cn is returned and s == ConnectionState.CLOSED]
                obs.problems.append(('returned-connection-lost', f'{returned!r} closes={closes}'))
        keepalive_task.cancel()

        # what the environment saw
        obs.facts['connects'] = [(round((t - t0) * 1000.0, 3), port, outcome)
                                 for t, host, port, outcome in world.net.opened if host == PEER_IP]
        obs.facts['ctp'] = [(m.ticket, m.username, m.typ) for m in world.server.received(M.ConnectToPeer.Request)]
        obs.facts['peer_links'] = [
            {'direct': l.incoming_to_peer, 'init': repr(l.init)[:120], 'typ': l.typ,
             'closed_by_us': bool(l.ep.got_eof or l.ep.got_reset), 'is_carrier': l is carrier}
            for l in peer.links]
        obs.facts['tasks'] = len(network._create_peer_connection_tasks)
        obs.facts['initialised'] = len({id(cn) for _, cn, _ in inits})
        await network.disconnect()
        del keep

    _, loop_errors = simworld.run_world(main)

    # ---- oracle ---------------------------------------------------------------
    cell = f'{c["mode"]}'
    o = obs.outcome
    tag = None
    if o[0] == 'never':
        res.violate(f'C11/request-never-finished:{cell}', f'direct={dk} indirect={ik} case={c}')
    elif o[0] == 'returned-no-connection':
        res.violate(f'C11/returned-no-connection:{cell}', o[1])
    elif o[0] == 'cancelled':
        tag = 'cancelled'
    elif o[0] == 'raised':
        if o[3]:
            tag = 'error'
        else:
            res.violate(f'C11/unexpected-exception:{o[1]}@create_peer_connection:{cell}', o[2])
    else:
        tag = o[1]
    allowed = model['allowed']
    if tag is not None and tag not in allowed:
        want = '/'.join(sorted(allowed))
        detail = (f'got {tag} at {obs.t_done_ms:.1f} ms, expected {want} at ~{model["t_ret"]:.1f} ms; direct={dk}'
                  f'@{model["t_d"]:.0f} indirect={ik}@{model["t_i"]} conn={obs.conn_repr} '
                  f'connects={obs.facts.get("connects")} ctp={obs.facts.get("ctp")}')
        if tag == 'error' and allowed & {'direct', 'indirect'}:
            res.violate(f'C11/failed-although-path-works:{cell}:{"+".join(model["works"])}', detail)
        elif tag in ('direct', 'indirect') and allowed == {'error'}:
            res.violate(f'C11/succeeded-although-no-path:{cell}', detail)
        elif tag in ('direct', 'indirect') and allowed <= {'direct', 'indirect'}:
            res.violate(f'C11/unexpected-winner:{cell}:{tag}', detail)
        elif 'cancelled' in allowed:
            res.violate(f'C11/cancellation-swallowed:{cell}:{tag}', detail)
        else:
            res.violate(f'C11/unexpected-outcome:{cell}:{tag}', detail)
    elif tag is not None:
        t_exp = c['cancel_ms'] if tag == 'cancelled' else model['t_exp'].get(tag, model['t_ret'])
        if obs.t_done_ms > t_exp + LATE_MS:
            res.violate(f'C11/late-completion:{cell}:{tag}',
                        f'finished at {obs.t_done_ms:.1f} ms, modelled {t_exp:.1f} ms; direct={dk} indirect={ik}')
    for suffix, detail in obs.problems:
        res.violate(f'C11/{suffix}', f'{detail} | mode={c["mode"]} direct={dk} indirect={ik} typ={typ}')

    # port selection (documented by select_port): every TCP connect goes to the expected port
    if c['addr'] == 'lookup' and dk != 'badport':
        for t, port, outcome in obs.facts.get('connects', []):
            if port != exp_port:
                res.violate(f'C11/wrong-port-selected:{c["ports"]}:prefer_obf={c["prefer_obf"]}',
                            f'connect to port {port}, documented choice {exp_port}')
                break
    for ticket, username, mtyp in obs.facts.get('ctp', []):
        if username != PEER_NAME or mtyp != typ:
            res.violate('C11/wrong-connect-to-peer-request', f'{(ticket, username, mtyp)} for typ={typ}')

    # residue
    if tag == 'cancelled':
        ctx = f'{c["mode"]}-request-cancelled'
    elif ik == 'sendfail' and model['s_i'] is not None:
        ctx = 'send-failed'
    elif ik == 'both' and model['s_i'] is not None and model['ambiguous']:
        ctx = 'pierce-and-cannot-connect'
    elif race and tag in ('direct', 'indirect'):
        other_end = model['t_i'] if tag == 'direct' else model['t_d']
        ctx = 'race-loser-cancelled' if other_end >= model['t_ret'] - EPS_MS else 'completed'
    else:
        ctx = 'completed'
    seen = set()
    for label, what, detail, announced in obs.residue:
        kind = f'C11/residue:{what}:{ctx}'
        if tag == 'cancelled' and announced is not None and announced <= obs.t_done_ms + 1e-3:
            # the connection had been announced by PeerInitializedEvent (listeners may have adopted it) no later than
            # the instant in which the cancelled request finished: a different root cause than an attempt that goes
            # on after the cancellation
            kind += ':announced-before-cancel'
        if kind in seen:
            continue
        seen.add(kind)
        res.violate(kind, f'{label}: {detail} | outcome={o[:2]} at {obs.t_done_ms:.1f} ms mode={c["mode"]} '
                          f'direct={dk}@{model["t_d"]:.0f} indirect={ik}@{model["t_i"]} cancel={c["cancel_ms"]} '
                          f'announced={announced}')
    _loop_error_violations(res, loop_errors, ctx)

    # ---- classification ---------------------------------------------------------
    finish = c['cancel_ms'] if tag == 'cancelled' else model['t_ret']
    t_i = model['t_i']
    other_pending = race and ((model['t_d'] > finish + EPS_MS) or (t_i is not None and t_i > finish + EPS_MS))
    tie = race and t_i is not None and abs(model['t_d'] - t_i) <= EPS_MS
    cancelled_mid = tag == 'cancelled'
    res.nontrivial = bool(other_pending or tie or cancelled_mid or (not race and model['s_i'] is not None))
    dlabel = dk if dk != 'accept' else ('accept-fast' if c['direct']['ms'] < 1000 else 'accept-slow')
    ilabel = ik if ik != 'pierce' else ('pierce-fast' if c['indirect']['ms'] < 1000 else 'pierce-slow')
    res.label('role:request', 'mode:' + c['mode'], 'direct:' + dlabel, 'indirect:' + ilabel,
              'order:' + model['order'], 'cancel:' + model['cancel_class'], 'outcome:' + str(tag),
              'ports:' + c['ports'] + ('+prefer-obf' if c['prefer_obf'] else ''), 'typ:' + typ, 'addr:' + c['addr'])
    if c['omit_obf'] and c['ports'] == 'clear':
        res.label('obfuscated-port-part-omitted')
    if other_pending:
        res.label('other-attempt-pending-at-finish')
    if tie:
        res.label('outcomes-in-same-instant')
    if c['d_hops'] or c['i_hops'] or c['c_hops'] or c['cc_hops']:
        res.label('sub-instant-offset')
    if ik == 'both':
        diff = c['indirect']['ms'] - c['indirect']['cc_ms']
        res.label('pierce-vs-cannot-connect:' + ('same-instant' if abs(diff) <= EPS_MS else
                                                 'pierce-first' if diff < 0 else 'cannot-connect-first'))
    if c['indirect']['glue'] and ik in ('pierce', 'both') and typ != 'F':
        res.label('message-glued-to-pierce')
    if c['ev_hops']:
        res.label('yielding-listener')
    res.label('connections-initialised:%d' % obs.facts.get('initialised', 0))
    if obs.facts.get('initialised', 0) > (1 if tag in ('direct', 'indirect') else 0):
        res.label('established-connection-discarded')
    return res


# ---------------------------------------------------------------------------
# role 'reverse'

def _run_reverse(c) -> CaseResult:
    res = CaseResult()
    M = simworld.M()
    typ = c['typ']
    dk = c['direct']['kind']
    exp_port, exp_obf = _expected_port(c['ports'], c['prefer_obf'])
    ticket = 0x0C11
    obs = _Observer()
    reachable = c['ports'] != 'none'
    t_done = 1.0 + (CONNECT_TIMEOUT_MS if (dk == 'hang' and reachable) else float(c['direct']['ms']))
    pre_open = []       # connections to / from the asking peer that are open when it asks (identity only)

    async def main(world: simworld.World):
        loop = world.loop
        settings, network, received, inits, states, keep = _setup_network(world, c, c['mode'] == 'race')
        await network.initialize()
        network.server_connection.start_reader_task()
        server_link = world.net.links[0]
        Peer = _make_peer_class()
        peer = Peer(world, PEER_NAME, PEER_IP,
                    port=CLEAR_PORT if c['ports'] in ('clear', 'both') else 0,
                    obf_port=OBF_PORT if c['ports'] in ('obf', 'both') else 0,
                    direct='accept', direct_delay=0.002, indirect='silent')
        peer.asked_typ = typ
        world.peers[PEER_NAME] = peer
        if c['omit_obf']:
            _omit_obfuscated_part(world, {PEER_NAME})
        await asyncio.sleep(0.01)

        # history: connections to / from the asking peer that exist (or existed) before it asks us to connect back
        for p in c['pre']:
            before = list(network.peer_connections)
            n_links = len(peer.links)
            if p['how'] == 'out':
                try:
                    await asyncio.wait_for(network.create_peer_connection(PEER_NAME, p['typ']), 30.0)
                except Exception as exc:  # noqa: BLE001 - judged by the request role, only noted here
                    obs.facts.setdefault('pre_failed', []).append(f'{type(exc).__name__}: {exc}')
                    continue
            else:
                peer.connect(p['typ'], port=MY_PORTS[0])
            await asyncio.sleep(0.02)
            fresh = [cn for cn in network.peer_connections if not any(cn is b for b in before)]
            if p['closed']:
                for link in peer.links[n_links:]:
                    link.ep.close()         # the peer closes its side; we see EOF
                await asyncio.sleep(0.02)
            pre_open.extend(cn for cn in fresh if cn in network.peer_connections)
        obs.facts['pre_open'] = [(cn.connection_type, 'in' if cn.incoming else 'out', cn.connection_state.name)
                                 for cn in pre_open]
        obs.residue += _snapshot(world, network, 'before-request', None, None, server_link, False, owned=pre_open)
        n_pierce_links = len(peer.links)

        peer.set_direct({'accept': 'accept', 'initfail': 'accept', 'refuse': 'refuse', 'hang': 'hang',
                         'badport': 'refuse'}[dk], c['direct']['ms'] / 1000.0)
        peer.init_fail = dk == 'initfail'
        _install_connect_hops(PEER_IP, c['d_hops'])
        n_connects = len(world.net.opened)
        t0 = loop.time()
        adv_port, adv_obf = _advertised(c)      # 'badport': the relayed address carries ports nobody can connect to
        if c['omit_obf'] and not adv_obf:
            world.server.send(M.ConnectToPeer.Response(
                username=PEER_NAME, typ=typ, ip=PEER_IP, port=adv_port, ticket=ticket, privileged=False))
        else:
            world.server.send(M.ConnectToPeer.Response(
                username=PEER_NAME, typ=typ, ip=PEER_IP, port=adv_port, ticket=ticket, privileged=False,
                obfuscated_port_amount=1 if adv_obf else 0, obfuscated_port=adv_obf))
        await asyncio.sleep((t_done + 200.0) / 1000.0)
        conns = [cn for cn in network.peer_connections if not any(cn is o for o in pre_open)]
        returned = conns[0] if (len(conns) == 1 and dk == 'accept' and reachable) else None
        returned_tr = _client_transport(returned) if returned is not None else None
        obs.facts['registry_after'] = [repr(cn) for cn in conns]
        obs.residue += _snapshot(world, network, 'after-attempt', returned, returned_tr, server_link, False,
                                 owned=pre_open)
        obs.facts['tasks'] = len(network._create_peer_connection_tasks)

        async def keepalive_job():
            while True:
                await asyncio.sleep(KEEPALIVE_S)
                _keepalive(peer)
        keepalive_task = asyncio.ensure_future(keepalive_job())
        # the peer's view is taken before the probe traffic
        obs.facts['pierces'] = [l.init.ticket for l in peer.links if isinstance(l.init, M.PeerPierceFirewall.Request)]
        obs.facts['other_inits'] = [repr(l.init)[:100] for l in peer.links[n_pierce_links:]
                                    if l.init is not None and not isinstance(l.init, M.PeerPierceFirewall.Request)]
        if returned is not None:
            _check_connection_fields(obs, returned, typ, network)
            n_init = [r for _, cn, r in inits if cn is returned]
            if n_init != [False]:
                obs.problems.append(('initialized-event-count', f'{n_init}'))
            await _check_usable(world, loop, obs, returned, peer, typ, received, loop.time())
        await asyncio.sleep(HORIZON_S)
        obs.residue += _snapshot(world, network, 'final', returned, returned_tr, server_link, True, owned=pre_open)
        if returned is not None:
            from aioslsk.network.connection import ConnectionState
            if returned not in network.peer_connections or returned.state != ConnectionState.CONNECTED:
                obs.problems.append(('returned-connection-lost', repr(returned)))
        keepalive_task.cancel()
        obs.facts['cannot'] = [(m.ticket, m.username) for m in world.server.received(M.CannotConnect.Request)]
        obs.facts['connects'] = [(round((t - t0) * 1000.0, 3), port, outcome)
                                 for t, host, port, outcome in world.net.opened[n_connects:] if host == PEER_IP]
        obs.facts['tasks_final'] = len(network._create_peer_connection_tasks)
        await network.disconnect()
        del keep

    _, loop_errors = simworld.run_world(main)

    pierces, cannot = obs.facts.get('pierces', []), obs.facts.get('cannot', [])
    ctx = f'reverse:{dk if reachable else "no-port"}'
    info = f'typ={typ} ports={c["ports"]} advertised={_advertised(c)} prefer_obf={c["prefer_obf"]} ' \
           f'pierces={pierces} cannot={cannot} ' \
           f'connects={obs.facts.get("connects")} registry={obs.facts.get("registry_after")}'
    pre_facts = obs.facts.get('pre_open', [])
    info += f' history={c["pre"]} open-before={pre_facts}'
    success = dk == 'accept' and reachable
    # an answer is owed whatever connections to the asking peer exist already: the kind names the history class
    if any(t == typ for t, _, _ in pre_facts):
        hist = ':existing-connection-of-asked-type'
    elif pre_facts:
        hist = ':existing-connection-of-other-type'
    elif c['pre']:
        hist = ':earlier-connection-closed'
    else:
        hist = ''
    if not pierces and not cannot:
        res.violate(f'C11/reverse:neither-pierce-nor-cannot-connect:{dk if reachable else "no-port"}{hist}', info)
    if pierces and cannot:
        res.violate(f'C11/reverse:both-pierce-and-cannot-connect:{dk if reachable else "no-port"}{hist}', info)
    if obs.facts.get('pre_failed'):
        res.label('reverse-history-step-failed')
    if success:
        if pierces and pierces != [ticket]:
            res.violate('C11/reverse:wrong-pierce-ticket', info)
        if cannot and not pierces:
            res.violate('C11/reverse:cannot-connect-although-reachable', info)
        if len(obs.facts.get('registry_after', [])) != 1:
            res.violate('C11/reverse:connection-not-registered', info)
    else:
        if pierces and not cannot:
            res.violate('C11/reverse:pierce-although-unreachable', info)
        if cannot and cannot != [(ticket, PEER_NAME)]:
            res.violate('C11/reverse:wrong-cannot-connect-report', info)
    if obs.facts.get('tasks') or obs.facts.get('tasks_final'):
        res.violate(f'C11/residue:connect-task:{ctx}', info)
    if c['ports'] != 'none' and dk != 'badport':
        for t, port, outcome in obs.facts.get('connects', []):
            if port != exp_port:
                res.violate(f'C11/wrong-port-selected:{c["ports"]}:prefer_obf={c["prefer_obf"]}',
                            f'reverse role: connect to port {port}, documented choice {exp_port}')
                break
    for suffix, detail in obs.problems:
        res.violate(f'C11/{suffix}', f'{detail} | reverse role direct={dk} typ={typ}')
    seen = set()
    earlier = {(what, detail) for label, what, detail, _ in obs.residue if label == 'before-request'}
    for label, what, detail, _ in obs.residue:
        if label != 'before-request' and (what, detail) in earlier:
            continue        # left by the history (a request-role matter), reported once under its own context
        kind = f'C11/residue:{what}:' + ('reverse-history' if label == 'before-request' else ctx)
        if kind not in seen:
            seen.add(kind)
            res.violate(kind, f'{label}: {detail} | {info}')
    _loop_error_violations(res, loop_errors, ctx)
    res.nontrivial = True
    if c['omit_obf'] and c['ports'] in ('clear', 'none'):
        res.label('obfuscated-port-part-omitted')
    res.label('role:reverse', 'reverse-direct:' + (dk if reachable else 'no-port'),
              'ports:' + c['ports'] + ('+prefer-obf' if c['prefer_obf'] else ''), 'typ:' + typ,
              'reverse-outcome:' + ('pierce' if pierces else 'cannot-connect' if cannot else 'nothing'),
              'reverse-history:%d-open/%d-closed' % (len(pre_facts), len(c['pre']) - len(pre_facts)),
              'reverse-history' + (hist or ':none'))
    for p in c['pre']:
        res.label('reverse-pre:%s-%s-%s' % (p['how'], p['typ'], 'closed' if p['closed'] else 'open'))
    return res


# ---------------------------------------------------------------------------
# role 'multi': several requests in flight at once

def _glue_server_replies(loop, ep, reverse):
    """Everything the simulated server sends to us within one loop iteration leaves in ONE TCP segment (so that our
    reader handles the messages back-to-back in one wake-up), optionally in reverse message order."""
    pending = []

    def flush():
        msgs = list(reversed(pending)) if reverse else list(pending)
        pending.clear()
        if not (ep.closed or ep.got_reset):
            ep.link.write_from(ep.index, b''.join(msgs))

    def send_now(data):
        if ep.closed or ep.got_reset:
            return
        pending.append(bytes(data))
        if len(pending) == 1:
            loop.call_soon(flush)
    ep._send_now = send_now


def _run_multi(c) -> CaseResult:
    res = CaseResult()
    from aioslsk.exceptions import PeerConnectionError
    from aioslsk.network.connection import ConnectionState, PeerConnection
    M = simworld.M()
    race = c['mode'] == 'race'
    reqs = c['requests']
    models = []
    for r in reqs:
        rc = {'addr': 'lookup', 'mode': c['mode'], 'cancel_ms': None, 'direct': r['direct'], 'indirect': r['indirect']}
        m = _model(rc)
        if c['relogin_ms'] is not None and r['indirect']['kind'] == 'cannot' and m['s_i'] is not None:
            sent = r['start_ms'] + m['s_i'] + 1.0 + r['indirect']['ms']
            if c['relogin_ms'] - 3.0 <= sent <= c['relogin_ms'] + 12.0:
                # the notice leaves the server while we have no session: it may be lost with the old connection, the
                # attempt then runs into its own timeout -- both readings are accepted
                alt = _model(dict(rc, indirect=dict(r['indirect'], kind='silent')))
                m = dict(m)
                m['allowed'] = set(m['allowed']) | set(alt['allowed'])
                m['t_exp'] = {tag: max(m['t_exp'].get(tag, 0.0), alt['t_exp'].get(tag, 0.0))
                              for tag in set(m['t_exp']) | set(alt['t_exp'])}
                m['t_i'] = max(m['t_i'], alt['t_i'])
        models.append(m)
    obs = _Observer()
    outcomes = [None] * len(reqs)
    done_ms = [None] * len(reqs)
    per_req_problems = [[] for _ in reqs]

    async def main(world: simworld.World):
        loop = world.loop
        settings, network, received, inits, states, keep = _setup_network(world, c, race)
        await network.initialize()
        network.server_connection.start_reader_task()
        server_link = world.net.links[0]
        Peer = _make_peer_class()
        peers = {}
        bad = {}
        for r in reqs:
            u = r['user']
            if u in peers:
                continue
            dk = r['direct']['kind']
            name, ip = MULTI_USERS[u], '20.0.1.%d' % (u + 1)
            port = r['direct']['port'] if dk == 'badport' else CLEAR_PORT
            peer = Peer(world, name, ip, port=port, obf_port=0,
                        direct={'accept': 'accept', 'refuse': 'refuse', 'hang': 'hang', 'noaddr': 'refuse',
                                'badport': 'refuse'}[dk],
                        direct_delay=r['direct']['ms'] / 1000.0, indirect=r['indirect']['kind'],
                        indirect_delay=r['indirect']['ms'] / 1000.0)
            peer.pierce_obf = r['indirect']['obf']
            world.peers[name] = peer
            peers[u] = peer
            if dk == 'noaddr':
                world.server.users[name]['online'] = False
            if dk == 'badport':
                bad[name] = (ip, port)
        if bad:
            def address_reply(server, idx, msg):
                if msg.username not in bad:
                    return False
                ip, port = bad[msg.username]
                server.send(M.GetPeerAddress.Response(msg.username, ip, port, obfuscated_port_amount=0,
                                                      obfuscated_port=0), idx)
                return True
            world.server.handlers[M.GetPeerAddress.Request] = address_reply
        if c['omit_obf']:
            _omit_obfuscated_part(world, {MULTI_USERS[r['user']] for r in reqs})
        if c['glue']:
            _glue_server_replies(loop, world.server.sessions[-1], c['reverse_replies'])
        await asyncio.sleep(0.01)
        t0 = loop.time()

        async def relogin():
            # the server drops us; we connect again and the session layer reports the new login
            from aioslsk.events import SessionInitializedEvent
            await asyncio.sleep(c['relogin_ms'] / 1000.0)
            world.server.close_session(-1, 'eof')
            await asyncio.sleep(0.003)
            await network.connect_server()
            network.server_connection.start_reader_task()
            await asyncio.sleep(0.002)
            if c['glue']:
                _glue_server_replies(loop, world.server.sessions[-1], c['reverse_replies'])
            await keep[3].emit(SessionInitializedEvent(None, None))
            obs.facts['relogin_done_ms'] = (loop.time() - t0) * 1000.0
        relogin_task = asyncio.ensure_future(relogin()) if c['relogin_ms'] is not None else None

        async def one(k, r):
            delay = t0 + r['start_ms'] / 1000.0 - loop.time()
            if delay > 0:
                await asyncio.sleep(delay)
            return await network.create_peer_connection(MULTI_USERS[r['user']], r['typ'])
        async def keepalive_job():
            while True:
                await asyncio.sleep(KEEPALIVE_S)
                for peer in peers.values():
                    _keepalive(peer)
        keepalive_task = asyncio.ensure_future(keepalive_job())     # from the start: a request may take 70 s
        tasks = [asyncio.ensure_future(one(k, r)) for k, r in enumerate(reqs)]
        for k, task in enumerate(tasks):
            task.add_done_callback(lambda t, k=k: done_ms.__setitem__(k, (loop.time() - t0) * 1000.0))
        # every request returns or raises within a bounded time: documented timeouts of both attempts + slack
        bound = max(r['start_ms'] for r in reqs) / 1000.0 + \
            (CONNECT_TIMEOUT_MS + INDIRECT_TIMEOUT_MS) / 1000.0 + 10.0
        await asyncio.wait(tasks, timeout=bound)
        returned = []
        for k, task in enumerate(tasks):
            if not task.done():
                outcomes[k] = ('never',)
                task.cancel()
            elif task.cancelled():
                outcomes[k] = ('cancelled',)
            elif task.exception() is not None:
                exc = task.exception()
                outcomes[k] = ('raised', type(exc).__name__, repr(exc)[:200], isinstance(exc, PeerConnectionError))
            elif isinstance(task.result(), PeerConnection):
                conn = task.result()
                outcomes[k] = ('returned', 'indirect' if conn.incoming else 'direct', conn)
                returned.append((k, conn))
            else:
                outcomes[k] = ('returned-no-connection', repr(task.result())[:200])
        await asyncio.wait(tasks, timeout=1.0)
        await simloop.step(20)
        owned = [cn for _, cn in returned]
        pending_tickets = any(o[0] == 'never' for o in outcomes)
        if not pending_tickets:
            obs.residue += _snapshot(world, network, 'at-completion', None, None, server_link, False, owned=owned)

        if len({id(cn) for cn in owned}) != len(owned):
            obs.problems.append(('same-connection-returned-to-two-requests', repr(owned)))
        for k, conn in returned:
            r = reqs[k]
            sub = _Observer()
            _check_connection_fields(sub, conn, r['typ'], network, MULTI_USERS[r['user']])
            n_init = [req for _, cn, req in inits if cn is conn]
            if n_init != [True]:
                sub.problems.append(('initialized-event-count', f'{n_init}'))
            await _check_usable(world, loop, sub, conn, peers[r['user']], r['typ'], received, loop.time(), salt=k + 1)
            per_req_problems[k] += sub.problems
        await asyncio.sleep(HORIZON_S)
        obs.residue += _snapshot(world, network, 'final', None, None, server_link, True, owned=owned)
        for k, conn in returned:
            if conn not in network.peer_connections or conn.state != ConnectionState.CONNECTED:
                per_req_problems[k].append(('returned-connection-lost', repr(conn)))
        keepalive_task.cancel()
        obs.facts['ctp'] = [(m.ticket, m.username, m.typ) for m in world.server.received(M.ConnectToPeer.Request)]
        obs.facts['ctp_times'] = [((t - t0) * 1000.0, m.ticket, m.username) for t, _, m in world.server.frames
                                  if isinstance(m, M.ConnectToPeer.Request)]
        obs.facts['gpa'] = [m.username for m in world.server.received(M.GetPeerAddress.Request)]
        if relogin_task is not None:
            if not relogin_task.done() or relogin_task.exception() is not None:
                obs.facts['relogin_failed'] = repr(relogin_task)
                relogin_task.cancel()
        await network.disconnect()
        del keep

    _, loop_errors = simworld.run_world(main)

    # tickets of requests that are pending at the same time are distinct (observable in what the server receives):
    # the k-th ConnectToPeer for a user belongs to the k-th request for that user that starts an indirect attempt
    windows = []
    for k, (r, model) in enumerate(zip(reqs, models)):
        if model['s_i'] is not None:
            windows.append((r['start_ms'] + model['s_i'], r['start_ms'] + model['t_i'], MULTI_USERS[r['user']], k))
    seen_by_user = {}
    for t, ticket, username in sorted(obs.facts.get('ctp_times', [])):
        seen_by_user.setdefault(username, []).append((t, ticket))
    assigned = []
    for username, seen in seen_by_user.items():
        mine = sorted(w for w in windows if w[2] == username)
        for (t, ticket), w in zip(seen, mine):
            assigned.append((w[0], w[1], ticket, w[3]))
    for a in range(len(assigned)):
        for b in range(a + 1, len(assigned)):
            (s1, e1, t1, k1), (s2, e2, t2, k2) = assigned[a], assigned[b]
            if t1 == t2 and s1 < e2 - EPS_MS and s2 < e1 - EPS_MS:
                res.violate(f'C11/same-ticket-for-two-pending-requests:{c["mode"]}'
                            + (':after-relogin' if c['relogin_ms'] is not None else ''),
                            f'requests {k1} and {k2} both use ticket {t1}; ConnectToPeer seen by the server (ms, ticket, '
                            f'user)={obs.facts.get("ctp_times")} relogin at {c["relogin_ms"]} ms requests={reqs}')

    shape = 'same-user' if len({r['user'] for r in reqs}) < len(reqs) else 'different-users'
    for k, (r, model, o) in enumerate(zip(reqs, models, outcomes)):
        dk, ik = r['direct']['kind'], r['indirect']['kind']
        who = f'request {k} ({MULTI_USERS[r["user"]]}, {r["typ"]}, start {r["start_ms"]} ms, direct={dk} ' \
              f'indirect={ik}) of {len(reqs)} concurrent ({shape}, glue={c["glue"]}, reverse={c["reverse_replies"]}); ' \
              f'all outcomes={[x[:2] for x in outcomes]} GetPeerAddress seen={obs.facts.get("gpa")} ' \
              f'ConnectToPeer seen={obs.facts.get("ctp")} relogin at {c["relogin_ms"]} ms ' \
              f'omit_obf={c["omit_obf"]} prefer_obf={c["prefer_obf"]}'
        tag = None
        if o[0] == 'never':
            res.violate(f'C11/request-never-finished:{c["mode"]}:concurrent', who)
        elif o[0] == 'returned-no-connection':
            res.violate(f'C11/returned-no-connection:{c["mode"]}:concurrent', who)
        elif o[0] == 'cancelled':
            res.violate(f'C11/unexpected-outcome:{c["mode"]}:cancelled:concurrent', who)
        elif o[0] == 'raised':
            if o[3]:
                tag = 'error'
            else:
                res.violate(f'C11/unexpected-exception:{o[1]}@create_peer_connection:{c["mode"]}:concurrent',
                            f'{o[2]} | {who}')
        else:
            tag = o[1]
        if tag is not None and tag not in model['allowed']:
            if tag == 'error':
                res.violate(f'C11/failed-although-path-works:{c["mode"]}:{"+".join(model["works"])}:concurrent', who)
            elif model['allowed'] == {'error'}:
                res.violate(f'C11/succeeded-although-no-path:{c["mode"]}:concurrent', who)
            else:
                res.violate(f'C11/unexpected-winner:{c["mode"]}:{tag}:concurrent', who)
        elif tag is not None and done_ms[k] is not None:
            t_exp = r['start_ms'] + model['t_exp'].get(tag, model['t_ret'])
            if done_ms[k] > t_exp + LATE_MS:
                res.violate(f'C11/late-completion:{c["mode"]}:{tag}:concurrent',
                            f'finished at {done_ms[k]:.1f} ms, modelled {t_exp:.1f} ms | {who}')
        for suffix, detail in per_req_problems[k]:
            res.violate(f'C11/{suffix}:concurrent', f'{detail} | {who}')
        res.label('concurrent-outcome:' + str(tag or o[0]), 'concurrent-direct:' + dk, 'concurrent-indirect:' + ik)
    for suffix, detail in obs.problems:
        res.violate(f'C11/{suffix}:concurrent', detail)
    seen = set()
    for label, what, detail, _ in obs.residue:
        kind = f'C11/residue:{what}:concurrent'
        if kind not in seen:
            seen.add(kind)
            res.violate(kind, f'{label}: {detail} | mode={c["mode"]} requests={reqs} '
                              f'outcomes={[x[:2] for x in outcomes]}')
    _loop_error_violations(res, loop_errors, 'concurrent')
    res.nontrivial = True
    if c['relogin_ms'] is not None:
        res.label('concurrent:relogin-between-requests' if 'relogin_failed' not in obs.facts
                  else 'concurrent:relogin-step-failed')
    if c['omit_obf']:
        res.label('obfuscated-port-part-omitted')
    if c['prefer_obf']:
        res.label('concurrent:prefer-obf')
    res.label('role:multi', 'mode:' + c['mode'], 'concurrent:%d-requests' % len(reqs), 'concurrent:' + shape,
              'concurrent:server-replies-' + ('glued' + ('-reversed' if c['reverse_replies'] else '')
                                              if c['glue'] else 'separate'))
    if len({r['start_ms'] for r in reqs}) == 1:
        res.label('concurrent:started-in-the-same-instant')
    return res


# ---------------------------------------------------------------------------
# role 'reuse': a request through the re-use path while an earlier connection to the peer is being closed

REUSE_CLOSE_AT_MS = 300.0


def _run_reuse(c) -> CaseResult:
    res = CaseResult()
    from aioslsk.exceptions import PeerConnectionError
    from aioslsk.network.connection import CloseReason, ConnectionState, PeerConnection
    M = simworld.M()
    typ, api = c['typ'], c['api']
    model = _model({'addr': 'lookup', 'mode': c['mode'], 'cancel_ms': None, 'direct': c['direct'],
                    'indirect': c['indirect']})
    local = c['close'] == 'local'
    arrive = REUSE_CLOSE_AT_MS + (0.0 if local else 1.0)        # our side starts closing (CLOSING reported)
    phase = c['call']['phase']
    if phase == 'before':
        call_ms = max(0.0, REUSE_CLOSE_AT_MS - 250.0)
    elif phase == 'inside':
        call_ms = arrive + min(c['call']['ms'], c['hold_ms'])
    else:
        call_ms = arrive + c['hold_ms'] + c['call']['ms']
    obs = _Observer()
    facts = obs.facts
    message = M.PeerPlaceInQueueReply.Request('c11-reuse', 5)

    async def main(world: simworld.World):
        loop = world.loop
        settings, network, received, inits, states, keep = _setup_network(world, c, c['mode'] == 'race')
        await network.initialize()
        network.server_connection.start_reader_task()
        server_link = world.net.links[0]
        Peer = _make_peer_class()
        peer = Peer(world, PEER_NAME, PEER_IP, port=CLEAR_PORT, obf_port=0, direct='accept', direct_delay=0.002,
                    indirect='silent')
        peer.pierce_obf = c['indirect']['obf']
        world.peers[PEER_NAME] = peer
        await asyncio.sleep(0.01)
        # the earlier connection
        if c['how'] == 'out':
            old = await asyncio.wait_for(network.create_peer_connection(PEER_NAME, typ), 30.0)
        else:
            peer.connect(typ, port=MY_PORTS[0])
            await asyncio.sleep(0.02)
            old = next((cn for cn in network.peer_connections if cn.username == PEER_NAME), None)
        await asyncio.sleep(0.05)
        if old is None or old.state != ConnectionState.CONNECTED:
            facts['setup_failed'] = repr(old)
            await network.disconnect()
            return
        old_link = peer.links[-1]
        c['_hold']['conn'], c['_hold']['s'] = old, c['hold_ms'] / 1000.0
        # how the peer behaves for a NEW connection
        peer.set_direct(c['direct']['kind'], c['direct']['ms'] / 1000.0)
        peer.indirect, peer.indirect_delay = c['indirect']['kind'], c['indirect']['ms'] / 1000.0
        t0 = loop.time()
        local_close = []

        def start_close():
            if c['close'] == 'eof':
                old_link.ep.close()
            elif c['close'] == 'reset':
                old_link.ep.reset()
            else:
                local_close.append(asyncio.ensure_future(old.disconnect(CloseReason.REQUESTED)))
        loop.call_at(t0 + REUSE_CLOSE_AT_MS / 1000.0, start_close)

        async def call():
            # no suspension between this observation and the library's own look at its connections
            facts['state_at_call'] = old.state.name
            facts['closed_by_peer_at_call'] = old_link.ep.closed
            facts['called_ms'] = (loop.time() - t0) * 1000.0
            if api == 'get':
                return await network.get_peer_connection(PEER_NAME, typ)
            return await network.send_peer_messages(PEER_NAME, message)
        holder = []
        loop.call_at(t0 + call_ms / 1000.0, _after_hops, loop, c['call']['hops'],
                     lambda: holder.append(asyncio.ensure_future(call())))
        await asyncio.sleep(call_ms / 1000.0 + 0.0001)
        await simloop.step(c['call']['hops'] + 2)
        task = holder[0]
        bound = (CONNECT_TIMEOUT_MS + INDIRECT_TIMEOUT_MS) / 1000.0 + 10.0
        await asyncio.wait([task], timeout=bound)
        facts['done_ms'] = (loop.time() - t0) * 1000.0
        new = None
        if not task.done():
            facts['outcome'] = ('never',)
            task.cancel()
            await asyncio.wait([task], timeout=1.0)
        elif task.cancelled():
            facts['outcome'] = ('cancelled',)
        elif task.exception() is not None:
            exc = task.exception()
            facts['outcome'] = ('raised', type(exc).__name__, repr(exc)[:200], isinstance(exc, PeerConnectionError))
        elif api == 'get':
            got = task.result()
            if isinstance(got, PeerConnection):
                facts['outcome'] = ('returned', 'old' if got is old else ('indirect' if got.incoming else 'direct'))
                facts['returned_state'] = got.state.name
                facts['returned_repr'] = repr(got)
                new = got if got is not old else None
                facts['returned_old'] = got is old
            else:
                facts['outcome'] = ('returned-no-connection', repr(got)[:200])
        else:
            facts['outcome'] = ('sent',)

        async def keepalive_job():
            while True:
                await asyncio.sleep(KEEPALIVE_S)
                _keepalive(peer)
        keepalive_task = asyncio.ensure_future(keepalive_job())
        if api == 'get' and task.done() and not task.cancelled() and task.exception() is None and \
                isinstance(task.result(), PeerConnection):
            got = task.result()
            sub = _Observer()
            if got is not old:
                _check_connection_fields(sub, got, typ, network)
            await _check_usable(world, loop, sub, got, peer, typ, received, loop.time(), salt=3)
            facts['usable_problems'] = sub.problems
        await asyncio.sleep(0.1)
        facts['message_links'] = [k for k, l in enumerate(peer.links) if any(m == message for _, m in l.messages)]
        # let the old connection finish closing, then quiescence
        await asyncio.sleep(max(0.0, (arrive + c['hold_ms'] + 200.0) / 1000.0 - (loop.time() - t0)))
        await asyncio.sleep(HORIZON_S)
        facts['old_final'] = (old.state.name, old in network.peer_connections)
        others = [cn for cn in network.peer_connections if cn is not old]
        if api == 'send':
            new = others[0] if len(others) == 1 else None
        facts['registry_final'] = [repr(cn) for cn in network.peer_connections]
        owned = [cn for cn in ([new] if new is not None else [])]
        obs.residue += _snapshot(world, network, 'final', None, None, server_link, True, owned=owned)
        if new is not None and (new not in network.peer_connections or new.state != ConnectionState.CONNECTED):
            facts['new_lost'] = repr(new)
        keepalive_task.cancel()
        await network.disconnect()
        del keep

    _, loop_errors = simworld.run_world(main)
    c.pop('_hold', None)
    if 'setup_failed' in facts or 'outcome' not in facts:
        res.label('reuse:setup-failed')
        return res
    o = facts['outcome']
    at_call = facts['state_at_call']
    info = (f'api={api} typ={typ} mode={c["mode"]} earlier connection {c["how"]}, closed by {c["close"]} at '
            f'{REUSE_CLOSE_AT_MS:.0f} ms, CLOSING listener holds {c["hold_ms"]} ms; call at {facts["called_ms"]:.1f} ms '
            f'(+{c["call"]["hops"]} iterations) saw it {at_call}; peer direct={c["direct"]["kind"]} '
            f'indirect={c["indirect"]["kind"]}; outcome={o[:3]} returned={facts.get("returned_repr")} '
            f'message on links={facts.get("message_links")} old finally={facts.get("old_final")}')
    ctx = f'{api}:{at_call.lower()}'
    reusable = at_call == 'CONNECTED'
    tag = None
    if o[0] == 'never':
        res.violate(f'C11/request-never-finished:{c["mode"]}:reuse:{ctx}', info)
    elif o[0] in ('cancelled', 'returned-no-connection'):
        res.violate(f'C11/unexpected-outcome:{c["mode"]}:{o[0]}:reuse:{ctx}', info)
    elif o[0] == 'raised':
        if o[3]:
            tag = 'error'
        else:
            res.violate(f'C11/unexpected-exception:{o[1]}@{"get_peer_connection" if api == "get" else "send_peer_messages"}'
                        f':reuse:{ctx}', info)
    elif o[0] == 'returned':
        tag = o[1]
    else:
        tag = 'sent'
    if reusable:
        # the earlier connection was still CONNECTED when the library looked: re-using it is right; the message must
        # arrive unless the peer had closed its side already (data racing with the close is lost by TCP, not by us)
        if tag == 'error':
            res.violate(f'C11/reuse:failed-although-connected:{ctx}', info)
        if api == 'get' and tag not in (None, 'old', 'error'):
            res.label('reuse:new-connection-although-connected')
        if not facts['closed_by_peer_at_call'] and phase == 'before':
            if api == 'send' and tag == 'sent' and not facts['message_links']:
                res.violate(f'C11/reuse:message-not-delivered:{ctx}', info)
            for suffix, detail in facts.get('usable_problems', []):
                res.violate(f'C11/{suffix}:reuse:{ctx}', f'{detail} | {info}')
    else:
        # CLOSING / CLOSED: that connection is gone for new work -- a new one is owed iff a path works
        if api == 'get' and tag == 'old':
            res.violate(f'C11/reuse:returned-connection-that-is-closing:{ctx}', info)
        elif tag == 'error':
            if model['allowed'] != {'error'}:
                res.violate(f'C11/failed-although-path-works:{c["mode"]}:{"+".join(model["works"])}:reuse:{ctx}', info)
        elif tag in ('direct', 'indirect'):
            if tag not in model['allowed']:
                kind = 'succeeded-although-no-path' if model['allowed'] == {'error'} else 'unexpected-winner'
                res.violate(f'C11/{kind}:{c["mode"]}:reuse:{ctx}', info)
            for suffix, detail in facts.get('usable_problems', []):
                res.violate(f'C11/{suffix}:reuse:{ctx}', f'{detail} | {info}')
        elif tag == 'sent':
            if model['allowed'] == {'error'}:
                res.violate(f'C11/succeeded-although-no-path:{c["mode"]}:reuse:{ctx}', info)
            elif not facts['message_links']:
                # no error was raised, so the message has to have reached the peer
                res.violate(f'C11/reuse:message-dropped-without-error:{ctx}', info)
        t_lim = max(list(model['t_exp'].values()) + [model['t_ret']])
        if tag is not None and facts['done_ms'] > facts['called_ms'] + t_lim + LATE_MS:
            res.violate(f'C11/late-completion:{c["mode"]}:reuse:{ctx}', info)
    if facts.get('old_final') != ('CLOSED', False):
        res.violate(f'C11/residue:earlier-connection-not-closed:reuse:{c["close"]}', info)
    if 'new_lost' in facts:
        res.violate(f'C11/returned-connection-lost:reuse:{ctx}', f'{facts["new_lost"]} | {info}')
    seen = set()
    for label, what, detail, _ in obs.residue:
        kind = f'C11/residue:{what}:reuse:{ctx}'
        if kind not in seen:
            seen.add(kind)
            res.violate(kind, f'{label}: {detail} | {info}')
    _loop_error_violations(res, loop_errors, 'reuse')
    res.nontrivial = not reusable
    res.label('role:reuse', 'mode:' + c['mode'], 'reuse-api:' + api, 'reuse-earlier:' + c['how'],
              'reuse-close:' + c['close'], 'reuse-state-at-call:' + at_call, 'reuse-outcome:' + str(tag or o[0]),
              'reuse-phase:' + phase, 'reuse-hold:' + ('0' if not c['hold_ms'] else 'slow-listener'), 'typ:' + typ)
    return res


def run_case(case) -> CaseResult:
    c = _sanitise(case)
    if c is None:
        return CaseResult()
    if c['role'] == 'reverse':
        return _run_reverse(c)
    if c['role'] == 'multi':
        return _run_multi(c)
    if c['role'] == 'reuse':
        return _run_reuse(c)
    return _run_request(c)


# ---------------------------------------------------------------------------
# enumeration of the outcome table

D_CLASSES = {      # class -> (kind, representative delays in ms)
    'accept-fast': ('accept', [3, 40, 400]),
    'accept-slow': ('accept', [1500, 5000, 9400]),
    'refuse': ('refuse', [3, 40, 3000]),
    'hang': ('hang', [1]),
    'initfail': ('initfail', [3, 40, 3000]),
    'noaddr': ('noaddr', [1]),
}
I_CLASSES = {
    'pierce-fast': ('pierce', [3, 60, 600]),
    'pierce-slow': ('pierce', [1200, 7000, 30000, 58000]),
    'cannot': ('cannot', [3, 60, 4000, 30000]),
    'silent': ('silent', [1]),
    'sendfail': ('sendfail', [1]),
}
PORT_CONFIGS = [('clear', False), ('obf', False), ('both', False), ('both', True), ('clear', True)]


def _base_case(mode, dkind, d_ms, ikind, i_ms, n):
    ports, prefer = PORT_CONFIGS[n % len(PORT_CONFIGS)]
    return {
        'role': 'request', 'mode': mode, 'typ': ['P', 'P', 'D', 'P', 'F', 'D'][n % 6],
        'direct': {'kind': dkind, 'ms': d_ms},
        'indirect': {'kind': ikind, 'ms': i_ms, 'obf': n % 3 == 1},
        'ports': ports, 'prefer_obf': prefer, 'addr': 'given' if n % 4 == 3 else 'lookup',
        'd_hops': 0, 'i_hops': 0, 'c_hops': 0, 'ev_hops': 0, 'cancel_ms': None,
    }


def _aligned(case):
    """Variant of a race case whose two outcomes fall in the same virtual instant (None if the cell cannot align)."""
    c = _sanitise(case)
    m = _model(c)
    ik = c['indirect']['kind']
    if ik not in ('pierce', 'cannot'):
        return None
    i_ms = m['t_d'] - 2.0
    if not (1 <= i_ms <= 59000) or not float(i_ms).is_integer():
        return None
    if ik == 'pierce' and ((c['indirect']['ms'] < 1000) != (i_ms < 1000)):
        return None         # stay inside the cell (fast / slow) of the case
    out = dict(case)
    out['indirect'] = dict(case['indirect'], ms=int(i_ms))
    return out


def table():
    """The enumerated part: deterministic list of cases (same in every shard)."""
    out = []
    n = 0
    cells = [(mode, dname, iname) for mode in ('race', 'fallback') for dname in D_CLASSES for iname in I_CLASSES]
    # 1. every cell x every timing representative x every port configuration
    for mode, dname, iname in cells:
        dkind, d_list = D_CLASSES[dname]
        ikind, i_list = I_CLASSES[iname]
        for d_ms in d_list:
            for i_ms in i_list:
                for ports, prefer in PORT_CONFIGS:
                    case = _base_case(mode, dkind, d_ms, ikind, i_ms, n)
                    case['ports'], case['prefer_obf'] = ports, prefer
                    out.append(case)
                    n += 1
    # 2. race: both outcomes in the same instant, swept over sub-instant offsets on either side
    for mode, dname, iname in cells:
        if mode != 'race':
            continue
        dkind, d_list = D_CLASSES[dname]
        ikind, i_list = I_CLASSES[iname]
        for d_ms in d_list:
            case = None
            for i_ms in i_list:
                case = case or _aligned(_base_case(mode, dkind, d_ms, ikind, i_ms, n))
            n += 1
            if case is None:
                continue
            for k in range(0, 11):
                for side in ('d_hops', 'i_hops'):
                    if k == 0 and side == 'i_hops':
                        continue
                    for ev in (0, 1):
                        v = dict(case)
                        v[side] = k
                        v['ev_hops'] = ev
                        out.append(v)
    # 3. cancellation at / between / after every modelled event of every cell and timing representative
    for mode, dname, iname in cells:
        dkind, d_list = D_CLASSES[dname]
        ikind, i_list = I_CLASSES[iname]
        for d_ms in d_list:
            for i_ms in i_list:
                case = _base_case(mode, dkind, d_ms, ikind, i_ms, n)
                n += 1
                m = _model(_sanitise(case))
                marks = {0.0, m['look'], m['t_d'], m['t_ret']}
                if m['t_i'] is not None:
                    marks |= {m['s_i'] + 1.0, m['t_i']}
                marks = sorted(t for t in marks if t <= m['t_ret'])
                points = {(int(m['t_ret']), 0), (int(m['t_ret']), 2), (int(m['t_ret']) + 50, 0),
                          (max(0, int(m['t_ret']) - 1), 0)}
                for a, b in zip(marks, marks[1:]):
                    points.add((int(a), 0))
                    mid = int((a + b) // 2)
                    if a < mid < b:
                        points.add((mid, 0))
                for t_c, hops in sorted(points):
                    v = dict(case)
                    v['cancel_ms'] = t_c
                    v['c_hops'] = hops
                    v['ev_hops'] = (n + t_c) % 3
                    out.append(v)
    # 4. cancellation in the instant of completion, swept over iteration offsets and yielding listeners
    for mode, dname, iname in cells:
        dkind, d_list = D_CLASSES[dname]
        ikind, i_list = I_CLASSES[iname]
        case = _base_case(mode, dkind, d_list[0], ikind, i_list[0], n)
        n += 1
        m = _model(_sanitise(case))
        for hops in range(0, 13):
            for ev in (0, 2):
                v = dict(case)
                v['cancel_ms'] = int(m['t_ret'])
                v['c_hops'] = hops
                v['ev_hops'] = ev
                out.append(v)
    # 4b. cancellation 0..3 loop iterations before / after the winner's completion (the winner's result is reported
    #     k iterations later than the cancellation fires, or the cancellation k iterations later than the result),
    #     which also covers the iterations in which the race tears the loser down
    for mode, dname, iname in cells:
        dkind, d_list = D_CLASSES[dname]
        ikind, i_list = I_CLASSES[iname]
        case = _base_case(mode, dkind, d_list[0], ikind, i_list[0], n)
        n += 1
        m = _model(_sanitise(case))
        if not (m['allowed'] & {'direct', 'indirect'}):
            continue
        for side in ('d_hops', 'i_hops'):
            for k in (1, 2, 3):
                for c_hops in (0, 1, 2, 3):
                    v = dict(case)
                    v[side] = k
                    v['cancel_ms'] = int(m['t_ret'])
                    v['c_hops'] = c_hops
                    v['ev_hops'] = (k + c_hops) % 2
                    out.append(v)
    # 4b2. both attempts succeed in the same instant (the race then disconnects the second winner) and the request is
    #      cancelled 0..8 iterations later: covers cancellation while the redundant connection is being closed
    for dkind, d_ms in (('accept', 3), ('accept', 1500)):
        base = _aligned(_base_case('race', dkind, d_ms, 'pierce', 3 if d_ms < 1000 else 1500, n))
        n += 1
        if base is None:
            continue
        m = _model(_sanitise(base))
        for side in ('d_hops', 'i_hops'):
            for k in range(0, 7):
                if k == 0 and side == 'i_hops':
                    continue
                for c_hops in range(0, 9):
                    v = dict(base)
                    v[side] = k
                    v['cancel_ms'] = int(m['t_ret'])
                    v['c_hops'] = c_hops
                    v['ev_hops'] = (k + c_hops) % 2
                    out.append(v)
    # 4c. the peer pierces AND the server relays CannotConnect for the same ticket: clearly ordered either way, and
    #     in the same instant swept over iteration offsets on either delivery (both orders), with a yielding listener,
    #     with a first message glued to the pierce message, and with the request cancelled in that instant
    for mode in ('fallback', 'race'):
        for dkind, d_ms in (('refuse', 3), ('hang', 1), ('noaddr', 1), ('accept', 1500), ('accept', 40)):
            if mode == 'fallback' and dkind == 'accept':
                continue        # the indirect attempt never starts
            both_ms = 40 if dkind != 'hang' else 10040
            if dkind == 'accept' and d_ms == 40:
                both_ms = 40    # direct success, pierce and CannotConnect all in one instant (lookup: 2 + 40)
            variants = []
            for i_ms, cc_ms in ((both_ms, both_ms + 60), (both_ms + 60, both_ms)):
                variants.append({'ms': i_ms, 'cc_ms': cc_ms, 'i_hops': 0, 'cc_hops': 0, 'ev_hops': 0, 'glue': False,
                                 'cancel_ms': None, 'c_hops': 0})
            for k in range(0, 9):
                for side in ('i_hops', 'cc_hops'):
                    if k == 0 and side == 'cc_hops':
                        continue
                    for ev in (0, 1):
                        for glue in (False, True):
                            vv = {'ms': both_ms, 'cc_ms': both_ms, 'i_hops': 0, 'cc_hops': 0, 'ev_hops': ev,
                                  'glue': glue, 'cancel_ms': None, 'c_hops': 0}
                            vv[side] = k
                            variants.append(vv)
            for k in (0, 2):
                for side in ('i_hops', 'cc_hops'):
                    for c_hops in (0, 1, 2, 3):
                        vv = {'ms': both_ms, 'cc_ms': both_ms, 'i_hops': 0, 'cc_hops': 0, 'ev_hops': c_hops % 2,
                              'glue': False, 'cancel_ms': 'tie', 'c_hops': c_hops}
                        vv[side] = k
                        variants.append(vv)
            for vv in variants:
                case = _base_case(mode, dkind, d_ms, 'both', vv['ms'], n)
                n += 1
                case['addr'] = 'lookup'
                case['indirect'].update(cc_ms=vv['cc_ms'], glue=vv['glue'])
                case.update(i_hops=vv['i_hops'], cc_hops=vv['cc_hops'], ev_hops=vv['ev_hops'], c_hops=vv['c_hops'])
                if vv['cancel_ms'] == 'tie':
                    mm = _model(_sanitise(case))
                    case['cancel_ms'] = int(2 + both_ms + (mm['s_i'] or 0))
                out.append(case)
    # 4d. the peer's advertised port(s) cannot be connected to (uint32 on the wire: above 65535, or 0): the direct
    #     attempt cannot even start; both modes x every indirect outcome x looked up / passed by the caller
    for mode in ('race', 'fallback'):
        for bad in BAD_PORTS:
            for prefer in (False, True):
                for ikind, i_ms in (('pierce', 3), ('pierce', 1200), ('cannot', 3), ('silent', 1), ('sendfail', 1)):
                    for addr in ('lookup', 'given'):
                        case = _base_case(mode, 'badport', 1, ikind, i_ms, n)
                        n += 1
                        case['direct']['port'] = bad
                        case['ports'], case['prefer_obf'], case['addr'] = 'clear', prefer, addr
                        out.append(case)
    # 4e. two or three requests in flight at once (different users / the same user twice), started in the same
    #     instant or so that a server message for one coincides with the address reply for another; the server's
    #     messages of one instant arrive in separate segments, glued in one segment, or glued in reverse order
    beh = [
        ({'kind': 'accept', 'ms': 3}, {'kind': 'silent', 'ms': 1}),
        ({'kind': 'refuse', 'ms': 3}, {'kind': 'pierce', 'ms': 20}),
        ({'kind': 'refuse', 'ms': 3}, {'kind': 'cannot', 'ms': 20}),
        ({'kind': 'noaddr', 'ms': 1}, {'kind': 'pierce', 'ms': 20}),
        ({'kind': 'accept', 'ms': 40}, {'kind': 'cannot', 'ms': 3}),
        ({'kind': 'badport', 'ms': 1, 'port': 70000}, {'kind': 'pierce', 'ms': 20}),
    ]
    for mode in ('fallback', 'race'):
        for glue, rev in ((False, False), (True, False), (True, True)):
            for users in ((0, 1), (0, 0), (0, 1, 2), (0, 1, 0)):
                for a in range(len(beh)):
                    for b in range(len(beh)):
                        if len(users) == 3 and (a + b + n) % 3:
                            n += 1
                            continue        # a third of the behaviour pairs for three requests
                        picks = [a, b, (a + b + 1) % len(beh)]
                        for align in (False, True):
                            reqs = []
                            start = 0
                            for pos, u in enumerate(users):
                                d, i = beh[picks[pos]]
                                if align and pos:
                                    # start so that this request's address reply leaves the server in the instant
                                    # in which the previous request's indirect outcome (or address reply) does
                                    prev = {'addr': 'lookup', 'mode': mode, 'cancel_ms': None,
                                            'direct': dict(beh[picks[pos - 1]][0], port=70000),
                                            'indirect': dict(beh[picks[pos - 1]][1], cc_ms=2, obf=False, glue=False)}
                                    pm = _model(prev)
                                    start = start + int((pm['t_i'] if pm['t_i'] is not None else 2.0) - 2.0)
                                reqs.append({'user': u, 'typ': 'P' if (n + pos) % 4 else 'D', 'start_ms': max(0, start),
                                             'direct': dict(d), 'indirect': dict(i, obf=(n + pos) % 5 == 0)})
                            out.append({'role': 'multi', 'mode': mode, 'glue': glue, 'reverse_replies': rev,
                                        'requests': reqs, 'ev_hops': n % 2, 'omit_obf': n % 3 == 0,
                                        'prefer_obf': n % 2 == 0})
                            n += 1
    # 4f. the re-use path (get_peer_connection / send_peer_messages) while an earlier connection to the peer is being
    #     closed (EOF / reset by the peer, local disconnect) under a listener that is slow to handle CLOSING: calls
    #     before the close, inside the CLOSING window (first iterations, middle, end) and right after CLOSED
    behaviours = [({'kind': 'accept', 'ms': 3}, {'kind': 'silent', 'ms': 1}),
                  ({'kind': 'refuse', 'ms': 3}, {'kind': 'pierce', 'ms': 20}),
                  ({'kind': 'refuse', 'ms': 3}, {'kind': 'cannot', 'ms': 20})]
    for mode in ('fallback', 'race'):
        for api in ('get', 'send'):
            for how in ('out', 'in'):
                for close in ('eof', 'reset', 'local'):
                    for hold in (0, 300):
                        calls = [('before', 0, 0, None)]
                        if hold:
                            calls += [('inside', ms, 0, None) for ms in (1, 150, 299)]
                        calls += [('after', ms, 0, None) for ms in (1, 50)]
                        calls += [('inside', 0, h, n + h) for h in range(0, 7)]
                        calls += [('after', 0, h, n + h + 1) for h in range(0, 7)]
                        for phase, ms, hops, rot in calls:
                            for b, (d, i) in enumerate(behaviours):
                                if rot is not None and b != rot % len(behaviours):
                                    continue
                                out.append({'role': 'reuse', 'mode': mode, 'api': api, 'how': how, 'close': close,
                                            'hold_ms': hold, 'typ': 'D' if (api == 'get' and n % 3 == 0) else 'P',
                                            'call': {'phase': phase, 'ms': ms, 'hops': hops},
                                            'direct': dict(d), 'indirect': dict(i, obf=n % 4 == 0), 'ev_hops': 0})
                                n += 1
    # 4g. a peer without obfuscated port whose address arrives WITHOUT the optional obfuscated port part (fields
    #     absent on the wire, None after decoding) x network.peer.obfuscate: request and reverse role
    for mode in ('race', 'fallback'):
        for dname in ('accept-fast', 'accept-slow', 'refuse', 'initfail', 'hang'):
            dkind, d_list = D_CLASSES[dname]
            for ikind, i_ms in (('pierce', 60), ('cannot', 3), ('cannot', 4000), ('silent', 1)):
                for prefer in (False, True):
                    case = _base_case(mode, dkind, d_list[0], ikind, i_ms, n)
                    n += 1
                    case.update(ports='clear', prefer_obf=prefer, addr='lookup', omit_obf=True)
                    out.append(case)
    for dkind in ('accept', 'refuse', 'hang', 'initfail'):
        for ports in ('clear', 'none'):
            for prefer in (False, True):
                for typ in TYPES:
                    out.append({'role': 'reverse', 'typ': typ, 'direct': {'kind': dkind, 'ms': 2}, 'ports': ports,
                                'prefer_obf': prefer, 'omit_obf': True, 'd_hops': 0, 'ev_hops': len(out) % 3,
                                'mode': 'race' if len(out) % 2 else 'fallback',
                                'pre': [{'how': 'out', 'typ': 'P', 'closed': len(out) % 4 == 0}]
                                if len(out) % 3 == 0 else []})
    # 4h. two or three requests with a server connection loss and a new login (SessionInitializedEvent) in between:
    #     the earlier request is still waiting for its indirect outcome when the later one starts in the new session
    early_beh = [({'kind': 'refuse', 'ms': 3}, {'kind': 'cannot', 'ms': 60}),
                 ({'kind': 'refuse', 'ms': 3}, {'kind': 'pierce', 'ms': 60}),
                 ({'kind': 'refuse', 'ms': 3}, {'kind': 'silent', 'ms': 1}),
                 ({'kind': 'accept', 'ms': 200}, {'kind': 'cannot', 'ms': 60})]
    late_beh = [({'kind': 'refuse', 'ms': 3}, {'kind': 'pierce', 'ms': 40}),
                ({'kind': 'refuse', 'ms': 3}, {'kind': 'cannot', 'ms': 40}),
                ({'kind': 'accept', 'ms': 3}, {'kind': 'silent', 'ms': 1}),
                ({'kind': 'noaddr', 'ms': 1}, {'kind': 'pierce', 'ms': 80})]
    for mode in ('fallback', 'race'):
        for glue in (False, True):
            for users in ((0, 1), (0, 0), (0, 1, 2), (0, 1, 1)):
                for a, (d1, i1) in enumerate(early_beh):
                    for b, (d2, i2) in enumerate(late_beh):
                        reqs = [{'user': users[0], 'typ': 'P', 'start_ms': 0, 'direct': dict(d1), 'indirect': dict(i1)},
                                {'user': users[1], 'typ': 'P' if n % 3 else 'D', 'start_ms': 25, 'direct': dict(d2),
                                 'indirect': dict(i2)}]
                        if len(users) == 3:
                            d3, i3 = late_beh[(a + b) % len(late_beh)]
                            reqs.append({'user': users[2], 'typ': 'P', 'start_ms': 25 + (n % 2) * 5,
                                         'direct': dict(d3), 'indirect': dict(i3)})
                        out.append({'role': 'multi', 'mode': mode, 'glue': glue, 'reverse_replies': False,
                                    'requests': reqs, 'relogin_ms': 10, 'ev_hops': 0, 'omit_obf': n % 5 == 0,
                                    'prefer_obf': n % 2 == 0})
                        n += 1
    # 5. reverse role
    for dkind in REV_DIRECT:
        if dkind == 'badport':
            for bad in BAD_PORTS:
                for ports in PORTS:
                    for prefer in (False, True):
                        for typ in TYPES:
                            out.append({'role': 'reverse', 'typ': typ, 'direct': {'kind': dkind, 'ms': 2, 'port': bad},
                                        'ports': ports, 'prefer_obf': prefer, 'd_hops': 0, 'ev_hops': len(out) % 3,
                                        'pre': [{'how': 'out', 'typ': 'P', 'closed': False}] if len(out) % 4 == 0
                                        else []})
            continue
        for d_ms in ([2, 700, 9400] if dkind != 'hang' else [1]):
            for ports in REV_PORTS:
                for prefer in (False, True):
                    for typ in TYPES:
                        out.append({'role': 'reverse', 'typ': typ, 'direct': {'kind': dkind, 'ms': d_ms},
                                    'ports': ports, 'prefer_obf': prefer, 'd_hops': 0, 'ev_hops': len(out) % 3})
    # 6. reverse role with a history: every sequence of 1..2 earlier connections to / from the asking peer (opened by
    #    us or by the peer, type P or D, still open or closed again) x asked type x outcome of the connect-back
    steps = [{'how': how, 'typ': t, 'closed': closed}
             for how in ('out', 'in') for t in ('P', 'D') for closed in (False, True)]
    histories = [[a] for a in steps] + [[a, b] for a in steps for b in steps]
    rev_ports = [('clear', False), ('both', True), ('obf', False), ('both', False), ('none', False)]
    for pre in histories:
        for typ in TYPES:
            for dkind in REV_DIRECT:
                ports, prefer = rev_ports[n % len(rev_ports)]
                out.append({'role': 'reverse', 'typ': typ,
                            'direct': {'kind': dkind, 'ms': [2, 40, 700][n % 3], 'port': BAD_PORTS[n % 4]},
                            'ports': ports, 'prefer_obf': prefer, 'mode': 'race' if n % 2 else 'fallback',
                            'pre': [dict(p) for p in pre], 'd_hops': 0, 'ev_hops': n % 3})
                n += 1
    return out


# ---------------------------------------------------------------------------
# drawn cases

_fast = st.integers(1, 999)
_d_ms = st.one_of(_fast, st.integers(1, 60), st.integers(1000, 9500))
_i_ms = st.one_of(_fast, st.integers(1, 60), st.integers(1000, 59000), st.sampled_from([9990, 10000, 10010]))
_hops = st.sampled_from([0, 0, 0, 1, 2, 3, 5, 8])
_bad_ports = st.sampled_from(BAD_PORTS) | st.integers(65536, 2 ** 32 - 1)


@st.composite
def request_strategy(draw):
    case = {
        'role': 'request',
        'mode': draw(st.sampled_from(['race', 'race', 'fallback'])),
        'typ': draw(st.sampled_from(['P', 'P', 'P', 'D', 'F'])),
        'direct': {'kind': draw(st.sampled_from(['accept', 'accept', 'refuse', 'hang', 'initfail', 'noaddr',
                                                 'badport'])),
                   'ms': draw(_d_ms), 'port': draw(_bad_ports)},
        'indirect': {'kind': draw(st.sampled_from(['pierce', 'pierce', 'cannot', 'silent', 'sendfail', 'both'])),
                     'ms': draw(_i_ms), 'obf': draw(st.booleans()), 'cc_ms': draw(_i_ms),
                     'glue': draw(st.sampled_from([False, False, True]))},
        'ports': draw(st.sampled_from(PORTS)),
        'prefer_obf': draw(st.booleans()),
        'addr': draw(st.sampled_from(['lookup', 'lookup', 'given'])),
        'd_hops': draw(_hops), 'i_hops': draw(_hops), 'c_hops': draw(_hops), 'cc_hops': draw(_hops),
        'ev_hops': draw(st.sampled_from([0, 0, 1, 2])),
        'cancel_ms': None,
        'omit_obf': draw(st.sampled_from([False, False, True])),
    }
    if case['indirect']['kind'] == 'both' and draw(st.integers(0, 2)) > 0:
        case['indirect']['cc_ms'] = max(1, case['indirect']['ms'] + draw(st.sampled_from([-20, -1, 0, 0, 0, 1, 20])))
    if case['mode'] == 'race' and draw(st.integers(0, 3)) == 0:
        case = _aligned(case) or case
    if draw(st.integers(0, 2)) > 0:
        m = _model(_sanitise(case))
        marks = [0.0, m['look'], m['t_d'], m['t_ret']] + ([m['s_i'] + 1.0, m['t_i']] if m['t_i'] is not None else [])
        t = draw(st.sampled_from(marks)) + draw(st.sampled_from([-20, -1, 0, 0, 0, 1, 20]))
        if draw(st.integers(0, 4)) == 0:
            t = draw(st.integers(0, int(m['t_ret']) + 100))
        case['cancel_ms'] = max(0, min(80000, int(t)))
    return case


@st.composite
def reverse_strategy(draw):
    return {
        'role': 'reverse',
        'typ': draw(st.sampled_from(TYPES)),
        'direct': {'kind': draw(st.sampled_from(REV_DIRECT)), 'ms': draw(_d_ms), 'port': draw(_bad_ports)},
        'ports': draw(st.sampled_from(REV_PORTS)),
        'prefer_obf': draw(st.booleans()),
        'd_hops': draw(_hops),
        'ev_hops': draw(st.sampled_from([0, 0, 1, 2])),
        'mode': draw(st.sampled_from(['race', 'fallback'])),
        'omit_obf': draw(st.sampled_from([False, False, True])),
        'pre': draw(st.lists(st.fixed_dictionaries({
            'how': st.sampled_from(['out', 'in']), 'typ': st.sampled_from(['P', 'P', 'D']),
            'closed': st.sampled_from([False, False, True])}), max_size=2)),
    }


@st.composite
def multi_strategy(draw):
    n_req = draw(st.integers(2, 3))
    reqs = []
    for _ in range(n_req):
        reqs.append({
            'user': draw(st.integers(0, 2)), 'typ': draw(st.sampled_from(['P', 'P', 'D'])),
            'start_ms': draw(st.sampled_from([0, 0, 0, 1, 2, 3, 5, 20, 22, 25])) if draw(st.booleans())
            else draw(st.integers(0, 100)),
            'direct': {'kind': draw(st.sampled_from(['accept', 'accept', 'refuse', 'refuse', 'hang', 'noaddr',
                                                     'badport'])),
                       'ms': draw(st.integers(1, 60)), 'port': draw(_bad_ports)},
            'indirect': {'kind': draw(st.sampled_from(['pierce', 'pierce', 'cannot', 'cannot', 'silent'])),
                         'ms': draw(st.integers(1, 60)), 'obf': draw(st.booleans())},
        })
    return {'role': 'multi', 'mode': draw(st.sampled_from(['fallback', 'race'])), 'requests': reqs,
            'glue': draw(st.sampled_from([True, True, False])), 'reverse_replies': draw(st.booleans()),
            'ev_hops': draw(st.sampled_from([0, 0, 1])), 'omit_obf': draw(st.booleans()),
            'prefer_obf': draw(st.booleans()),
            'relogin_ms': draw(st.sampled_from([None, None, 5, 10, 30, 70]))}


@st.composite
def reuse_strategy(draw):
    hold = draw(st.sampled_from([0, 0, 1, 20, 300, 1500]))
    return {
        'role': 'reuse', 'mode': draw(st.sampled_from(['fallback', 'race'])),
        'api': draw(st.sampled_from(['get', 'send'])), 'typ': draw(st.sampled_from(['P', 'P', 'D'])),
        'how': draw(st.sampled_from(['out', 'in'])), 'close': draw(st.sampled_from(['eof', 'reset', 'local'])),
        'hold_ms': hold,
        'call': {'phase': draw(st.sampled_from(['before', 'inside', 'inside', 'after'])),
                 'ms': draw(st.sampled_from([0, 0, 1, 2])) if draw(st.booleans()) else draw(st.integers(0, max(1, hold))),
                 'hops': draw(_hops)},
        'direct': {'kind': draw(st.sampled_from(['accept', 'accept', 'refuse'])), 'ms': draw(st.integers(1, 60))},
        'indirect': {'kind': draw(st.sampled_from(['pierce', 'cannot', 'silent'])), 'ms': draw(st.integers(1, 60)),
                     'obf': draw(st.booleans())},
        'ev_hops': draw(st.sampled_from([0, 0, 1])),
    }


def run_shard(ctx):
    cases = table()
    ctx.extra['enumerated_table_cases'] = len(cases) if ctx.shard == 0 else 0
    ctx.enumerate(cases)
    n = 200 if ctx.tier == 'quick' else 12000
    ctx.explore(request_strategy(), n)
    ctx.explore(reverse_strategy(), max(20, n // 20), salt=1)
    ctx.explore(multi_strategy(), max(40, n // 10), salt=2)
    ctx.explore(reuse_strategy(), max(40, n // 10), salt=3)


def _req(mode, dkind, d_ms, ikind, i_ms, cancel_ms=None, **kw):
    case = {'role': 'request', 'mode': mode, 'typ': 'P', 'direct': {'kind': dkind, 'ms': d_ms},
            'indirect': {'kind': ikind, 'ms': i_ms, 'obf': False}, 'ports': 'clear', 'prefer_obf': False,
            'addr': 'lookup', 'd_hops': 0, 'i_hops': 0, 'c_hops': 0, 'ev_hops': 0, 'cancel_ms': cancel_ms}
    case.update(kw)
    return case


# One deterministic case per kind observed on the unchanged tree (ddacc78 + fix commits up to 96c33e0); all of them are
# silenced by scratch/fixes/C11-1..3.diff except the two ':announced-before-cancel' kinds in race mode (see report).
_R = 'C11/residue:'
KNOWN_REPLAYS = {
    # race: direct wins, the cancelled indirect attempt leaves both waiters; a late pierce is then adopted unowned
    _R + 'ticket-waiter:race-loser-cancelled': _req('race', 'accept', 3, 'silent', 1),
    _R + 'cannot-connect-waiter:race-loser-cancelled': _req('race', 'accept', 3, 'silent', 1),
    _R + 'unowned-connection:incoming:race-loser-cancelled': _req('race', 'accept', 3, 'pierce', 600),
    # race: indirect wins, the cancelled direct attempt stays registered (CONNECTING, or connected mid-init)
    _R + 'registered-connecting-connection:race-loser-cancelled': _req('race', 'hang', 1, 'pierce', 3),
    _R + 'unowned-connection:outgoing:race-loser-cancelled':
        _req('race', 'initfail', 3000, 'pierce', 2998, addr='given', d_hops=4),
    # the ConnectToPeer write fails: both waiters were registered before the write and are never removed
    _R + 'ticket-waiter:send-failed': _req('fallback', 'refuse', 3, 'sendfail', 1),
    _R + 'cannot-connect-waiter:send-failed': _req('fallback', 'refuse', 3, 'sendfail', 1),
    # fallback: the request is cancelled while an attempt is in flight
    _R + 'registered-connecting-connection:fallback-request-cancelled': _req('fallback', 'accept', 400, 'silent', 1, 100),
    _R + 'ticket-waiter:fallback-request-cancelled': _req('fallback', 'refuse', 3, 'silent', 1, 1000),
    _R + 'cannot-connect-waiter:fallback-request-cancelled': _req('fallback', 'refuse', 3, 'silent', 1, 1000),
    _R + 'unowned-connection:incoming:fallback-request-cancelled': _req('fallback', 'refuse', 3, 'pierce', 600, 100),
    _R + 'unowned-connection:outgoing:fallback-request-cancelled':
        _req('fallback', 'initfail', 40, 'silent', 1, 40, addr='given', c_hops=2),
    _R + 'unowned-connection:incoming:fallback-request-cancelled:announced-before-cancel':
        _req('fallback', 'initfail', 40, 'pierce', 3, 47),
    _R + 'unowned-connection:outgoing:fallback-request-cancelled:announced-before-cancel':
        _req('fallback', 'accept', 400, 'silent', 1, 402, c_hops=1, ev_hops=1),
    # race: the request is cancelled; asyncio.wait does not cancel the two attempt tasks, they go on unowned
    _R + 'ticket-waiter:race-request-cancelled': _req('race', 'refuse', 3, 'silent', 1, 100),
    _R + 'cannot-connect-waiter:race-request-cancelled': _req('race', 'refuse', 3, 'silent', 1, 100),
    _R + 'peer-address-waiter:race-request-cancelled': _req('race', 'accept', 3, 'silent', 1, 1),
    _R + 'registered-connecting-connection:race-request-cancelled': _req('race', 'accept', 400, 'silent', 1, 100),
    _R + 'unowned-connection:outgoing:race-request-cancelled': _req('race', 'accept', 400, 'silent', 1, 100),
    _R + 'unowned-connection:incoming:race-request-cancelled': _req('race', 'refuse', 3, 'pierce', 600, 100),
    _R + 'orphaned-attempt-task:race-request-cancelled': _req('race', 'refuse', 3, 'cannot', 60, 30),
    # pierce and CannotConnect for the same ticket complete in the same wake-up: done.pop() picked the CannotConnect
    # (set order), PeerConnectionError was raised and the pierced connection stayed registered (scratch/fixes/C11-4)
    _R + 'unowned-connection:incoming:pierce-and-cannot-connect': dict(
        _req('fallback', 'refuse', 3, 'both', 40), indirect={'kind': 'both', 'ms': 40, 'cc_ms': 40, 'obf': False,
                                                            'glue': False}),
    # race: the request is cancelled in the instant in which an attempt has completed but before it returned
    _R + 'unowned-connection:outgoing:race-request-cancelled:announced-before-cancel':
        _req('race', 'accept', 3, 'silent', 1, 5, c_hops=3),
    _R + 'unowned-connection:incoming:race-request-cancelled:announced-before-cancel':
        _req('race', 'refuse', 40, 'pierce', 3, 5, c_hops=4),
}


MANIFEST_ENTRY = {
    'technique': 'property-based testing with exhaustive fault enumeration: the outcome table (connect mode x direct '
                 'outcome x indirect outcome x port configuration x relative order x cancellation point) is enumerated '
                 'in full on a virtual-time loop with in-memory TCP, a simulated server and a scripted peer; '
                 'Hypothesis adds drawn timings; oracle = outcome table + residue-free registry and waiter tables',
    'level_text': 'Every cell of the outcome table of Network.create_peer_connection (and of the connect-back role) '
                  'is executed against the real Network with all its timing representatives, same-instant outcomes '
                  'swept over loop-iteration offsets and cancellation at every modelled event; result, connection '
                  'state, usability and what remains registered / open / waiting are compared with the table.',
    'level_note': 'Trusted base: virtual loop, in-memory TCP (1 ms hops), simulated server and scripted peer, the '
                  'outcome model in checks/c11.py (ties within 5 ms accept both orders). Timings inside a cell are '
                  'representatives plus Hypothesis draws, not all reals; at most three concurrent requests.',
}
