"""C02 — hostile bytes never crash a reader or desynchronise the stream (DESIGN §3 C02)."""
from __future__ import annotations

import asyncio
import hashlib
import struct

from hypothesis import strategies as st

from checks import c01
from vfw import msgbridge, simworld, wire_ref
from vfw.runner import CaseResult

PROPERTY = 'C02'
LEVEL = 'exploration'
RULE = (
    "Case = connection kind (server; accepted peer P / distributed D, clear or obfuscated port; mode 'net' = bare "
    "Network + EventBus, mode 'client' = full logged-in SoulSeekClient whose managers' handlers run) + a stream of "
    "1..12 frames, each a valid message of a class legal for that connection (values from the C01 generator, bytes "
    "from the independent reference encoder) optionally made hostile while keeping a well-formed length prefix "
    "(truncation, bit flips, 4-byte count overwritten with a lie, string bytes invalid in UTF-8 and cp1252, corrupt / "
    "truncated zlib body, unknown code, zero-length frame, random body) + a TCP segmentation (chunk sizes incl. 1-byte "
    "dribble and cuts inside headers, optional gap between chunks) + optional terminal event (EOF / reset / partial "
    "frame then EOF / partial frame then silence, the partial frame announcing its honest length or a lie of 64 KiB / 16 MiB / ~4 GiB) + optionally a hostile first (init) frame on accepted connections. "
    "Oracle: per frame, fresh_connection.decode_message_data(frame) returns a message or raises "
    "MessageDeserializationError and nothing else (valid frames must decode to the generating value); the sequence of "
    "MessageReceivedEvents for the connection equals the decodable frames, once each, in order; afterwards the reader "
    "task is alive iff the connection is not CLOSED; no 'task died' loop error; a truncated tail closes the "
    "connection (EOF/READ_ERROR at once, TIMEOUT within the read timeout) instead of hanging; a bad first frame "
    "closes that accepted connection only (a second connection opened afterwards still delivers). Non-trivial = a "
    "hostile (undecodable) frame followed by at least one valid frame that must still be delivered; distinct = "
    "distinct (kind, frame-kind sequence, rejection-cause sequence, segmentation class). Thorough additionally runs "
    "atheris (libFuzzer, coverage-guided) on decode_message_data per connection kind with the oracle 'returns a "
    "message or raises MessageDeserializationError'; findings are replayed without atheris."
)
ASSUMPTIONS = [
    "length prefixes in generated streams are <= 64 KiB, plus enumerated honest frames of 70 KiB, 1 MiB and 9 MiB; "
    "resource exhaustion by 4 GiB prefixes / zlib bombs is out of scope (denial of service, not desynchronisation)",
    "'parsing terminates' is decided by process CPU time: decoding one frame must not burn 20 s of CPU",
    "in-memory TCP: ordered, lossless, arbitrary segmentation, strictly positive latency",
    "in client mode message classes whose legitimate handling closes or re-purposes the connection are not generated",
]
BUDGET_S = {'quick': 150, 'thorough': 1500}

KINDS = ['server', 'peerP', 'peerPobf', 'peerD', 'peerDobf']
MUTS = ['none', 'none', 'none', 'trunc', 'flip', 'lie', 'badstr', 'zlib', 'unknown', 'zero', 'random']
ALL_MUTS = MUTS + ['huge']      # 'huge' only in the enumerated part (multi-megabyte bodies are expensive)
HUGE_SIZES = [70 * 1024, 1024 * 1024 + 7, 9 * 1024 * 1024 + 3]
ENDS = [None, None, None, 'eof', 'reset', 'partial-eof', 'partial-silence']
# announced length of the partial tail frame: honest (index 0) or a lie of 64 KiB+ / 16 MiB+ / almost 4 GiB followed
# by 8 body bytes ("a length prefix that lies by a lot, then silence"): the read timeout must still end the read
LIE_LENS = [None, 64 * 1024 + 5, 16 * 1024 * 1024 + 1, 0xFFFFFF00]

SERVER_KEYS = [k for k in c01.KEYS if k.startswith('server:') and k.endswith(':Response')]
PEER_KEYS = [k for k in c01.KEYS if k.startswith('peer:')]
DIST_KEYS = [k for k in c01.KEYS if k.startswith('distributed:')]
COMPRESSED = [k for k in c01.KEYS if wire_ref.BY_KEY[k]['compressed']]
# classes not generated as *valid* frames in client mode (legitimately change the connection / need huge state)
CLIENT_EXCLUDE = {'server:Login:Response'}


def keys_for(kind):
    return SERVER_KEYS if kind == 'server' else (PEER_KEYS if kind.startswith('peerP') else DIST_KEYS)


@st.composite
def frame_strategy(draw, kind, client):
    keys = keys_for(kind)
    if client:
        keys = [k for k in keys if k not in CLIENT_EXCLUDE]
    mut = draw(st.sampled_from(MUTS))
    if mut == 'zlib':
        cands = [k for k in COMPRESSED if k in keys]
        if not cands:
            mut = 'random'
        else:
            keys = cands
    key = draw(st.sampled_from(keys))
    base = draw(c01.message_case(key))
    return {'key': key, 'values': base['values'], 'mut': mut,
            'a': draw(st.integers(0, 2 ** 16)), 'b': draw(st.integers(0, 2 ** 16)), 'okey': base['obf_key']}


@st.composite
def case_strategy(draw, mode=None):
    kind = draw(st.sampled_from(KINDS))
    client = (mode == 'client') if mode else False
    if client:
        kind = draw(st.sampled_from(['server', 'server', 'peerP', 'peerD']))
    frames = draw(st.lists(frame_strategy(kind, client), min_size=1, max_size=12))
    seg = draw(st.none() | st.just([1]) | st.just([3]) | st.lists(st.integers(1, 40), min_size=1, max_size=6) |
               st.lists(st.sampled_from([1, 2, 3, 4, 5, 7, 8, 9, 64, 1000]), min_size=1, max_size=4))
    return {
        'mode': 'client' if client else 'net',
        'kind': kind,
        'frames': frames,
        'seg': seg,
        'gap': draw(st.sampled_from([0, 0, 1])),
        'end': draw(st.sampled_from(ENDS)),
        'plen': draw(st.sampled_from([0, 0, 1, 2, 3])),
        'bad_first': draw(st.integers(0, 5)) == 0 and kind != 'server',
        'init_key': draw(st.binary(min_size=4, max_size=4)).hex(),
    }


# ---------------------------------------------------------------------------
# frame construction (independent of the library: reference encoder + byte surgery)

_BAD_STR = b'\x81\x8d\x8f\x90\x9d'


def _prng(a, b, n):
    out = b''
    i = 0
    while len(out) < n:
        out += hashlib.sha256(struct.pack('<III', a, b, i)).digest()
        i += 1
    return out[:n]


def _unused_code(group, width, a):
    used = {m['code'] for m in wire_ref.MESSAGES if m['group'] == group}
    code = (a % (250 if width == 1 else 60000)) + 3
    while code in used:
        code += 1
    return code


def build_frame(f, group):
    """-> (bytes, mutation actually applied)"""
    key, values, mut = f['key'], f['values'], f.get('mut', 'none')
    a, b = int(f.get('a', 0)), int(f.get('b', 0))
    m = wire_ref.BY_KEY[key]
    width = m['code_width']
    if mut == 'badstr':
        # plant a marker in the first string field, then replace it by bytes invalid in utf-8 and cp1252
        sf = next((fl for fl in m['fields'] if fl['type'] == 'string' and wire_ref.field_present(fl, values)), None)
        if sf is None:
            mut = 'flip'
        else:
            values = dict(values)
            values[sf['name']] = 'QZQZQ'
            frame = wire_ref.encode(key, values)
            if m['compressed'] or b'QZQZQ' not in frame:
                mut = 'flip'
            else:
                return frame.replace(b'QZQZQ', _BAD_STR, 1), 'badstr'
    frame = wire_ref.encode(key, values)
    body = frame[4:]
    if mut == 'none':
        return frame, 'none'
    if mut == 'trunc':
        if len(body) <= width:
            body = body[:a % (len(body) + 1)][:max(0, len(body) - 1)]
        else:
            body = body[:width + a % (len(body) - width)]
        return struct.pack('<I', len(body)) + body, 'trunc'
    if mut == 'flip':
        bb = bytearray(body)
        if len(bb) > width:
            for k in range(1 + b % 3):
                pos = width + (a + 7919 * k) % (len(bb) - width)
                bb[pos] ^= 1 << ((b >> k) % 8)
        else:
            bb[-1] ^= 0x40
        return struct.pack('<I', len(bb)) + bytes(bb), 'flip'
    if mut == 'lie':
        bb = bytearray(body)
        if len(bb) >= width + 4:
            pos = width + a % (len(bb) - width - 3)
            lie = [0xFFFFFFFF, 0x7FFFFFFF, len(bb) + 1, 0x10000][b % 4]
            bb[pos:pos + 4] = struct.pack('<I', lie)
            return struct.pack('<I', len(bb)) + bytes(bb), 'lie'
        bb += struct.pack('<I', 0xFFFFFFFF)
        return struct.pack('<I', len(bb)) + bytes(bb), 'lie'
    if mut == 'zlib':
        code = body[:width]
        z = body[width:]
        variant = b % 3
        if variant == 0:
            z = z[:max(1, a % max(1, len(z)))]            # truncated deflate stream
        elif variant == 1:
            zz = bytearray(z)
            zz[min(len(zz) - 1, 2 + a % max(1, len(zz) - 2))] ^= 0xFF   # corrupt
            z = bytes(zz)
        else:
            z = _prng(a, b, 1 + a % 40)                     # not deflate at all
        body = code + z
        return struct.pack('<I', len(body)) + body, 'zlib'
    if mut == 'unknown':
        code = _unused_code(group, width, a)
        body = (struct.pack('<B', code % 256) if width == 1 else struct.pack('<I', code)) + _prng(a, b, b % 24)
        return struct.pack('<I', len(body)) + body, 'unknown'
    if mut == 'zero':
        return struct.pack('<I', 0), 'zero'
    if mut == 'huge':
        # honest length prefix, multi-megabyte body with an unknown code; a complete valid frame of this
        # connection kind is embedded in the body (it must NOT be delivered: it is payload of the dropped frame)
        code = _unused_code(group, width, a)
        head = struct.pack('<B', code % 256) if width == 1 else struct.pack('<I', code)
        size = HUGE_SIZES[b % len(HUGE_SIZES)]
        inner = frame
        body = head + bytes(1000 + a % 5000) + inner + bytes(max(0, size - len(head) - 1000 - a % 5000 - len(inner)))
        return struct.pack('<I', len(body)) + body, 'huge'
    body = _prng(a, b, (a + b) % 64)
    return struct.pack('<I', len(body)) + body, 'random'


DECODE_CPU_LIMIT_S = 20


class _CpuLimitExceeded(BaseException):
    pass


class _cpu_limit:
    """Raise _CpuLimitExceeded in the main thread after ``seconds`` of *process CPU time* (ITIMER_VIRTUAL)."""

    def __init__(self, seconds):
        self.seconds = seconds

    def __enter__(self):
        import signal

        def fire(signum, frame):
            raise _CpuLimitExceeded()
        self.old = signal.signal(signal.SIGVTALRM, fire)
        signal.setitimer(signal.ITIMER_VIRTUAL, self.seconds)
        return self

    def __exit__(self, *exc):
        import signal
        signal.setitimer(signal.ITIMER_VIRTUAL, 0)
        signal.signal(signal.SIGVTALRM, self.old)
        return False


def _group(kind):
    return 'server' if kind == 'server' else ('peer' if kind.startswith('peerP') else 'distributed')


def _fresh_connection(kind, established=True):
    from aioslsk.network.connection import PeerConnection, PeerConnectionState, ServerConnection

    class _N:
        pass
    if kind == 'server':
        return ServerConnection('h', 1, _N())
    c = PeerConnection('h', 1, _N(), obfuscated=False, connection_type='P' if kind.startswith('peerP') else 'D')
    if established:
        c.connection_state = PeerConnectionState.ESTABLISHED
    return c


def _sanitise(case):
    kind = case.get('kind') if case.get('kind') in KINDS else 'server'
    mode = 'client' if case.get('mode') == 'client' else 'net'
    if mode == 'client' and kind not in ('server', 'peerP', 'peerD'):
        kind = 'server'
    frames = []
    legal = set(keys_for(kind))
    for f in (case.get('frames') or [])[:12]:
        try:
            key = f['key']
            if key not in legal or (mode == 'client' and key in CLIENT_EXCLUDE):
                continue
            probe = CaseResult()
            # reuse the C01 domain validation: run only the sanitising prefix
            fields = wire_ref.BY_KEY[key]['fields']
            values = f['values']
            ok = isinstance(values, dict)
            for fl in fields:
                if not ok:
                    break
                if fl['name'] not in values:
                    ok = False
                elif wire_ref.field_present(fl, values):
                    ok = c01._in_domain(fl['type'], values[fl['name']], fl.get('subtype'))
                else:
                    ok = values[fl['name']] is None
            if not ok:
                continue
            seen_absent = False
            for fl in fields:
                if fl.get('optional') and ('if_true' not in fl or values.get(fl['if_true'])) and \
                        ('if_false' not in fl or not values.get(fl['if_false'])):
                    if values[fl['name']] is None:
                        seen_absent = True
                    elif seen_absent:
                        ok = False
            if not ok:
                continue
            mut = f.get('mut') if f.get('mut') in ALL_MUTS else 'none'
            frames.append({'key': key, 'values': values, 'mut': mut,
                           'a': max(0, min(2 ** 16, int(f.get('a', 0)))), 'b': max(0, min(2 ** 16, int(f.get('b', 0)))),
                           'okey': (str(f.get('okey', '')) + '00000000')[:8]})
            del probe
        except Exception:
            continue
    seg = case.get('seg')
    if isinstance(seg, list):
        seg = [max(1, min(5000, int(x))) for x in seg if isinstance(x, int)][:8] or None
    else:
        seg = None
    end = case.get('end') if case.get('end') in ENDS else None
    try:
        init_key = bytes.fromhex((str(case.get('init_key', '')) + '00000000')[:8])
    except ValueError:
        init_key = b'\0\0\0\0'
    plen = case.get('plen') if case.get('plen') in (0, 1, 2, 3) else 0
    return {'mode': mode, 'kind': kind, 'frames': frames, 'seg': seg, 'gap': 1 if case.get('gap') else 0,
            'end': end, 'plen': plen, 'bad_first': bool(case.get('bad_first')) and kind != 'server', 'init_key': init_key}


FUZZ_KINDS = ['server', 'peerP', 'peerD', 'init']


def run_raw_case(case, res):
    """Replay of a coverage-guided fuzzing finding: one raw frame body through decode_message_data."""
    from aioslsk.exceptions import MessageDeserializationError
    kind = case.get('kind')
    if kind not in FUZZ_KINDS:
        return
    try:
        body = bytes.fromhex(case.get('hex', ''))[:4096]
    except ValueError:
        return
    conn = _fresh_connection({'server': 'server', 'peerP': 'peerP', 'peerD': 'peerD', 'init': 'peerP'}[kind],
                             established=kind != 'init')
    res.label('raw:' + kind)
    try:
        conn.decode_message_data(struct.pack('<I', len(body)) + body)
        res.label('raw:decoded')
    except MessageDeserializationError:
        res.label('raw:rejected')
    except Exception as exc:
        res.violate(f'C02/decoder-raised:{type(exc).__name__}:raw:{kind}', f'{body[:64].hex()} {exc!r}')
    res.nontrivial = True


def _fuzz_tier(ctx):
    """atheris / libFuzzer on decode_message_data, one connection kind per shard (thorough only)."""
    import os
    import shutil
    import subprocess
    import sys
    import tempfile
    import time
    kind = FUZZ_KINDS[ctx.shard]
    verif = os.path.dirname(os.path.dirname(os.path.abspath(__file__)))
    runs = int(os.environ.get('VFW_FUZZ_RUNS', '1500000'))
    tmp = tempfile.mkdtemp(prefix='vfw-fuzz-')
    try:
        art = os.path.join(tmp, 'art')
        corpus = os.path.join(tmp, 'corpus')
        os.makedirs(corpus)
        cmd = [sys.executable, '-m', 'vfw.fuzz_c02', kind, str(runs), str(ctx.base_seed), art, corpus]
        try:
            proc = subprocess.run(cmd, cwd=verif, capture_output=True, text=True,
                                  timeout=max(60, ctx.deadline - time.time()))
        except subprocess.TimeoutExpired:
            ctx.extra['fuzz_timeouts'] = ctx.extra.get('fuzz_timeouts', 0) + 1
            return
        tail = (proc.stderr or '')[-1500:]
        if 'No module named' in tail and 'atheris' in tail:
            ctx.extra['fuzz_skipped_no_atheris'] = 1
            return
        ctx.extra['fuzz_executions'] = ctx.extra.get('fuzz_executions', 0) + runs
        if os.path.isdir(art):
            for name in sorted(os.listdir(art)):
                with open(os.path.join(art, name), 'rb') as fh:
                    body = fh.read()
                ctx.run({'t': 'raw', 'kind': kind, 'hex': body.hex()})
    finally:
        shutil.rmtree(tmp, ignore_errors=True)


def run_case(case) -> CaseResult:
    res = CaseResult()
    if isinstance(case, dict) and case.get('t') == 'raw':
        run_raw_case(case, res)
        return res
    c = _sanitise(case)
    if not c['frames']:
        return res
    from aioslsk.events import ConnectionStateChangedEvent, EventBus, MessageReceivedEvent
    from aioslsk.exceptions import MessageDeserializationError
    from aioslsk.network.connection import CloseReason, ConnectionState, PeerConnection, ServerConnection
    from aioslsk.network.network import Network
    from aioslsk.protocol import messages as M

    kind, mode = c['kind'], c['mode']
    group = _group(kind)
    obf_port = kind.endswith('obf')
    frames_obf = kind == 'peerPobf'          # D connections are only obfuscated for the init message

    # ---- per-frame differential (pure part) ----------------------------------
    built = []
    expected = []       # message | None (rejected)
    causes = []
    for f in c['frames']:
        data, applied = build_frame(f, group)
        built.append((data, applied))
        conn = _fresh_connection(kind)
        try:
            with _cpu_limit(DECODE_CPU_LIMIT_S):
                msg = conn.decode_message_data(data)
            expected.append(msg)
            causes.append('ok')
            if applied == 'none':
                want = c01.expected_after_roundtrip(f['key'], f['values'])
                try:
                    k2, got = msgbridge.from_obj(msg)
                    got = c01._norm_fields(wire_ref.BY_KEY[f['key']]['fields'], got) if k2 == f['key'] else None
                except Exception:
                    got = None
                if got != want:
                    res.violate(f'C02/valid-frame-decoded-wrongly:{f["key"]}', f'{got} != {want}')
        except _CpuLimitExceeded:
            # "parsing terminates": decoding one frame of at most a few MiB burnt DECODE_CPU_LIMIT_S seconds of
            # CPU time (process CPU time, independent of machine load) -- the stream part would never return
            res.violate(f'C02/decoder-does-not-terminate:{applied}', f'{f["key"]} frame of {len(data)} bytes: '
                        f'decode_message_data used more than {DECODE_CPU_LIMIT_S} s of CPU time; {data[:48].hex()}')
            return res
        except MessageDeserializationError as exc:
            expected.append(None)
            cause = type(exc.__cause__).__name__ if exc.__cause__ is not None else 'None'
            causes.append(cause)
            if applied == 'none':
                res.violate(f'C02/valid-frame-rejected:{f["key"]}', repr(exc.__cause__))
        except Exception as exc:   # anything else escaping the decoder
            expected.append(None)
            causes.append('ESCAPED:' + type(exc).__name__)
            res.violate(f'C02/decoder-raised:{type(exc).__name__}:{applied}', f'{f["key"]} {data[:64].hex()} {exc!r}')
    for cz in causes:
        res.label('cause:' + cz)
    for _, applied in built:
        res.label('mut:' + applied)

    # ---- stream part ----------------------------------------------------------
    end = c['end']
    stream = bytearray()
    init_frame = None
    bad_first = c['bad_first']
    if kind != 'server':
        typ = 'P' if kind.startswith('peerP') else 'D'
        init_frame = M.PeerInit.Request('hostile', typ, 0).serialize()
        if bad_first:
            # the first generated frame takes the place of the init message
            init_frame = None
    wire_frames = []
    for i, (data, applied) in enumerate(built):
        if frames_obf or (bad_first and i == 0 and obf_port):
            okey = bytes.fromhex(c['frames'][i]['okey'])
            wire_frames.append(wire_ref.obf_encode(data, okey))
        else:
            wire_frames.append(data)
    if init_frame is not None:
        stream += wire_ref.obf_encode(init_frame, c['init_key']) if obf_port else init_frame
    for wf in wire_frames:
        stream += wf
    partial = b''
    if end in ('partial-eof', 'partial-silence'):
        tail = M.GetUserStatus.Response('x', 1, False).serialize() if kind == 'server' else (
            M.PeerPlaceInQueueReply.Request('name', 3).serialize() if group == 'peer' else
            M.DistributedBranchLevel.Request(3).serialize())
        if c['plen']:
            tail = struct.pack('<I', LIE_LENS[c['plen']]) + tail[4:12].ljust(8, b'\0') + b'..'
        if frames_obf:
            tail = wire_ref.obf_encode(tail, b'\x01\x02\x03\x04')
        partial = tail[:len(tail) - 2]
        if not bad_first:
            stream += partial

    # expectation for a bad first frame: decoded as init message
    first_ok = True
    if bad_first:
        from aioslsk.network.connection import PeerConnectionState
        probe = _fresh_connection(kind, established=False)
        try:
            first = probe.decode_message_data(built[0][0])
            first_ok = isinstance(first, M.PeerInit.Request)   # any decodable PeerInit is accepted by the library
        except MessageDeserializationError:
            first_ok = False
        except Exception as exc:
            first_ok = False
            res.violate(f'C02/decoder-raised:{type(exc).__name__}:init', built[0][0][:64].hex())
        if first_ok:
            return res   # the hostile frame happens to be a valid init: not the scenario under test
        del PeerConnectionState

    out = {}

    async def main(world: simworld.World):
        loop = world.loop
        seg = c['seg']
        gap = 0.0002 if c['gap'] else 0.0
        world.server.auto = True
        settings = simworld.mk_settings('me')
        delivered = []
        states = []

        async def on_msg(event):
            delivered.append((event.connection, event.message))

        async def on_state(event):
            states.append((event.connection, event.state, event.close_reason))
        if mode == 'client':
            client = await world.start_client(settings)
            network, bus = client.network, client.events
            await asyncio.sleep(0.5)
        else:
            client = None
            bus = EventBus()
            network = Network(settings, bus)
            await network.initialize()
            network.server_connection.start_reader_task()
        bus.register(MessageReceivedEvent, on_msg)
        bus.register(ConnectionStateChangedEvent, on_state)
        world.server.auto = False
        if kind == 'server':
            ep = world.server.sessions[-1]
            ep.link.seg, ep.link.gap = seg, gap
            target = network.server_connection
            read_timeout = target.read_timeout
        else:
            port = settings.network.listening.obfuscated_port if obf_port else settings.network.listening.port
            ep = world.net.connect_in(port, peername=('66.6.6.6', 6666), seg=seg, gap=gap)
            target = None
            read_timeout = 60.0
        n_before = len(delivered)
        rx_before = ep.received_total
        if len(stream) > 200000:
            # multi-megabyte frame: a handful of large TCP segments, the first cut inside the huge body
            seg = [150000 + len(stream) % 1000, 700001]
            ep.link.seg = seg
        ep.send(bytes(stream))
        n_chunks = (len(stream) // min(seg)) + 1 if seg else 1
        await asyncio.sleep(0.05 + n_chunks * (gap + 1e-6) * 1.5)
        if kind != 'server':
            cands = [cn for cn in network.peer_connections if cn.hostname == '66.6.6.6'] + \
                    [cn for cn, _, _ in states if isinstance(cn, PeerConnection) and cn.hostname == '66.6.6.6']
            target = cands[0] if cands else None
        out['target_found'] = target is not None
        if target is None:
            return
        out['delivered_stream'] = [m for cn, m in delivered[n_before:] if cn is target]
        out['state_after_stream'] = target.state
        out['close_reasons_stream'] = [r for cn, s, r in states if cn is target and s == ConnectionState.CLOSED]
        out['reader_alive_after_stream'] = target._reader_task is not None and not target._reader_task.done()
        # terminal event
        if bad_first:
            pass
        elif end == 'eof':
            ep.close()
        elif end == 'reset':
            ep.reset()
        elif end == 'partial-eof':
            ep.close()
        if end in ('eof', 'reset', 'partial-eof'):
            await asyncio.sleep(0.05)
            out['state_after_end'] = target.state
            out['reasons'] = [r for cn, s, r in states if cn is target and s == ConnectionState.CLOSED]
        elif end == 'partial-silence' and not bad_first:
            await asyncio.sleep(0.05)
            out['state_before_timeout'] = target.state
            await asyncio.sleep(read_timeout + 5.0)
            out['state_after_end'] = target.state
            out['reasons'] = [r for cn, s, r in states if cn is target and s == ConnectionState.CLOSED]
        out['library_wrote'] = ep.received_total - rx_before
        out['reader_alive_final'] = target._reader_task is not None and not target._reader_task.done()
        out['final_state'] = target.state
        out['closed_events'] = sum(1 for cn, s, r in states if cn is target and s == ConnectionState.CLOSED)
        # a second connection still works (accept path) / the same connection still works (no terminal event)
        probe_msg = None
        if kind != 'server':
            port = settings.network.listening.port
            typ = 'P' if group == 'peer' else 'D'
            ep2 = world.net.connect_in(port, peername=('77.7.7.7', 7777))
            ep2.send(M.PeerInit.Request('second', typ, 0).serialize())
            probe_msg = M.PeerPlaceInQueueReply.Request('probe', 1) if typ == 'P' else M.DistributedBranchLevel.Request(7)
            ep2.send(probe_msg.serialize(), delay=0.005)
            await asyncio.sleep(0.05)
            out['second_ok'] = any(m == probe_msg and cn.hostname == '77.7.7.7' for cn, m in delivered)
        if end is None and not bad_first:
            pm = M.GetUserStatus.Response('probe', 1, False) if kind == 'server' else (
                M.PeerPlaceInQueueReply.Request('probe2', 2) if group == 'peer' else M.DistributedBranchLevel.Request(9))
            data = pm.serialize()
            if frames_obf:
                data = wire_ref.obf_encode(data, b'\x09\x08\x07\x06')
            before = len(delivered)
            ep.send(data)
            await asyncio.sleep(0.05 + len(data) * (gap + 1e-6) * 1.5)
            out['same_ok'] = any(m == pm and cn is target for cn, m in delivered[before:])
        if client is not None:
            await client.stop()
        else:
            await network.disconnect()

    _, loop_errors = simworld.run_world(main)

    # ---- oracle -----------------------------------------------------------------
    from aioslsk.network.connection import ConnectionState as CS
    if not out.get('target_found'):
        if kind != 'server' and not bad_first:
            res.violate('C02/accepted-connection-missing', 'no PeerConnection object observed for the accepted socket')
        elif bad_first:
            pass
        return res
    exp_msgs = [m for m in expected if m is not None]
    got_msgs = out.get('delivered_stream', [])
    if bad_first:
        if got_msgs:
            res.violate('C02/delivered-after-bad-init', f'{len(got_msgs)} messages delivered')
        if out.get('final_state') != CS.CLOSED:
            res.violate('C02/bad-init-not-closed', f'state={out.get("final_state")}')
        if out.get('second_ok') is False:
            res.violate('C02/bad-init-broke-other-connections', 'second connection did not deliver its message')
    else:
        st_after = out.get('state_after_stream')
        # client mode: a handler may legitimately close the connection after a valid message (e.g. a search reply):
        # then delivery stops after that message
        legit_close = (mode == 'client' and st_after == CS.CLOSED and got_msgs and
                       out.get('close_reasons_stream') == [CloseReason.REQUESTED] and
                       got_msgs == exp_msgs[:len(got_msgs)])
        if legit_close:
            res.label('closed-by-handler')
            exp_msgs = got_msgs
        if got_msgs != exp_msgs:
            # classify: lost / duplicated / reordered / extra
            if len(got_msgs) < len(exp_msgs) and got_msgs == exp_msgs[:len(got_msgs)]:
                idx = len(got_msgs)
                # which frame kind preceded the loss?
                pos = -1
                seen = -1
                for j, m in enumerate(expected):
                    if m is not None:
                        seen += 1
                        if seen == idx:
                            pos = j
                            break
                prev = causes[pos - 1] if pos > 0 else 'start'
                res.violate(f'C02/frames-lost-after:{prev}',
                            f'{len(got_msgs)}/{len(exp_msgs)} delivered; state={out.get("state_after_stream")} '
                            f'reader_alive={out.get("reader_alive_after_stream")} muts={[a for _, a in built]}')
            else:
                res.violate('C02/delivery-sequence-differs', f'got {got_msgs!r:.300} expected {exp_msgs!r:.300}')
        if st_after != CS.CLOSED and not out.get('reader_alive_after_stream'):
            res.violate('C02/reader-stopped-connection-open', f'state={st_after} causes={causes}')
        if st_after == CS.CLOSED and end is None and not legit_close:
            res.violate('C02/connection-closed-by-stream', f'causes={causes} muts={[a for _, a in built]}')
        if end == 'partial-silence' and out.get('library_wrote'):
            # every message the library sends on a connection extends its read deadline (by design), so the
            # bounded-close expectation only applies when it wrote nothing after the stream started
            res.label('partial-silence-skipped-library-wrote')
        elif end in ('eof', 'reset', 'partial-eof', 'partial-silence'):
            if out.get('state_after_end') != CS.CLOSED:
                res.violate(f'C02/not-closed-after:{end}' + (':lying-length' if c['plen'] else ''),
                            f'state={out.get("state_after_end")} announced tail length '
                            f'{LIE_LENS[c["plen"]] if c["plen"] else "honest"}')
            if end == 'partial-silence' and out.get('state_before_timeout') == CS.CLOSED and st_after != CS.CLOSED \
                    and not c['plen']:
                # (a tail announcing an absurd length may also be refused at once: not constrained)
                res.violate('C02/closed-before-read-timeout', '')
            if out.get('reader_alive_final'):
                res.violate(f'C02/reader-alive-after-close:{end}', '')
            if out.get('closed_events', 0) > 1:
                res.violate('C02/closed-reported-twice', str(out.get('closed_events')))
        if end is None and out.get('same_ok') is False and st_after != CS.CLOSED:
            res.violate('C02/desynchronised-after-stream', f'probe frame not delivered; causes={causes}')
        if out.get('second_ok') is False:
            res.violate('C02/other-connection-broken', '')
    for e in loop_errors:
        res.violate(f'C02/loop-error:{e["exc_type"]}', str(e)[:300])
        break

    hostile_then_valid = any(expected[i] is None and any(m is not None for m in expected[i + 1:])
                             for i in range(len(expected)))
    res.nontrivial = bool(hostile_then_valid or (bad_first and out.get('second_ok') is not None))
    seg = c['seg']
    seg_class = 'none' if not seg else ('dribble' if max(seg) <= 3 else ('small' if max(seg) <= 9 else 'mixed'))
    res.key = [kind, mode, [a for _, a in built], causes, seg_class, end, c['plen'] if end in ('partial-eof', 'partial-silence') else 0, bad_first]
    res.label('kind:' + kind, 'mode:' + mode, 'seg:' + seg_class, 'end:' + str(end))
    if end in ('partial-eof', 'partial-silence') and c['plen']:
        res.label('tail-length-lie:%d' % c['plen'])
    if bad_first:
        res.label('bad-first')
    if hostile_then_valid:
        res.label('hostile-then-valid')
    return res


def _huge_cases():
    """A multi-megabyte frame with an honest prefix between valid frames, per connection kind and size."""
    samples = {'server': ('server:GetUserStatus:Response', {'username': 'before', 'status': 1, 'privileged': False}),
               'peerP': ('peer:PeerPlaceInQueueReply:Request', {'filename': 'before', 'place': 1}),
               'peerPobf': ('peer:PeerPlaceInQueueReply:Request', {'filename': 'before', 'place': 1}),
               'peerD': ('distributed:DistributedBranchLevel:Request', {'level': 5})}
    for kind, (key, values) in samples.items():
        for si in range(len(HUGE_SIZES)):
            def fr(mut, b=0):
                return {'key': key, 'values': values, 'mut': mut, 'a': 77, 'b': b, 'okey': '01020304'}
            yield {'mode': 'net', 'kind': kind, 'frames': [fr('none'), fr('huge', si), fr('none'), fr('none')],
                   'seg': None, 'gap': 0, 'end': None, 'bad_first': False, 'init_key': '0a0b0c0d'}
        # a valid frame, then a header announcing far more than ever arrives, then silence / EOF
        for plen in (1, 2, 3):
            for end in ('partial-silence', 'partial-eof'):
                yield {'mode': 'net', 'kind': kind, 'frames': [fr('none')], 'seg': None, 'gap': 0, 'end': end,
                       'plen': plen, 'bad_first': False, 'init_key': '0a0b0c0d'}


def run_shard(ctx):
    ctx.enumerate(_huge_cases())
    n_net = 450 if ctx.tier == 'quick' else 9000
    n_client = 50 if ctx.tier == 'quick' else 1500
    ctx.explore(case_strategy(), n_net)
    ctx.explore(case_strategy(mode='client'), n_client, salt=1)
    if ctx.tier == 'thorough' and ctx.shard < len(FUZZ_KINDS):
        _fuzz_tier(ctx)


MANIFEST_ENTRY = {
    'technique': 'property-based testing (Hypothesis): generated frame streams (valid + 8 hostile kinds) x TCP '
                 'segmentation x connection kind on an in-memory TCP layer; per-frame differential + exactly-once '
                 'in-order delivery + reader liveness oracle',
    'level_text': 'Generated-stream exploration of the real reader loop, accept path and decoder: every frame is '
                  'decoded in isolation (message or MessageDeserializationError, nothing else) and the delivered event '
                  'sequence of the stream is compared with that per-frame expectation under arbitrary segmentation. '
                  'Sampled streams; no proof.',
    'level_note': 'Trusted base: in-memory TCP model, reference encoder (frames are built without the library), '
                  'Hypothesis. Length prefixes of complete frames are capped at 64 KiB except the enumerated honest 70 KiB / 1 MiB / 9 MiB frames; truncated tails announce up to ~4 GiB.',
}
