"""C02 — hostile bytes never crash a reader or desynchronise the stream (DESIGN §3 C02)."""
from __future__ import annotations

import asyncio
import hashlib
import struct

from hypothesis import strategies as st

from checks import c01
from vfw import msgbridge, simworld, wire_ref
from vfw.runner import CaseResult

PROPERTY = 'C02'
LEVEL = 'exploration'
RULE = (
    "Case = connection kind (server; accepted peer P / distributed D, clear or obfuscated port; mode 'net' = bare "
    "Network + EventBus, mode 'client' = full logged-in SoulSeekClient whose managers' handlers run) + a stream of "
    "1..12 frames, each a valid message of a class legal for that connection (values from the C01 generator, bytes "
    "from the independent reference encoder) optionally made hostile while keeping a well-formed length prefix "
    "(truncation, bit flips, 4-byte count overwritten with a lie, string bytes invalid in UTF-8 and cp1252, corrupt / "
    "truncated zlib body, unknown code, zero-length frame, random body) + a TCP segmentation (chunk sizes incl. 1-byte "
    "dribble and cuts inside headers, optional gap between chunks) + optional terminal event (EOF / reset / partial "
    "frame then EOF / partial frame then reset / partial frame then silence; the partial frame announces its honest "
    "length or a lie of 64 KiB / 16 MiB / ~4 GiB and is cut at a generated offset: inside the length prefix, right "
    "after it, or anywhere in the body) + optionally a hostile first (init) frame on accepted connections + for "
    "distributed connections (half of them) a fully DECODABLE first frame whose connection-type string is not exactly "
    "P / D / F ('p', 'd', 'f', '', 'X', 'PD', 'e-acute'): HEAD establishes such a connection, starts its reader and "
    "decodes what follows with the distributed dispatcher (everything that is not 'P'), which is the pinned "
    "expectation + for clear-port peer kinds (1 in 4) the way the connection comes about: instead of the peer "
    "connecting to the listening port and sending PeerInit, the simulated server relays a ConnectToPeer.Response "
    "(typ P / D / odd string) and the library connects to the scripted peer, which then sends the stream + for the "
    "server kind (about half of the server cases) a SECOND SESSION on the same ServerConnection object: session 1 ends with its "
    "terminal event (biased to an end inside a frame; without one the server closes), the object is connected again "
    "(net mode: network.connect_server() + reader start; client mode: by the reconnect watchdog with "
    "network.server.reconnect.auto and a 1-2 s timeout, or -- after EOF, where the watchdog does not reconnect by "
    "design, or when drawn -- by network.connect_server() + client.login()), the new TCP connection is segmented from "
    "its first byte, and session 2 receives its own generated stream of 1..6 valid / hostile frames and a probe frame. "
    "Oracle: per frame, fresh_connection.decode_message_data(frame) returns a message or raises "
    "MessageDeserializationError and nothing else (valid frames must decode to the generating value); the sequence of "
    "MessageReceivedEvents for the connection equals the decodable frames, once each, in order; afterwards the reader "
    "task is alive iff the connection is not CLOSED; no 'task died' loop error; a truncated tail closes the "
    "connection (EOF/READ_ERROR at once, TIMEOUT within the read timeout) instead of hanging; a bad first frame "
    "closes that accepted connection only (a second connection opened afterwards still delivers); after a relayed "
    "ConnectToPeer the library has connected to the peer and the server connection still delivers a probe frame. "
    "Session 2 is judged "
    "by the same oracle (kinds prefixed 'second-session:'): the login answered by a valid Login.Response succeeds "
    "(explicit login() returns within 10 virtual seconds / the automatic re-login leaves a session), the reader runs "
    "while the connection is open, the decodable frames of stream 2 are delivered once each in order, stream 2 does "
    "not close the connection, the probe frame is delivered. Non-trivial = a hostile (undecodable) frame followed by "
    "at least one valid frame that must still be delivered (either session), or a session that ended after the length "
    "prefix of an incomplete frame followed by a second session with at least one valid frame, or an odd "
    "connection-type string in the first frame followed by at least one valid frame; distinct = distinct "
    "(kind, mode, frame-kind sequence, rejection-cause sequence, segmentation class, terminal event, tail length lie, "
    "tail cut class, second-session way + frame kinds + causes, connection-type string, accept / relayed). An "
    "enumerated part replays every terminal event x cut position x announced length x (net explicit, client explicit, "
    "client auto) with a fixed second stream, every odd connection-type string x (accepted clear / obfuscated port, "
    "relayed) x (net, client), and the honest multi-megabyte frames. Thorough additionally runs "
    "atheris (libFuzzer, coverage-guided) on decode_message_data per connection kind with the oracle 'returns a "
    "message or raises MessageDeserializationError'; findings are replayed without atheris."
)
ASSUMPTIONS = [
    "length prefixes in generated streams are <= 64 KiB, plus enumerated honest frames of 70 KiB, 1 MiB and 9 MiB; "
    "resource exhaustion by 4 GiB prefixes / zlib bombs is out of scope (denial of service, not desynchronisation)",
    "'parsing terminates' is decided by process CPU time: decoding one frame must not burn 20 s of CPU",
    "in-memory TCP: ordered, lossless, arbitrary segmentation, strictly positive latency",
    "in client mode message classes whose legitimate handling closes or re-purposes the connection are not generated",
    "second session: only the ServerConnection object is ever connected again by the library (peer connections are "
    "created per TCP connection), so the dimension exists for the server kind only; the simulated server answers the "
    "second login with a valid Login.Response within milliseconds, so a login() that raises or does not return within "
    "10 virtual seconds is attributed to the framing state of the reused connection; that the watchdog reconnects at "
    "all is not judged here (if it does not, the harness connects explicitly); a session 1 that ends in 'partial frame "
    "then silence' is always followed by an explicit reconnect (watchdog off) so that the read-timeout observations "
    "are those of session 1",
    "odd connection-type strings: the expectation 'established and read with the distributed dispatcher' is the "
    "behaviour of the unchanged library (Network._finalize_peer_connection: FILE iff 'F', else ESTABLISHED; "
    "PeerConnection.deserialize_message: peer dispatcher iff 'P'), pinned by the enumerated cases; the property itself "
    "equally accepts a clean refusal of that connection, so CLOSED reported + reader gone + nothing delivered is "
    "accepted too (label odd-typ-refused-cleanly; does not occur on the unchanged library); the exact type 'F' (file "
    "connection, no message framing) is not generated",
]
BUDGET_S = {'quick': 150, 'thorough': 1500}

KINDS = ['server', 'peerP', 'peerPobf', 'peerD', 'peerDobf']
MUTS = ['none', 'none', 'none', 'trunc', 'flip', 'lie', 'badstr', 'zlib', 'unknown', 'zero', 'random']
ALL_MUTS = MUTS + ['huge']      # 'huge' only in the enumerated part (multi-megabyte bodies are expensive)
HUGE_SIZES = [70 * 1024, 1024 * 1024 + 7, 9 * 1024 * 1024 + 3]
ENDS = [None, None, None, 'eof', 'reset', 'partial-eof', 'partial-silence', 'partial-reset']
# terminal events of session 1 when a second session follows on the same ServerConnection object: biased towards a
# session that ends INSIDE a frame (state left behind by the interrupted read must not leak into the next session)
S2_ENDS = ['partial-eof', 'partial-eof', 'partial-reset', 'eof', 'reset', None, 'partial-silence']
S2_HOWS = ['auto', 'explicit']
S2_LOGIN_BOUND_S = 10.0     # virtual seconds
# connection-type strings of a perfectly decodable first frame (PeerInit on an accepted connection, ConnectToPeer
# relayed by the server) that are not exactly 'P' / 'D' / 'F': the library establishes such a connection and reads it
# with the distributed dispatcher (PeerConnection.deserialize_message: everything that is not 'P')
ODD_TYPS = ['p', 'd', 'f', '', 'X', 'PD', '\u00e9']
PARTIAL_ENDS = ('partial-eof', 'partial-silence', 'partial-reset')
# announced length of the partial tail frame: honest (index 0) or a lie of 64 KiB+ / 16 MiB+ / almost 4 GiB followed
# by 8 body bytes ("a length prefix that lies by a lot, then silence"): the read timeout must still end the read
LIE_LENS = [None, 64 * 1024 + 5, 16 * 1024 * 1024 + 1, 0xFFFFFF00]

SERVER_KEYS = [k for k in c01.KEYS if k.startswith('server:') and k.endswith(':Response')]
PEER_KEYS = [k for k in c01.KEYS if k.startswith('peer:')]
DIST_KEYS = [k for k in c01.KEYS if k.startswith('distributed:')]
COMPRESSED = [k for k in c01.KEYS if wire_ref.BY_KEY[k]['compressed']]
# classes not generated as *valid* frames in client mode (legitimately change the connection / need huge state)
CLIENT_EXCLUDE = {'server:Login:Response'}


def keys_for(kind):
    return SERVER_KEYS if kind == 'server' else (PEER_KEYS if kind.startswith('peerP') else DIST_KEYS)


@st.composite
def frame_strategy(draw, kind, client):
    keys = keys_for(kind)
    if client:
        keys = [k for k in keys if k not in CLIENT_EXCLUDE]
    mut = draw(st.sampled_from(MUTS))
    if mut == 'zlib':
        cands = [k for k in COMPRESSED if k in keys]
        if not cands:
            mut = 'random'
        else:
            keys = cands
    key = draw(st.sampled_from(keys))
    base = draw(c01.message_case(key))
    return {'key': key, 'values': base['values'], 'mut': mut,
            'a': draw(st.integers(0, 2 ** 16)), 'b': draw(st.integers(0, 2 ** 16)), 'okey': base['obf_key']}


_SEG = (st.none() | st.just([1]) | st.just([3]) | st.lists(st.integers(1, 40), min_size=1, max_size=6) |
        st.lists(st.sampled_from([1, 2, 3, 4, 5, 7, 8, 9, 64, 1000]), min_size=1, max_size=4))


@st.composite
def second_session_strategy(draw, client):
    """Session 2 on the SAME ServerConnection object: how the client gets there + the stream it receives."""
    return {
        'how': draw(st.sampled_from(S2_HOWS)) if client else 'explicit',
        'rt': draw(st.sampled_from([1, 1, 2])),
        'frames': draw(st.lists(frame_strategy('server', client), min_size=1, max_size=6)),
        'seg': draw(_SEG),
        'gap': draw(st.sampled_from([0, 0, 1])),
    }


@st.composite
def case_strategy(draw, mode=None):
    kind = draw(st.sampled_from(KINDS))
    client = (mode == 'client') if mode else False
    if client:
        kind = draw(st.sampled_from(['server', 'server', 'peerP', 'peerD']))
    frames = draw(st.lists(frame_strategy(kind, client), min_size=1, max_size=12))
    seg = draw(_SEG)
    case = {
        'mode': 'client' if client else 'net',
        'kind': kind,
        'frames': frames,
        'seg': seg,
        'gap': draw(st.sampled_from([0, 0, 1])),
        'end': draw(st.sampled_from(ENDS)),
        'plen': draw(st.sampled_from([0, 0, 1, 2, 3])),
        # where the partial tail frame is cut: None = 2 bytes before its end, else 1 + tcut % (len - 1) bytes are sent
        # (inside the header, right after the header, anywhere in the body)
        'tcut': draw(st.none() | st.integers(0, 40)),
        'bad_first': draw(st.integers(0, 5)) == 0 and kind != 'server',
        'init_key': draw(st.binary(min_size=4, max_size=4)).hex(),
        's2': None,
        # connection type string of the init frame of a distributed connection: None = 'D', else an odd one
        'ityp': None,
        # how the peer connection comes about: the peer connects to the listening port and sends PeerInit, or the
        # server relays a ConnectToPeer.Response and the library connects to the peer ('ctp', clear port kinds only)
        'via': 'accept',
    }
    if kind.startswith('peerD') and draw(st.booleans()):
        case['ityp'] = draw(st.sampled_from(ODD_TYPS))
    if kind in ('peerP', 'peerD') and draw(st.sampled_from([False, False, False, True])):
        case['via'] = 'ctp'
        case['bad_first'] = False
    if kind == 'server' and draw(st.integers(0, 2)) > 0:
        case['s2'] = draw(second_session_strategy(client))
        case['end'] = draw(st.sampled_from(S2_ENDS))
    return case


# ---------------------------------------------------------------------------
# frame construction (independent of the library: reference encoder + byte surgery)

_BAD_STR = b'\x81\x8d\x8f\x90\x9d'


def _prng(a, b, n):
    out = b''
    i = 0
    while len(out) < n:
        out += hashlib.sha256(struct.pack('<III', a, b, i)).digest()
        i += 1
    return out[:n]


def _unused_code(group, width, a):
    used = {m['code'] for m in wire_ref.MESSAGES if m['group'] == group}
    code = (a % (250 if width == 1 else 60000)) + 3
    while code in used:
        code += 1
    return code


def build_frame(f, group):
    """-> (bytes, mutation actually applied)"""
    key, values, mut = f['key'], f['values'], f.get('mut', 'none')
    a, b = int(f.get('a', 0)), int(f.get('b', 0))
    m = wire_ref.BY_KEY[key]
    width = m['code_width']
    if mut == 'badstr':
        # plant a marker in the first string field, then replace it by bytes invalid in utf-8 and cp1252
        sf = next((fl for fl in m['fields'] if fl['type'] == 'string' and wire_ref.field_present(fl, values)), None)
        if sf is None:
            mut = 'flip'
        else:
            values = dict(values)
            values[sf['name']] = 'QZQZQ'
            frame = wire_ref.encode(key, values)
            if m['compressed'] or b'QZQZQ' not in frame:
                mut = 'flip'
            else:
                return frame.replace(b'QZQZQ', _BAD_STR, 1), 'badstr'
    frame = wire_ref.encode(key, values)
    body = frame[4:]
    if mut == 'none':
        return frame, 'none'
    if mut == 'trunc':
        if len(body) <= width:
            body = body[:a % (len(body) + 1)][:max(0, len(body) - 1)]
        else:
            body = body[:width + a % (len(body) - width)]
        return struct.pack('<I', len(body)) + body, 'trunc'
    if mut == 'flip':
        bb = bytearray(body)
        if len(bb) > width:
            for k in range(1 + b % 3):
                pos = width + (a + 7919 * k) % (len(bb) - width)
                bb[pos] ^= 1 << ((b >> k) % 8)
        else:
            bb[-1] ^= 0x40
        return struct.pack('<I', len(bb)) + bytes(bb), 'flip'
    if mut == 'lie':
        bb = bytearray(body)
        if len(bb) >= width + 4:
            pos = width + a % (len(bb) - width - 3)
            lie = [0xFFFFFFFF, 0x7FFFFFFF, len(bb) + 1, 0x10000][b % 4]
            bb[pos:pos + 4] = struct.pack('<I', lie)
            return struct.pack('<I', len(bb)) + bytes(bb), 'lie'
        bb += struct.pack('<I', 0xFFFFFFFF)
        return struct.pack('<I', len(bb)) + bytes(bb), 'lie'
    if mut == 'zlib':
        code = body[:width]
        z = body[width:]
        variant = b % 3
        if variant == 0:
            z = z[:max(1, a % max(1, len(z)))]            # truncated deflate stream
        elif variant == 1:
            zz = bytearray(z)
            zz[min(len(zz) - 1, 2 + a % max(1, len(zz) - 2))] ^= 0xFF   # corrupt
            z = bytes(zz)
        else:
            z = _prng(a, b, 1 + a % 40)                     # not deflate at all
        body = code + z
        return struct.pack('<I', len(body)) + body, 'zlib'
    if mut == 'unknown':
        code = _unused_code(group, width, a)
        body = (struct.pack('<B', code % 256) if width == 1 else struct.pack('<I', code)) + _prng(a, b, b % 24)
        return struct.pack('<I', len(body)) + body, 'unknown'
    if mut == 'zero':
        return struct.pack('<I', 0), 'zero'
    if mut == 'huge':
        # honest length prefix, multi-megabyte body with an unknown code; a complete valid frame of this
        # connection kind is embedded in the body (it must NOT be delivered: it is payload of the dropped frame)
        code = _unused_code(group, width, a)
        head = struct.pack('<B', code % 256) if width == 1 else struct.pack('<I', code)
        size = HUGE_SIZES[b % len(HUGE_SIZES)]
        inner = frame
        body = head + bytes(1000 + a % 5000) + inner + bytes(max(0, size - len(head) - 1000 - a % 5000 - len(inner)))
        return struct.pack('<I', len(body)) + body, 'huge'
    body = _prng(a, b, (a + b) % 64)
    return struct.pack('<I', len(body)) + body, 'random'


DECODE_CPU_LIMIT_S = 20


class _CpuLimitExceeded(BaseException):
    pass


class _cpu_limit:
    """Raise _CpuLimitExceeded in the main thread after ``seconds`` of *process CPU time* (ITIMER_VIRTUAL).

    The timer repeats (every 0.25 s of CPU time after the first expiry) until the block is left: a signal handler
    that happens to run inside a garbage-collector callback or a ``__del__`` has its exception swallowed ("Exception
    ignored in ..."), and a one-shot timer would then never stop a decoder that does not terminate."""

    def __init__(self, seconds):
        self.seconds = seconds
        self.active = False

    def __enter__(self):
        import signal

        def fire(signum, frame):
            if self.active:
                raise _CpuLimitExceeded()
        self.old = signal.signal(signal.SIGVTALRM, fire)
        self.active = True
        signal.setitimer(signal.ITIMER_VIRTUAL, self.seconds, 0.25)
        return self

    def __exit__(self, *exc):
        self.active = False
        import signal
        signal.setitimer(signal.ITIMER_VIRTUAL, 0)
        signal.signal(signal.SIGVTALRM, self.old)
        return False


def _group(kind):
    return 'server' if kind == 'server' else ('peer' if kind.startswith('peerP') else 'distributed')


def _fresh_connection(kind, established=True, typ=None):
    from aioslsk.network.connection import PeerConnection, PeerConnectionState, ServerConnection

    class _N:
        pass
    if kind == 'server':
        return ServerConnection('h', 1, _N())
    c = PeerConnection('h', 1, _N(), obfuscated=False,
                       connection_type='P' if kind.startswith('peerP') else ('D' if typ is None else typ))
    if established:
        c.connection_state = PeerConnectionState.ESTABLISHED
    return c


def _sanitise_frames(raw, kind, mode, limit):
    frames = []
    legal = set(keys_for(kind))
    for f in (raw if isinstance(raw, list) else [])[:limit]:
        try:
            key = f['key']
            if key not in legal or (mode == 'client' and key in CLIENT_EXCLUDE):
                continue
            # reuse the C01 domain validation: run only the sanitising prefix
            fields = wire_ref.BY_KEY[key]['fields']
            values = f['values']
            ok = isinstance(values, dict)
            for fl in fields:
                if not ok:
                    break
                if fl['name'] not in values:
                    ok = False
                elif wire_ref.field_present(fl, values):
                    ok = c01._in_domain(fl['type'], values[fl['name']], fl.get('subtype'))
                else:
                    ok = values[fl['name']] is None
            if not ok:
                continue
            seen_absent = False
            for fl in fields:
                if fl.get('optional') and ('if_true' not in fl or values.get(fl['if_true'])) and \
                        ('if_false' not in fl or not values.get(fl['if_false'])):
                    if values[fl['name']] is None:
                        seen_absent = True
                    elif seen_absent:
                        ok = False
            if not ok:
                continue
            mut = f.get('mut') if f.get('mut') in ALL_MUTS else 'none'
            frames.append({'key': key, 'values': values, 'mut': mut,
                           'a': max(0, min(2 ** 16, int(f.get('a', 0)))), 'b': max(0, min(2 ** 16, int(f.get('b', 0)))),
                           'okey': (str(f.get('okey', '')) + '00000000')[:8]})
        except Exception:
            continue
    return frames


def _sanitise_seg(seg):
    if isinstance(seg, list):
        return [max(1, min(5000, int(x))) for x in seg if isinstance(x, int) and not isinstance(x, bool)][:8] or None
    return None


def _sanitise(case):
    kind = case.get('kind') if case.get('kind') in KINDS else 'server'
    mode = 'client' if case.get('mode') == 'client' else 'net'
    if mode == 'client' and kind not in ('server', 'peerP', 'peerD'):
        kind = 'server'
    frames = _sanitise_frames(case.get('frames'), kind, mode, 12)
    seg = _sanitise_seg(case.get('seg'))
    end = case.get('end') if case.get('end') in ENDS else None
    try:
        init_key = bytes.fromhex((str(case.get('init_key', '')) + '00000000')[:8])
    except ValueError:
        init_key = b'\0\0\0\0'
    plen = case.get('plen') if case.get('plen') in (0, 1, 2, 3) else 0
    tcut = case.get('tcut')
    tcut = max(0, min(10 ** 6, tcut)) if isinstance(tcut, int) and not isinstance(tcut, bool) else None
    # second session on the same ServerConnection object (only the server connection is ever connected again)
    s2 = None
    raw2 = case.get('s2')
    if kind == 'server' and isinstance(raw2, dict):
        frames2 = _sanitise_frames(raw2.get('frames'), kind, mode, 8)
        if frames2:
            how = raw2.get('how') if (raw2.get('how') in S2_HOWS and mode == 'client') else 'explicit'
            if end == 'partial-silence':
                # the read timeout is awaited with the watchdog off: otherwise the watchdog reconnects while the
                # harness still waits and the post-timeout observations would be those of the next session
                how = 'explicit'
            s2 = {'how': how, 'rt': raw2.get('rt') if raw2.get('rt') in (1, 2) else 1, 'frames': frames2,
                  'seg': _sanitise_seg(raw2.get('seg')), 'gap': 1 if raw2.get('gap') else 0}
    ityp = case.get('ityp') if (case.get('ityp') in ODD_TYPS and kind.startswith('peerD')) else None
    via = 'ctp' if (case.get('via') == 'ctp' and kind in ('peerP', 'peerD')) else 'accept'
    return {'mode': mode, 'kind': kind, 'frames': frames, 'seg': seg, 'gap': 1 if case.get('gap') else 0,
            'end': end, 'plen': plen, 'tcut': tcut,
            'bad_first': bool(case.get('bad_first')) and kind != 'server' and via == 'accept',
            'init_key': init_key, 's2': s2, 'ityp': ityp, 'via': via}


FUZZ_KINDS = ['server', 'peerP', 'peerD', 'init']


def run_raw_case(case, res):
    """Replay of a coverage-guided fuzzing finding: one raw frame body through decode_message_data."""
    from aioslsk.exceptions import MessageDeserializationError
    kind = case.get('kind')
    if kind not in FUZZ_KINDS:
        return
    try:
        body = bytes.fromhex(case.get('hex', ''))[:4096]
    except ValueError:
        return
    conn = _fresh_connection({'server': 'server', 'peerP': 'peerP', 'peerD': 'peerD', 'init': 'peerP'}[kind],
                             established=kind != 'init')
    res.label('raw:' + kind)
    try:
        conn.decode_message_data(struct.pack('<I', len(body)) + body)
        res.label('raw:decoded')
    except MessageDeserializationError:
        res.label('raw:rejected')
    except Exception as exc:
        res.violate(f'C02/decoder-raised:{type(exc).__name__}:raw:{kind}', f'{body[:64].hex()} {exc!r}')
    res.nontrivial = True


def _fuzz_tier(ctx):
    """atheris / libFuzzer on decode_message_data, one connection kind per shard (thorough only)."""
    import os
    import shutil
    import subprocess
    import sys
    import tempfile
    import time
    kind = FUZZ_KINDS[ctx.shard]
    verif = os.path.dirname(os.path.dirname(os.path.abspath(__file__)))
    runs = int(os.environ.get('VFW_FUZZ_RUNS', '1500000'))
    tmp = tempfile.mkdtemp(prefix='vfw-fuzz-')
    try:
        art = os.path.join(tmp, 'art')
        corpus = os.path.join(tmp, 'corpus')
        os.makedirs(corpus)
        cmd = [sys.executable, '-m', 'vfw.fuzz_c02', kind, str(runs), str(ctx.base_seed), art, corpus]
        try:
            proc = subprocess.run(cmd, cwd=verif, capture_output=True, text=True,
                                  timeout=max(60, ctx.deadline - time.time()))
        except subprocess.TimeoutExpired:
            ctx.extra['fuzz_timeouts'] = ctx.extra.get('fuzz_timeouts', 0) + 1
            return
        tail = (proc.stderr or '')[-1500:]
        if 'No module named' in tail and 'atheris' in tail:
            ctx.extra['fuzz_skipped_no_atheris'] = 1
            return
        ctx.extra['fuzz_executions'] = ctx.extra.get('fuzz_executions', 0) + runs
        if os.path.isdir(art):
            for name in sorted(os.listdir(art)):
                with open(os.path.join(art, name), 'rb') as fh:
                    body = fh.read()
                ctx.run({'t': 'raw', 'kind': kind, 'hex': body.hex()})
    finally:
        shutil.rmtree(tmp, ignore_errors=True)


def _differential(frames, kind, group, res, typ=None):
    """Per-frame differential: -> (built [(bytes, mutation)], expected [message | None], causes) or None when the
    decoder did not terminate (reported)."""
    from aioslsk.exceptions import MessageDeserializationError
    built = []
    expected = []       # message | None (rejected)
    causes = []
    for f in frames:
        data, applied = build_frame(f, group)
        built.append((data, applied))
        conn = _fresh_connection(kind, typ=typ)
        try:
            with _cpu_limit(DECODE_CPU_LIMIT_S):
                msg = conn.decode_message_data(data)
            expected.append(msg)
            causes.append('ok')
            if applied == 'none':
                want = c01.expected_after_roundtrip(f['key'], f['values'])
                try:
                    k2, got = msgbridge.from_obj(msg)
                    got = c01._norm_fields(wire_ref.BY_KEY[f['key']]['fields'], got) if k2 == f['key'] else None
                except Exception:
                    got = None
                if got != want:
                    res.violate(f'C02/valid-frame-decoded-wrongly:{f["key"]}', f'{got} != {want}')
        except _CpuLimitExceeded:
            # "parsing terminates": decoding one frame of at most a few MiB burnt DECODE_CPU_LIMIT_S seconds of
            # CPU time (process CPU time, independent of machine load) -- the stream part would never return
            res.violate(f'C02/decoder-does-not-terminate:{applied}', f'{f["key"]} frame of {len(data)} bytes: '
                        f'decode_message_data used more than {DECODE_CPU_LIMIT_S} s of CPU time; {data[:48].hex()}')
            return None
        except MessageDeserializationError as exc:
            expected.append(None)
            cause = type(exc.__cause__).__name__ if exc.__cause__ is not None else 'None'
            causes.append(cause)
            if applied == 'none':
                res.violate(f'C02/valid-frame-rejected:{f["key"]}', repr(exc.__cause__))
        except Exception as exc:   # anything else escaping the decoder
            expected.append(None)
            causes.append('ESCAPED:' + type(exc).__name__)
            res.violate(f'C02/decoder-raised:{type(exc).__name__}:{applied}', f'{f["key"]} {data[:64].hex()} {exc!r}')
    for cz in causes:
        res.label('cause:' + cz)
    for _, applied in built:
        res.label('mut:' + applied)
    return built, expected, causes


def _delivery_violation(res, prefix, got_msgs, expected, causes, built, state, reader_alive):
    """Delivered sequence != decodable frames: classify as lost-after-<cause of the frame before> / differs."""
    exp_msgs = [m for m in expected if m is not None]
    if got_msgs == exp_msgs:
        return
    if len(got_msgs) < len(exp_msgs) and got_msgs == exp_msgs[:len(got_msgs)]:
        idx = len(got_msgs)
        # which frame kind preceded the loss?
        pos = -1
        seen = -1
        for j, m in enumerate(expected):
            if m is not None:
                seen += 1
                if seen == idx:
                    pos = j
                    break
        prev = causes[pos - 1] if pos > 0 else 'start'
        res.violate(f'{prefix}frames-lost-after:{prev}',
                    f'{len(got_msgs)}/{len(exp_msgs)} delivered; state={state} '
                    f'reader_alive={reader_alive} muts={[a for _, a in built]}')
    else:
        res.violate(f'{prefix}delivery-sequence-differs', f'got {got_msgs!r:.300} expected {exp_msgs!r:.300}')


def run_case(case) -> CaseResult:
    res = CaseResult()
    if isinstance(case, dict) and case.get('t') == 'raw':
        run_raw_case(case, res)
        return res
    c = _sanitise(case)
    if not c['frames']:
        return res
    from aioslsk.events import ConnectionStateChangedEvent, EventBus, MessageReceivedEvent
    from aioslsk.exceptions import MessageDeserializationError
    from aioslsk.network.connection import CloseReason, ConnectionState, PeerConnection, ServerConnection
    from aioslsk.network.network import Network
    from aioslsk.protocol import messages as M

    kind, mode = c['kind'], c['mode']
    group = _group(kind)
    obf_port = kind.endswith('obf')
    frames_obf = kind == 'peerPobf'          # D connections are only obfuscated for the init message

    # ---- per-frame differential (pure part) ----------------------------------
    via, ityp = c['via'], c['ityp']
    diff = _differential(c['frames'], kind, group, res, typ=ityp)
    if diff is None:
        return res
    built, expected, causes = diff
    s2 = c['s2']
    built2 = expected2 = causes2 = None
    if s2 is not None:
        diff = _differential(s2['frames'], kind, group, res)
        if diff is None:
            return res
        built2, expected2, causes2 = diff

    # ---- stream part ----------------------------------------------------------
    end = c['end']
    stream = bytearray()
    init_frame = None
    bad_first = c['bad_first']
    typ = None
    if kind != 'server':
        typ = 'P' if kind.startswith('peerP') else ('D' if ityp is None else ityp)
        if via == 'accept':
            init_frame = M.PeerInit.Request('hostile', typ, 0).serialize()
        if bad_first:
            # the first generated frame takes the place of the init message
            init_frame = None
    wire_frames = []
    for i, (data, applied) in enumerate(built):
        if frames_obf or (bad_first and i == 0 and obf_port):
            okey = bytes.fromhex(c['frames'][i]['okey'])
            wire_frames.append(wire_ref.obf_encode(data, okey))
        else:
            wire_frames.append(data)
    if init_frame is not None:
        stream += wire_ref.obf_encode(init_frame, c['init_key']) if obf_port else init_frame
    for wf in wire_frames:
        stream += wf
    partial = b''
    cut_class = None
    if end in PARTIAL_ENDS:
        tail = M.GetUserStatus.Response('x', 1, False).serialize() if kind == 'server' else (
            M.PeerPlaceInQueueReply.Request('name', 3).serialize() if group == 'peer' else
            M.DistributedBranchLevel.Request(3).serialize())
        if c['plen']:
            tail = struct.pack('<I', LIE_LENS[c['plen']]) + tail[4:12].ljust(8, b'\0') + b'..'
        if frames_obf:
            tail = wire_ref.obf_encode(tail, b'\x01\x02\x03\x04')
        keep = len(tail) - 2 if c['tcut'] is None else 1 + c['tcut'] % (len(tail) - 1)
        partial = tail[:keep]
        hdr = 8 if frames_obf else 4
        cut_class = 'in-header' if keep < hdr else ('after-header' if keep == hdr else 'in-body')
        if not bad_first:
            stream += partial
    stream2 = b''.join(d for d, _ in built2) if s2 is not None else b''

    # expectation for a bad first frame: decoded as init message
    first_ok = True
    if bad_first:
        from aioslsk.network.connection import PeerConnectionState
        probe = _fresh_connection(kind, established=False)
        try:
            first = probe.decode_message_data(built[0][0])
            first_ok = isinstance(first, M.PeerInit.Request)   # any decodable PeerInit is accepted by the library
        except MessageDeserializationError:
            first_ok = False
        except Exception as exc:
            first_ok = False
            res.violate(f'C02/decoder-raised:{type(exc).__name__}:init', built[0][0][:64].hex())
        if first_ok:
            return res   # the hostile frame happens to be a valid init: not the scenario under test
        del PeerConnectionState

    out = {}

    async def second_session(world, client, network, target, ep, delivered, states):
        """Session 2 on the same ServerConnection object (kind == 'server' only)."""
        d = out['s2'] = {}

        def alive():
            return target._reader_task is not None and not target._reader_task.done()
        if target.state != ConnectionState.CLOSED:
            # no terminal event (or a partial tail the library kept waiting for): the server closes the connection
            d['server_closed'] = True
            ep.close()
            await asyncio.sleep(0.05)
        d['state_before'] = target.state
        if target.state != ConnectionState.CLOSED:
            return
        reasons = [r for cn, s, r in states if cn is target and s == ConnectionState.CLOSED]
        d['close_reason'] = reasons[-1].name if reasons else None
        seg = s2['seg']
        gap = 0.0002 if s2['gap'] else 0.0
        # the new TCP connection is segmented from its first byte (the login response is dribbled too)
        world.server.listener.seg, world.server.listener.gap = seg, gap
        world.server.auto = True
        n_sessions = len(world.server.sessions)
        n_states = len(states)
        if s2['how'] == 'auto':
            # watchdog interval (0.5 s) + reconnect timeout + connect + login round trip. The watchdog does not
            # reconnect after EOF / a requested close (by design): then the harness connects explicitly below
            await asyncio.sleep(0.5 + s2['rt'] + 1.5)
            d['auto_reconnected'] = len(world.server.sessions) > n_sessions
        if len(world.server.sessions) == n_sessions:
            try:
                await network.connect_server()
                if client is not None:
                    # the simulated server answers the login within milliseconds with a valid Login.Response
                    await asyncio.wait_for(client.login(), S2_LOGIN_BOUND_S)
                else:
                    network.server_connection.start_reader_task()
            except asyncio.TimeoutError:
                d['login_exc'] = (f'login() did not return within {S2_LOGIN_BOUND_S} s although the server sent a '
                                  f'valid Login.Response')
            except Exception as exc:
                d['login_exc'] = f'{type(exc).__name__}: {exc}'[:300]
        if client is not None:
            await asyncio.sleep(0.5)
            d['logged_in'] = client.session is not None
        world.server.auto = False
        d['same_object'] = network.server_connection is target
        d['connected'] = len(world.server.sessions) > n_sessions
        if not d['connected']:
            return
        ep2 = world.server.sessions[-1]
        d['state_after_login'] = target.state
        d['reader_alive_after_login'] = alive()
        n0 = len(delivered)
        ep2.send(bytes(stream2))
        n_chunks = (len(stream2) // min(seg)) + 1 if seg else 1
        await asyncio.sleep(0.05 + n_chunks * (gap + 1e-6) * 1.5)
        d['delivered'] = [m for cn, m in delivered[n0:] if cn is target]
        d['state_after_stream'] = target.state
        d['close_reasons'] = [r for cn, s, r in states[n_states:] if cn is target and s == ConnectionState.CLOSED]
        d['reader_alive_after_stream'] = alive()
        if target.state != ConnectionState.CLOSED:
            pm = M.GetUserStatus.Response('probe-s2', 1, False)
            data = pm.serialize()
            before = len(delivered)
            ep2.send(data)
            await asyncio.sleep(0.05 + len(data) * (gap + 1e-6) * 1.5)
            d['probe_ok'] = any(m == pm and cn is target for cn, m in delivered[before:])

    async def main(world: simworld.World):
        loop = world.loop
        seg = c['seg']
        gap = 0.0002 if c['gap'] else 0.0
        world.server.auto = True
        settings = simworld.mk_settings('me')
        if s2 is not None and s2['how'] == 'auto':
            # the reconnect watchdog connects the same ServerConnection object again (and the client logs on again)
            settings.network.server.reconnect.auto = True
            settings.network.server.reconnect.timeout = s2['rt']
        delivered = []
        states = []

        async def on_msg(event):
            delivered.append((event.connection, event.message))

        async def on_state(event):
            states.append((event.connection, event.state, event.close_reason))
        if mode == 'client':
            client = await world.start_client(settings)
            network, bus = client.network, client.events
            await asyncio.sleep(0.5)
        else:
            client = None
            bus = EventBus()
            network = Network(settings, bus)
            await network.initialize()
            network.server_connection.start_reader_task()
        bus.register(MessageReceivedEvent, on_msg)
        bus.register(ConnectionStateChangedEvent, on_state)
        world.server.auto = False
        if kind == 'server':
            ep = world.server.sessions[-1]
            ep.link.seg, ep.link.gap = seg, gap
            target = network.server_connection
            read_timeout = target.read_timeout
        elif via == 'ctp':
            # the server relays a ConnectToPeer request of user 'hostile': the library connects to that peer, sends
            # PeerPierceFirewall and treats the connection as initialized; the peer then sends the stream
            peer = world.add_peer('hostile', ip='66.6.6.6', seg=seg, gap=gap)
            world.server.send(M.ConnectToPeer.Response(username='hostile', typ=typ, ip='66.6.6.6', port=peer.port,
                                                       ticket=4242, privileged=False))
            await asyncio.sleep(0.05)
            target = None
            read_timeout = 60.0
            if not peer.links:
                out['target_found'] = False
                out['relay_missing'] = True
                return
            ep = peer.links[-1].ep
        else:
            port = settings.network.listening.obfuscated_port if obf_port else settings.network.listening.port
            ep = world.net.connect_in(port, peername=('66.6.6.6', 6666), seg=seg, gap=gap)
            target = None
            read_timeout = 60.0
        n_before = len(delivered)
        rx_before = ep.received_total
        if len(stream) > 200000:
            # multi-megabyte frame: a handful of large TCP segments, the first cut inside the huge body
            seg = [150000 + len(stream) % 1000, 700001]
            ep.link.seg = seg
        ep.send(bytes(stream))
        n_chunks = (len(stream) // min(seg)) + 1 if seg else 1
        await asyncio.sleep(0.05 + n_chunks * (gap + 1e-6) * 1.5)
        if kind != 'server':
            cands = [cn for cn in network.peer_connections if cn.hostname == '66.6.6.6'] + \
                    [cn for cn, _, _ in states if isinstance(cn, PeerConnection) and cn.hostname == '66.6.6.6']
            target = cands[0] if cands else None
        out['target_found'] = target is not None
        if target is None:
            return
        out['delivered_stream'] = [m for cn, m in delivered[n_before:] if cn is target]
        out['state_after_stream'] = target.state
        out['close_reasons_stream'] = [r for cn, s, r in states if cn is target and s == ConnectionState.CLOSED]
        out['reader_alive_after_stream'] = target._reader_task is not None and not target._reader_task.done()
        # terminal event
        if bad_first:
            pass
        elif end == 'eof':
            ep.close()
        elif end == 'reset':
            ep.reset()
        elif end == 'partial-eof':
            ep.close()
        elif end == 'partial-reset':
            ep.reset()
        if end in ('eof', 'reset', 'partial-eof', 'partial-reset'):
            await asyncio.sleep(0.05)
            out['state_after_end'] = target.state
            out['reasons'] = [r for cn, s, r in states if cn is target and s == ConnectionState.CLOSED]
        elif end == 'partial-silence' and not bad_first:
            await asyncio.sleep(0.05)
            out['state_before_timeout'] = target.state
            await asyncio.sleep(read_timeout + 5.0)
            out['state_after_end'] = target.state
            out['reasons'] = [r for cn, s, r in states if cn is target and s == ConnectionState.CLOSED]
        out['library_wrote'] = ep.received_total - rx_before
        out['reader_alive_final'] = target._reader_task is not None and not target._reader_task.done()
        out['final_state'] = target.state
        out['closed_events'] = sum(1 for cn, s, r in states if cn is target and s == ConnectionState.CLOSED)
        # a second connection still works (accept path) / the same connection still works (no terminal event)
        probe_msg = None
        if kind != 'server':
            port = settings.network.listening.port
            typ2 = 'P' if group == 'peer' else 'D'
            ep2 = world.net.connect_in(port, peername=('77.7.7.7', 7777))
            ep2.send(M.PeerInit.Request('second', typ2, 0).serialize())
            probe_msg = M.PeerPlaceInQueueReply.Request('probe', 1) if typ2 == 'P' else M.DistributedBranchLevel.Request(7)
            ep2.send(probe_msg.serialize(), delay=0.005)
            await asyncio.sleep(0.05)
            out['second_ok'] = any(m == probe_msg and cn.hostname == '77.7.7.7' for cn, m in delivered)
        if end is None and not bad_first:
            pm = M.GetUserStatus.Response('probe', 1, False) if kind == 'server' else (
                M.PeerPlaceInQueueReply.Request('probe2', 2) if group == 'peer' else M.DistributedBranchLevel.Request(9))
            data = pm.serialize()
            if frames_obf:
                data = wire_ref.obf_encode(data, b'\x09\x08\x07\x06')
            before = len(delivered)
            ep.send(data)
            await asyncio.sleep(0.05 + len(data) * (gap + 1e-6) * 1.5)
            out['same_ok'] = any(m == pm and cn is target for cn, m in delivered[before:])
        if via == 'ctp':
            # the server connection that carried the relayed request still delivers
            pm = M.GetUserStatus.Response('probe-srv', 1, False)
            before = len(delivered)
            world.server.send(pm)
            await asyncio.sleep(0.05)
            out['server_ok'] = any(m == pm and cn is network.server_connection for cn, m in delivered[before:])
        if s2 is not None:
            await second_session(world, client, network, target, ep, delivered, states)
        if client is not None:
            await client.stop()
        else:
            await network.disconnect()

    _, loop_errors = simworld.run_world(main)

    # ---- oracle -----------------------------------------------------------------
    from aioslsk.network.connection import ConnectionState as CS
    if not out.get('target_found'):
        if out.get('relay_missing'):
            res.violate('C02/relayed-connection-missing',
                        f'no connection to the peer after ConnectToPeer.Response(typ={typ!r}) from the server')
        elif kind != 'server' and not bad_first:
            res.violate('C02/accepted-connection-missing', 'no PeerConnection object observed for the accepted socket')
        elif bad_first:
            pass
        for e in loop_errors:
            res.violate(f'C02/loop-error:{e["exc_type"]}', str(e)[:300])
            break
        return res
    exp_msgs = [m for m in expected if m is not None]
    got_msgs = out.get('delivered_stream', [])
    if bad_first:
        if got_msgs:
            res.violate('C02/delivered-after-bad-init', f'{len(got_msgs)} messages delivered')
        if out.get('final_state') != CS.CLOSED:
            res.violate('C02/bad-init-not-closed', f'state={out.get("final_state")}')
        if out.get('second_ok') is False:
            res.violate('C02/bad-init-broke-other-connections', 'second connection did not deliver its message')
    else:
        st_after = out.get('state_after_stream')
        # client mode: a handler may legitimately close the connection after a valid message (e.g. a search reply):
        # then delivery stops after that message
        legit_close = (mode == 'client' and st_after == CS.CLOSED and got_msgs and
                       out.get('close_reasons_stream') == [CloseReason.REQUESTED] and
                       got_msgs == exp_msgs[:len(got_msgs)])
        if legit_close:
            res.label('closed-by-handler')
            exp_msgs = got_msgs
        # a connection whose decodable first frame carries an odd connection-type string may also be refused cleanly
        # (CLOSED reported, reader gone, nothing delivered); the unchanged library establishes and reads it
        if ityp is not None and st_after == CS.CLOSED and not got_msgs and out.get('close_reasons_stream') and \
                not out.get('reader_alive_after_stream'):
            res.label('odd-typ-refused-cleanly')
            legit_close = True
        if not legit_close:
            _delivery_violation(res, 'C02/', got_msgs, expected, causes, built, out.get('state_after_stream'),
                                out.get('reader_alive_after_stream'))
        if st_after != CS.CLOSED and not out.get('reader_alive_after_stream'):
            res.violate('C02/reader-stopped-connection-open' + (f':odd-connection-type:{via}' if ityp is not None else ''),
                        f'state={st_after} causes={causes}' +
                        (f'; connection type string {ityp!r} in the decodable first frame ({via})' if ityp is not None else ''))
        if st_after == CS.CLOSED and end is None and not legit_close:
            res.violate('C02/connection-closed-by-stream', f'causes={causes} muts={[a for _, a in built]}')
        if end == 'partial-silence' and out.get('library_wrote'):
            # every message the library sends on a connection extends its read deadline (by design), so the
            # bounded-close expectation only applies when it wrote nothing after the stream started
            res.label('partial-silence-skipped-library-wrote')
        elif end in ('eof', 'reset', 'partial-eof', 'partial-silence', 'partial-reset'):
            if out.get('state_after_end') != CS.CLOSED:
                res.violate(f'C02/not-closed-after:{end}' + (':lying-length' if c['plen'] else ''),
                            f'state={out.get("state_after_end")} announced tail length '
                            f'{LIE_LENS[c["plen"]] if c["plen"] else "honest"}')
            if end == 'partial-silence' and out.get('state_before_timeout') == CS.CLOSED and st_after != CS.CLOSED \
                    and not c['plen']:
                # (a tail announcing an absurd length may also be refused at once: not constrained)
                res.violate('C02/closed-before-read-timeout', '')
            if out.get('reader_alive_final'):
                res.violate(f'C02/reader-alive-after-close:{end}', '')
            if out.get('closed_events', 0) > 1:
                res.violate('C02/closed-reported-twice', str(out.get('closed_events')))
        if end is None and out.get('same_ok') is False and st_after != CS.CLOSED:
            res.violate('C02/desynchronised-after-stream', f'probe frame not delivered; causes={causes}')
        if out.get('second_ok') is False:
            res.violate('C02/other-connection-broken', '')
        if out.get('server_ok') is False:
            res.violate('C02/other-connection-broken:server', f'after ConnectToPeer.Response(typ={typ!r})')
    # ---- second session on the same ServerConnection object: the same oracle for its own stream -------------
    d = out.get('s2')
    s2_inside = False
    if d is not None:
        P = 'C02/second-session:'
        s2_inside = cut_class in ('after-header', 'in-body')
        if d.get('state_before') != CS.CLOSED:
            res.violate('C02/not-closed-after:server-close', f'state={d.get("state_before")} end={end}')
        elif not d.get('connected'):
            res.violate(P + 'connect-failed', f'{d.get("login_exc")} close_reason={d.get("close_reason")}')
        else:
            how = 'auto' if d.get('auto_reconnected') else 'explicit'
            res.label('s2:' + how, 's2:after-' + str(d.get('close_reason')))
            if not d.get('same_object'):
                res.label('s2:connection-object-replaced')
            ctx_txt = (f'session 1 ended with {end} (tail cut {cut_class}, announced '
                       f'{LIE_LENS[c["plen"]] if c["plen"] and end in PARTIAL_ENDS else "honest"}), closed as '
                       f'{d.get("close_reason")}; session 2 by {how}')
            if 'login_exc' in d or (mode == 'client' and not d.get('logged_in')):
                # the server answered the login of session 2 with a valid Login.Response frame
                res.violate(P + 'login-failed', f'{d.get("login_exc") or "no session after the automatic re-login"}; '
                            f'state={d.get("state_after_login")} reader_alive={d.get("reader_alive_after_login")}; '
                            + ctx_txt)
            if d.get('state_after_login') != CS.CLOSED and not d.get('reader_alive_after_login'):
                res.violate(P + 'reader-not-running-connection-open', f'state={d.get("state_after_login")}; ' + ctx_txt)
            got2 = d.get('delivered', [])
            exp2 = [m for m in expected2 if m is not None]
            st2 = d.get('state_after_stream')
            legit2 = (mode == 'client' and st2 == CS.CLOSED and got2 and
                      d.get('close_reasons') == [CloseReason.REQUESTED] and got2 == exp2[:len(got2)])
            if legit2:
                res.label('s2:closed-by-handler')
            else:
                _delivery_violation(res, P, got2, expected2, causes2, built2, st2, d.get('reader_alive_after_stream'))
                if st2 == CS.CLOSED:
                    res.violate(P + 'connection-closed-by-stream',
                                f'reasons={[r.name for r in d.get("close_reasons", [])]} causes={causes2}; ' + ctx_txt)
            if st2 != CS.CLOSED and not d.get('reader_alive_after_stream'):
                res.violate(P + 'reader-stopped-connection-open', f'state={st2} causes={causes2}; ' + ctx_txt)
            if d.get('probe_ok') is False:
                res.violate(P + 'desynchronised-after-stream', f'probe frame not delivered; causes={causes2}; ' + ctx_txt)
    for e in loop_errors:
        res.violate(f'C02/loop-error:{e["exc_type"]}', str(e)[:300])
        break

    hostile_then_valid = any(expected[i] is None and any(m is not None for m in expected[i + 1:])
                             for i in range(len(expected)))
    if expected2:
        hostile_then_valid = hostile_then_valid or any(
            expected2[i] is None and any(m is not None for m in expected2[i + 1:]) for i in range(len(expected2)))
    # a session that ended inside a frame followed by a session whose valid frames must all be delivered
    midframe_then_valid = bool(s2_inside and any(m is not None for m in expected2))
    # a decodable init frame with a connection type that is not P / D / F followed by frames that must be delivered
    odd_typ_then_valid = bool(ityp is not None and any(m is not None for m in expected))
    res.nontrivial = bool(hostile_then_valid or midframe_then_valid or odd_typ_then_valid or
                          (bad_first and out.get('second_ok') is not None))
    seg = c['seg']
    seg_class = 'none' if not seg else ('dribble' if max(seg) <= 3 else ('small' if max(seg) <= 9 else 'mixed'))
    res.key = [kind, mode, [a for _, a in built], causes, seg_class, end, c['plen'] if end in PARTIAL_ENDS else 0,
               bad_first]
    if end in PARTIAL_ENDS and c['tcut'] is not None:
        res.key.append(cut_class)
    if s2 is not None:
        res.key.append([s2['how'], [a for _, a in built2], causes2])
    if ityp is not None or via != 'accept':
        res.key.append([via, ityp])
    res.label('kind:' + kind, 'mode:' + mode, 'seg:' + seg_class, 'end:' + str(end))
    if end in PARTIAL_ENDS and c['plen']:
        res.label('tail-length-lie:%d' % c['plen'])
    if end in PARTIAL_ENDS and not bad_first:
        res.label('tail-cut:' + cut_class)
    if bad_first:
        res.label('bad-first')
    if kind != 'server':
        res.label('via:' + via)
    if ityp is not None:
        res.label('init-typ:odd', 'init-typ:odd:' + via)
    if hostile_then_valid:
        res.label('hostile-then-valid')
    if s2 is not None:
        res.label('second-session', 'second-session:' + mode + ':' + s2['how'])
        if midframe_then_valid:
            res.label('second-session:after-mid-frame-end')
    return res


def _huge_cases():
    """A multi-megabyte frame with an honest prefix between valid frames, per connection kind and size."""
    samples = {'server': ('server:GetUserStatus:Response', {'username': 'before', 'status': 1, 'privileged': False}),
               'peerP': ('peer:PeerPlaceInQueueReply:Request', {'filename': 'before', 'place': 1}),
               'peerPobf': ('peer:PeerPlaceInQueueReply:Request', {'filename': 'before', 'place': 1}),
               'peerD': ('distributed:DistributedBranchLevel:Request', {'level': 5})}
    for kind, (key, values) in samples.items():
        for si in range(len(HUGE_SIZES)):
            def fr(mut, b=0):
                return {'key': key, 'values': values, 'mut': mut, 'a': 77, 'b': b, 'okey': '01020304'}
            yield {'mode': 'net', 'kind': kind, 'frames': [fr('none'), fr('huge', si), fr('none'), fr('none')],
                   'seg': None, 'gap': 0, 'end': None, 'bad_first': False, 'init_key': '0a0b0c0d'}
        # a valid frame, then a header announcing far more than ever arrives, then silence / EOF
        for plen in (1, 2, 3):
            for end in ('partial-silence', 'partial-eof'):
                yield {'mode': 'net', 'kind': kind, 'frames': [fr('none')], 'seg': None, 'gap': 0, 'end': end,
                       'plen': plen, 'bad_first': False, 'init_key': '0a0b0c0d'}


def _second_session_cases():
    """Session 1 ends in every terminal event (tail cut inside the header / right after it / inside the body, honest
    and lying announced lengths), then the same ServerConnection object is connected again (explicitly; in client mode
    also by the reconnect watchdog) and receives valid frame, undecodable frame, valid frame."""
    key, values = 'server:GetUserStatus:Response', {'username': 'u', 'status': 1, 'privileged': False}

    def fr(mut, name):
        return {'key': key, 'values': dict(values, username=name), 'mut': mut, 'a': 5, 'b': 1, 'okey': '01020304'}
    ends = [('partial-eof', 0, None), ('partial-eof', 0, 3), ('partial-eof', 0, 8), ('partial-eof', 0, 1),
            ('partial-eof', 1, None), ('partial-eof', 2, 3), ('partial-eof', 3, None), ('partial-reset', 0, None),
            ('partial-reset', 0, 3), ('partial-reset', 2, None), ('partial-silence', 0, None), ('partial-silence', 0, 3),
            ('partial-silence', 3, None), ('eof', 0, None), ('reset', 0, None), (None, 0, None)]
    for mode, how in (('net', 'explicit'), ('client', 'explicit'), ('client', 'auto')):
        for end, plen, tcut in ends:
            for seg2 in (None, [1]):
                yield {'mode': mode, 'kind': 'server', 'frames': [fr('none', 's1-a'), fr('unknown', 's1-b'), fr('none', 's1-c')],
                       'seg': None, 'gap': 0, 'end': end, 'plen': plen, 'tcut': tcut, 'bad_first': False,
                       'init_key': '0a0b0c0d',
                       's2': {'how': how, 'rt': 1, 'seg': seg2, 'gap': 0,
                              'frames': [fr('none', 's2-a'), fr('trunc', 's2-b'), fr('none', 's2-c')]}}


def _odd_typ_cases():
    """Every odd connection-type string (and plain P / D through the relayed path) x accepted on the clear / obfuscated
    port / relayed by the server x net / client mode, followed by valid frame, undecodable frame, valid frame."""
    dkey, pkey = 'distributed:DistributedBranchLevel:Request', 'peer:PeerPlaceInQueueReply:Request'

    def fr(key, mut, n):
        values = {'level': n} if key == dkey else {'filename': 'f%d' % n, 'place': n}
        return {'key': key, 'values': values, 'mut': mut, 'a': 5, 'b': 1, 'okey': '01020304'}
    for mode in ('net', 'client'):
        for ityp in ODD_TYPS + [None]:
            for kind, via in (('peerD', 'accept'), ('peerDobf', 'accept'), ('peerD', 'ctp')):
                if mode == 'client' and kind == 'peerDobf':
                    continue
                if ityp is None and via == 'accept':
                    continue
                for end in (None, 'eof'):
                    yield {'mode': mode, 'kind': kind, 'frames': [fr(dkey, 'none', 1), fr(dkey, 'unknown', 2), fr(dkey, 'none', 3)],
                           'seg': None, 'gap': 0, 'end': end, 'plen': 0, 'tcut': None, 'bad_first': False,
                           'init_key': '0a0b0c0d', 's2': None, 'ityp': ityp, 'via': via}
        for end in (None, 'partial-eof'):
            yield {'mode': mode, 'kind': 'peerP', 'frames': [fr(pkey, 'none', 1), fr(pkey, 'unknown', 2), fr(pkey, 'none', 3)],
                   'seg': [3], 'gap': 0, 'end': end, 'plen': 0, 'tcut': None, 'bad_first': False,
                   'init_key': '0a0b0c0d', 's2': None, 'ityp': None, 'via': 'ctp'}


def run_shard(ctx):
    ctx.enumerate(_huge_cases())
    ctx.enumerate(_second_session_cases())
    ctx.enumerate(_odd_typ_cases())
    n_net = 450 if ctx.tier == 'quick' else 9000
    n_client = 50 if ctx.tier == 'quick' else 1500
    ctx.explore(case_strategy(), n_net)
    ctx.explore(case_strategy(mode='client'), n_client, salt=1)
    if ctx.tier == 'thorough' and ctx.shard < len(FUZZ_KINDS):
        _fuzz_tier(ctx)


MANIFEST_ENTRY = {
    'technique': 'property-based testing (Hypothesis): generated frame streams (valid + 8 hostile kinds) x TCP '
                 'segmentation x connection kind x terminal event (incl. truncated frame + EOF / reset / silence at a '
                 'generated cut offset) x second session on the re-connected ServerConnection object x odd '
                 'connection-type strings in a decodable first frame (accepted PeerInit / server-relayed '
                 'ConnectToPeer), on an in-memory '
                 'TCP layer; per-frame differential + exactly-once in-order delivery + reader liveness oracle',
    'level_text': 'Generated-stream exploration of the real reader loop, accept path and decoder: every frame is '
                  'decoded in isolation (message or MessageDeserializationError, nothing else) and the delivered event '
                  'sequence of the stream is compared with that per-frame expectation under arbitrary segmentation; '
                  'for the server connection also for a second stream after the same connection object was connected '
                  'again (reconnect watchdog or connect_server() + login()) following a session that ended at a frame '
                  'boundary or inside a frame. Sampled streams; no proof.',
    'level_note': 'Trusted base: in-memory TCP model, simulated server (login reply), reference encoder (frames are '
                  'built without the library), Hypothesis. Length prefixes of complete frames are capped at 64 KiB '
                  'except the enumerated honest 70 KiB / 1 MiB / 9 MiB frames; truncated tails announce up to ~4 GiB.',
}
