"""C10 — connection life cycle is monotone and the connection registry is exact (DESIGN §3 C10)."""
from __future__ import annotations

import asyncio
import struct
import types

from hypothesis import strategies as st

from vfw import simnet, simworld, wire_ref
from vfw.runner import CaseResult

PROPERTY = 'C10'
LEVEL = 'fault_enumeration'
RULE = (
    "System: a real Network (+EventBus, both listening ports, server connection) on the in-memory TCP layer. Case = "
    "connect mode (race|fallback) + 1..4 peer connections, each incoming (scripted peer connects to the clear or "
    "obfuscated listening port), outgoing (create_peer_connection / get_peer_connection, address looked up or given, "
    "direct listener accept|refuse|hang|reset|accept-then-write-fails|accept-then-write-blocks x indirect "
    "pierce|cannot|silent; the user advertises one port or both clear+obfuscated ports with an independent listener "
    "outcome per port and settings.network.peer.obfuscate drawn; optionally an advertised port that does not fit in "
    "16 bits (clear port in GetPeerAddress, either port in ConnectToPeer: legal uint32 wire values) for which the "
    "socket layer raises OverflowError) or outgoing on request "
    "(ConnectToPeer from the server -> PeerPierceFirewall, same port options), type P or D, "
    "with one ending: local disconnect (1 or 2 concurrent calls with different reasons, second call 0..3 loop "
    "iterations later, optionally in the very iteration a data segment / EOF / reset of the peer arrives, before or "
    "after it), remote EOF / reset / partial frame+EOF / silence (read timeout) before or after the init message, "
    "undecodable init, a valid non-init message as init, an init message of a third (harness-registered) init class, "
    "PeerPierceFirewall with an unknown ticket, write failure or blocked write (10 s write timeout) under 1..2 "
    "concurrent send_message calls, connect refused, connect timeout; message traffic from the peer and from the "
    "library before and after the ending; optionally a server EOF/reset with auto-reconnect; optionally "
    "state-change listeners that take 1..2 loop iterations and/or a listener that takes 0..4 more iterations or 1..5 "
    "ms on one state of peer connections, mostly CONNECTED (the event bus supports coroutine listeners); optionally "
    "a listener that itself awaits event.connection.disconnect() while CONNECTING / CONNECTED / CLOSING of an incoming "
    "and/or outgoing peer connection is being reported; users without listening port (0/0 in GetPeerAddress / "
    "ConnectToPeer). A fixed list of plain cases (listener-initiated disconnects per state x direction x port, "
    "ConnectToPeer for 0/0, x/0, 0/x) is always run. ENUMERATED "
    "fault positions: for every base shape (direction x mode x api x direct/indirect outcome x type/port, plus "
    "slow-listener shapes) every loop iteration j = 0..J+1 of the attempt (J measured on the fault-free run; "
    "iterations are counted by a hook on the loop so that virtual time still advances, i.e. every await of the "
    "attempt is hit before and after its wake-up) x fault in {cancel the connecting task, connection.disconnect(), "
    "network.disconnect()} injected at the top of iteration j. Oracle, per PeerConnection object "
    "(ConnectionStateChangedEvent grouped by identity): reported states strictly increase in UNINITIALIZED < "
    "CONNECTING < CONNECTED < CLOSING < CLOSED; CLOSED is preceded by CLOSING (documented in network.py); no "
    "MessageReceivedEvent once CLOSING/CLOSED was reported (connection.py: 'do not handle messages when "
    "closing/closed'); bytes written by the library side do not grow after CLOSED (also under an explicit "
    "send_message after CLOSED); at checkpoint E (1 s after the last start, slow attempts still running), checkpoint "
    "A (all endings triggered, +15 s), optionally after a network.disconnect() at A, checkpoint B (+200 s more) and "
    "after the final network.disconnect() (which must have closed everything registered when it was called): "
    "set(network.peer_connections) == {connections last reported CONNECTED} + "
    "{connections last reported CONNECTING whose connect() is still executing in a live task}, no registered "
    "connection is an orphan (CONNECTED, never initialised, owned by no live task), every library-side socket still "
    "open belongs to a registered CONNECTED connection; a connection last reported CLOSED has no open socket, its "
    "remote endpoint has seen EOF/RST one virtual second after the report, and send_data() on it raises; a "
    "listener-initiated disconnect() returns (or its task is cancelled) within the 200 s horizon and every library "
    "call of the driver returns within 60 virtual seconds (a dead-locked library ends as a violation, not as a hang); "
    "a relayed ConnectToPeer that does not lead to a connection is answered with CannotConnect; slow closes (the "
    "library-side transport reports is_closing() at once and confirms the close 0.5..4.5 s later) with a checkpoint "
    "in the middle of the CLOSING window, checkpoints in the middle of a slow CLOSING / CLOSED listener, and a CLOSED "
    "listener that ends with CancelledError: a connection last reported CLOSING with an open socket is still "
    "registered if it ever was, and at the moment CLOSED is delivered to the listener it is no longer registered; "
    "at B every connection that was ever reported has CLOSED "
    "exactly once, as the last report; the server connection alone may restart with CONNECTING after CLOSED. "
    "Non-trivial = a connection ended before CONNECTED / before its init message, or a fault position was hit while "
    "the attempt was running, or two endings overlapped (two disconnect calls, disconnect in the iteration of an "
    "arrival, two failing sends); distinct = distinct case document."
)
ASSUMPTIONS = [
    "in-memory TCP: ordered, lossless, strictly positive latency (>= 0.5 ms); connect outcomes accept/refuse/hang/reset",
    "file (F) connections are not generated: their life cycle after the init message is driven by the TransferManager "
    "(ticket/offset negotiation), which a bare Network does not contain; their connect/accept/close paths are the "
    "same code as for P/D",
    "quiescence horizon: 15 s after the last scripted event (checkpoint A) and 200 virtual seconds more (checkpoint B); "
    "all library timeouts involved are <= 70 s (direct 10 s + indirect 60 s, read 60 s, write 10 s)",
    "a connection whose last report is CLOSING and whose socket is still open counts as open: it has to be registered "
    "if it ever was; it leaves the registry exactly when CLOSED is reported (network.py: remove on CLOSED), checked at "
    "the moment the report is delivered to the listener and at checkpoints inside slow-close / slow-listener windows",
    "slow closes are confirmed after 0.5..4.5 s, i.e. before DISCONNECT_TIMEOUT (5 s) gives up waiting",
    "'still-running attempt' is decided by looking for a live task whose coroutine stack executes "
    "DataConnection.connect on that object",
    "the 'third init class' ending registers a harness subclass of PeerInitializationMessage (id 7) to reach the "
    "library's 'unknown peer init message' branch, which no wire message of the two existing init classes reaches",
]
BUDGET_S = {'quick': 150, 'thorough': 1500}

TICK = 0.05
RANK = {'UNINITIALIZED': 0, 'CONNECTING': 1, 'CONNECTED': 2, 'CLOSING': 3, 'CLOSED': 4}
DIRS = ['in', 'out', 'ctp']
TYPS = ['P', 'D']
DIRECT = ['accept', 'refuse', 'hang', 'reset', 'accept-failwrite', 'accept-block']
INDIRECT = ['pierce', 'cannot', 'silent']
APIS = ['create', 'create_addr', 'get']
# what the scripted peer sends first on an incoming connection
INITS = ['ok', 'eof', 'reset', 'silence', 'partial-eof', 'bad', 'non-init', 'third-class', 'unknown-ticket']
# how an established connection ends
ENDINGS = ['local', 'eof', 'reset', 'partial-eof', 'read-timeout', 'write-fail', 'write-timeout', 'none']
REASONS = ['REQUESTED', 'UNKNOWN', 'EOF', 'READ_ERROR', 'TIMEOUT', 'WRITE_ERROR']
SYNCS = ['idle', 'before-arrival', 'after-arrival']
ARRIVALS = ['data', 'eof', 'reset']
FAULTS = ['cancel', 'disconnect', 'netdc']
# which of the user's ports the server advertises: only the one selected by 'obf' (primary) or both
ADVS = ['one', 'both', 'none']     # 'none': the user has no listening port (0 / 0 on the wire)
# a ConnectionStateChangedEvent listener that itself awaits event.connection.disconnect() for one reported state
LDC_STATES = ['CONNECTED', 'CONNECTING', 'CLOSING']
LDC_WHO = ['any', 'in', 'out']
# which advertised port carries a value that does not fit in 16 bits (the wire field is a uint32)
OOBS = ['none', 'primary', 'alt', 'both']
OOB_PORTS = [70000, 65536, 4294967295]
# a listener that is slower for one state of peer connections: extra loop iterations and/or virtual milliseconds
SLOW_STATES = ['CONNECTED', 'CONNECTING', 'CLOSING', 'CLOSED']
E_OFFSET = 1.00237
A_SETTLE = 15.0037
B_SETTLE = 200.0


# ---------------------------------------------------------------------------
# strategies / enumeration

@st.composite
def conn_strategy(draw, i):
    d = draw(st.sampled_from(['in', 'in', 'out', 'out', 'ctp']))
    spec = {
        'dir': d,
        'typ': draw(st.sampled_from(TYPS)),
        'obf': draw(st.booleans()),
        'user': i if draw(st.integers(0, 4)) else draw(st.integers(0, 3)),
        'start': draw(st.integers(0, 6)),
        'ending': draw(st.sampled_from(ENDINGS)),
        'end_at': draw(st.integers(0, 4)),
        'slow_close': draw(st.sampled_from([0, 0, 0, 1, 3, 6, 9])),
        'pre': draw(st.integers(0, 2)),
        'post': draw(st.integers(0, 2)),
        'local_pre': draw(st.integers(0, 1)),
        'reasons': draw(st.lists(st.sampled_from(REASONS), min_size=1, max_size=2)),
        'gap': draw(st.integers(0, 3)),
        'queued': draw(st.sampled_from([0, 0, 1, 2])),
        'sync': draw(st.sampled_from(SYNCS)),
        'arrival': draw(st.sampled_from(ARRIVALS)),
    }
    if d == 'in':
        spec['init'] = draw(st.sampled_from(['ok', 'ok', 'ok'] + INITS))
        spec['init_at'] = draw(st.integers(0, 2))
    else:
        spec['direct'] = draw(st.sampled_from(['accept', 'accept'] + DIRECT))
        spec['direct_alt'] = draw(st.sampled_from(['accept', 'accept'] + DIRECT))
        spec['adv'] = draw(st.sampled_from(['one', 'one', 'both', 'both', 'none']))
        spec['oob'] = draw(st.sampled_from(['none'] * 5 + OOBS))
        spec['oob_port'] = draw(st.integers(0, len(OOB_PORTS) - 1))
        spec['indirect'] = draw(st.sampled_from(INDIRECT))
        spec['direct_delay'] = draw(st.sampled_from([1, 2, 3, 5, 8]))
        spec['indirect_delay'] = draw(st.sampled_from([1, 2, 3, 5, 8]))
        spec['api'] = draw(st.sampled_from(APIS))
    return spec


@st.composite
def case_strategy(draw):
    n = draw(st.integers(1, 4))
    conns = [draw(conn_strategy(i)) for i in range(n)]
    fault = None
    if draw(st.integers(0, 3)) == 0:
        fault = {'conn': draw(st.integers(0, n - 1)), 'kind': draw(st.sampled_from(FAULTS)), 'j': draw(st.integers(0, 40))}
    server = None
    if draw(st.integers(0, 7)) == 0:
        server = {'kind': draw(st.sampled_from(['eof', 'reset'])), 'at': draw(st.integers(0, 8))}
    return {
        'mode': draw(st.sampled_from(['race', 'fallback'])),
        'prefer_obf': draw(st.booleans()),
        'conns': conns,
        'fault': fault,
        'server': server,
        'listener_yield': draw(st.sampled_from([0, 0, 0, 1, 2])),
        'listener_dc': draw(st.none() | st.none() | st.none() | st.fixed_dictionaries({
            'state': st.sampled_from(['CONNECTED', 'CONNECTED'] + LDC_STATES), 'who': st.sampled_from(LDC_WHO),
            'reason': st.sampled_from(REASONS)})),
        'listener_cancel': draw(st.sampled_from([False, False, False, False, True])),
        'slow': draw(st.none() | st.fixed_dictionaries({
            'state': st.sampled_from(['CONNECTED', 'CONNECTED'] + SLOW_STATES),
            'iters': st.integers(0, 4), 'ms': st.sampled_from([0, 0, 1, 3, 5])})),
        'teardown_at_a': draw(st.booleans()),
    }


def _base_conn(**kw):
    spec = {'dir': 'out', 'typ': 'P', 'obf': False, 'user': 0, 'start': 0, 'ending': 'none', 'end_at': 1, 'pre': 1,
            'post': 0, 'local_pre': 0, 'reasons': ['REQUESTED'], 'gap': 0, 'queued': 0, 'sync': 'idle', 'arrival': 'data'}
    spec.update(kw)
    return spec


def base_shapes(tier):
    """Base shapes for the enumerated fault positions."""
    shapes = []
    variants = [('P', False), ('D', True)] if tier == 'quick' else [('P', False), ('P', True), ('D', False), ('D', True)]
    pairs = [('accept', 'pierce'), ('accept', 'silent'), ('refuse', 'pierce'), ('hang', 'pierce'), ('refuse', 'cannot'),
             ('accept-block', 'cannot'), ('accept-failwrite', 'pierce'), ('reset', 'silent')]
    for mode in ('race', 'fallback'):
        for api in ('create', 'create_addr'):
            for direct, indirect in pairs:
                for typ, obf in variants:
                    shapes.append({'mode': mode, 'conns': [_base_conn(
                        dir='out', typ=typ, obf=obf, api=api, direct=direct, indirect=indirect, direct_delay=2,
                        indirect_delay=3)], 'server': None, 'listener_yield': 0, 'teardown_at_a': False})
    for direct in ('accept', 'refuse', 'hang', 'accept-block', 'accept-failwrite'):
        for typ, obf in variants:
            shapes.append({'mode': 'race', 'conns': [_base_conn(
                dir='ctp', typ=typ, obf=obf, api='create', direct=direct, indirect='silent', direct_delay=2,
                indirect_delay=3)], 'server': None, 'listener_yield': 0, 'teardown_at_a': False})
    for init in ('ok', 'silence', 'bad', 'unknown-ticket', 'partial-eof'):
        for typ, obf in variants:
            shapes.append({'mode': 'race', 'conns': [_base_conn(dir='in', typ=typ, obf=obf, init=init, init_at=1)],
                           'server': None, 'listener_yield': 0, 'teardown_at_a': False})
    # both ports advertised, obfuscation preferred, a different outcome per port
    for mode in ('race', 'fallback'):
        for direct, alt, indirect in (('refuse', 'accept', 'cannot'), ('hang', 'accept', 'pierce'),
                                      ('refuse', 'accept', 'pierce'), ('accept', 'refuse', 'cannot'),
                                      ('accept-failwrite', 'accept', 'cannot')):
            shapes.append({'mode': mode, 'prefer_obf': True, 'conns': [_base_conn(
                dir='out', typ='P', obf=True, api='create', adv='both', direct=direct, direct_alt=alt,
                indirect=indirect, direct_delay=2, indirect_delay=3)],
                'server': None, 'listener_yield': 0, 'teardown_at_a': False})
    shapes.append({'mode': 'race', 'prefer_obf': True, 'conns': [_base_conn(
        dir='ctp', typ='P', obf=True, api='create', adv='both', direct='refuse', direct_alt='accept',
        indirect='silent', direct_delay=2, indirect_delay=3)],
        'server': None, 'listener_yield': 0, 'teardown_at_a': False})
    # an advertised port that does not fit in 16 bits (legal uint32 on the wire)
    for mode in ('race', 'fallback'):
        for obf, adv, oob, indirect in ((False, 'one', 'primary', 'pierce'), (False, 'one', 'primary', 'cannot'),
                                        (False, 'both', 'primary', 'silent')):
            shapes.append({'mode': mode, 'prefer_obf': False, 'conns': [_base_conn(
                dir='out', typ='P', obf=obf, api='create', adv=adv, oob=oob, oob_port=0, direct='accept',
                direct_alt='accept', indirect=indirect, direct_delay=2, indirect_delay=3)],
                'server': None, 'listener_yield': 0, 'teardown_at_a': False})
    for obf, oob_port in ((False, 0), (True, 2)):
        shapes.append({'mode': 'race', 'prefer_obf': obf, 'conns': [_base_conn(
            dir='ctp', typ='P', obf=obf, api='create', adv='one', oob='primary', oob_port=oob_port, direct='accept',
            direct_alt='accept', indirect='silent', direct_delay=2, indirect_delay=3)],
            'server': None, 'listener_yield': 0, 'teardown_at_a': False})
    # a listener that is slow on the CONNECTED report of peer connections: connect() is suspended between the moment
    # the state is CONNECTED and its return (disconnect / shutdown / cancellation land inside that window)
    for mode in ('race', 'fallback'):
        for api in ('create', 'create_addr'):
            for indirect in ('cannot', 'pierce'):
                for iters, ms in ((4, 0), (0, 3)):
                    shapes.append({'mode': mode, 'conns': [_base_conn(
                        dir='out', api=api, direct='accept', indirect=indirect, direct_delay=2, indirect_delay=6)],
                        'server': None, 'listener_yield': 0, 'teardown_at_a': False,
                        'slow': {'state': 'CONNECTED', 'iters': iters, 'ms': ms}})
    for iters, ms in ((4, 0), (0, 3)):
        shapes.append({'mode': 'race', 'conns': [_base_conn(
            dir='ctp', api='create', direct='accept', indirect='silent', direct_delay=2, indirect_delay=3)],
            'server': None, 'listener_yield': 0, 'teardown_at_a': False,
            'slow': {'state': 'CONNECTED', 'iters': iters, 'ms': ms}})
    for iters, ms in ((4, 0), (0, 3)):
        for typ, obf in (('P', False), ('D', True)):
            shapes.append({'mode': 'race', 'conns': [_base_conn(dir='in', typ=typ, obf=obf, init='ok', init_at=1)],
                           'server': None, 'listener_yield': 0, 'teardown_at_a': False,
                           'slow': {'state': 'CONNECTED', 'iters': iters, 'ms': ms}})
    # a slow state listener turns every state report into a suspension point of the attempt
    for mode in ('race', 'fallback'):
        for direct, indirect in (('accept', 'pierce'), ('refuse', 'pierce'), ('accept-failwrite', 'cannot'),
                                 ('accept-failwrite', 'pierce')):
            for ly in (1, 2):
                shapes.append({'mode': mode, 'conns': [_base_conn(
                    dir='out', api='create', direct=direct, indirect=indirect, direct_delay=2, indirect_delay=3)],
                    'server': None, 'listener_yield': ly, 'teardown_at_a': False})
    return shapes


def extra_cases(tier):
    """Plain (fault-free) cases that are always run: listener-initiated disconnects, users without listening port."""
    cases = []
    base = {'server': None, 'listener_yield': 0, 'teardown_at_a': False, 'fault': None}
    for state in LDC_STATES:
        for reason in ('REQUESTED', 'UNKNOWN'):
            ldc = {'state': state, 'who': 'any', 'reason': reason}
            for typ, obf in (('P', False), ('P', True), ('D', True)):
                cases.append(dict(base, mode='race', listener_dc=ldc, conns=[
                    _base_conn(dir='in', typ=typ, obf=obf, init='ok', init_at=1, ending='eof')]))
            for mode in ('race', 'fallback'):
                for api, indirect in (('create', 'cannot'), ('create_addr', 'pierce')):
                    cases.append(dict(base, mode=mode, listener_dc=ldc, conns=[_base_conn(
                        dir='out', api=api, direct='accept', indirect=indirect, direct_delay=2, indirect_delay=4,
                        ending='local')]))
            cases.append(dict(base, mode='race', listener_dc=ldc, conns=[_base_conn(
                dir='ctp', api='create', direct='accept', indirect='silent', direct_delay=2, indirect_delay=3)]))
            # a welcome connection before and after the one the listener closes
            cases.append(dict(base, mode='race', listener_dc=dict(ldc, who='in'), conns=[
                _base_conn(dir='out', user=0, api='create', direct='accept', indirect='cannot', direct_delay=2,
                           indirect_delay=3, ending='local'),
                _base_conn(dir='in', user=1, start=1, init='ok', init_at=0, ending='none'),
                _base_conn(dir='out', user=2, start=2, api='create', direct='accept', indirect='cannot', direct_delay=2,
                           indirect_delay=3, ending='eof')]))
    for adv, obf in (('none', False), ('none', True), ('one', False), ('one', True)):
        for direct in ('accept', 'refuse'):
            for n in (1, 2):
                cases.append(dict(base, mode='race', conns=[_base_conn(
                    dir='ctp', user=k, start=k, obf=obf, adv=adv, api='create', direct=direct, indirect='silent',
                    direct_delay=2, indirect_delay=3) for k in range(n)]))
    # slow closes (checkpoint inside the CLOSING window), slow listeners on CLOSING / CLOSED, a CLOSED listener that
    # ends with CancelledError
    def pair(ending, slow_close):
        return [_base_conn(dir='out', user=0, api='create', direct='accept', indirect='cannot', direct_delay=2,
                           indirect_delay=3, ending=ending, slow_close=slow_close, local_pre=1),
                _base_conn(dir='in', user=1, start=1, init='ok', init_at=0, ending=ending, slow_close=slow_close)]
    for ending in ('local', 'eof', 'write-fail', 'reset'):
        for slow_close in (1, 3, 9):
            cases.append(dict(base, mode='race', conns=pair(ending, slow_close)))
        for state in ('CLOSING', 'CLOSED'):
            for iters, ms in ((3, 0), (0, 5)):
                cases.append(dict(base, mode='race', conns=pair(ending, 0),
                                  slow={'state': state, 'iters': iters, 'ms': ms}))
        cases.append(dict(base, mode='race', conns=pair(ending, 0), listener_cancel=True))
        cases.append(dict(base, mode='fallback', conns=pair(ending, 3), listener_cancel=True, teardown_at_a=True))
    for mode in ('race', 'fallback'):
        cases.append(dict(base, mode=mode, conns=[_base_conn(
            dir='out', adv='none', api='create', direct='accept', indirect='pierce', direct_delay=2, indirect_delay=3)]))
    return cases


def fault_kinds_for(shape):
    d = shape['conns'][0]['dir']
    return FAULTS if d == 'out' else ['disconnect', 'netdc']


def enumerated_cases(tier):
    for shape in base_shapes(tier):
        probe = dict(shape)
        probe['fault'] = None
        _, stats = _execute(probe)
        horizon = int(stats.get('attempt_iters', [0])[0]) + 2
        for kind in fault_kinds_for(shape):
            for j in range(horizon):
                case = dict(shape)
                case['fault'] = {'conn': 0, 'kind': kind, 'j': j}
                yield case


# ---------------------------------------------------------------------------
# sanitising (run_case is total)

def _int(v, lo, hi, default=0):
    try:
        if isinstance(v, bool):
            v = int(v)
        return max(lo, min(hi, int(v)))
    except Exception:
        return default


def _pick(v, domain, default=None):
    return v if (isinstance(v, str) and v in domain) else (domain[0] if default is None else default)


def _sanitise(case):
    if not isinstance(case, dict):
        return None
    conns = []
    raw = case.get('conns')
    if not isinstance(raw, list):
        return None
    for i, s in enumerate(raw[:4]):
        if not isinstance(s, dict):
            continue
        d = _pick(s.get('dir'), DIRS)
        reasons = [r for r in (s.get('reasons') if isinstance(s.get('reasons'), list) else []) if r in REASONS][:2]
        spec = {
            'dir': d,
            'typ': _pick(s.get('typ'), TYPS),
            'obf': bool(s.get('obf')),
            'user': _int(s.get('user', i), 0, 3),
            'start': _int(s.get('start'), 0, 10),
            'ending': _pick(s.get('ending'), ENDINGS, 'none'),
            'end_at': _int(s.get('end_at'), 0, 6),
            'slow_close': _int(s.get('slow_close'), 0, 9),
            'pre': _int(s.get('pre'), 0, 3),
            'post': _int(s.get('post'), 0, 3),
            'local_pre': _int(s.get('local_pre'), 0, 2),
            'reasons': reasons or ['REQUESTED'],
            'gap': _int(s.get('gap'), 0, 4),
            'queued': _int(s.get('queued', 0), 0, 2),
            'sync': _pick(s.get('sync'), SYNCS),
            'arrival': _pick(s.get('arrival'), ARRIVALS),
        }
        if d == 'in':
            spec['init'] = _pick(s.get('init'), INITS)
            spec['init_at'] = _int(s.get('init_at'), 0, 3)
        else:
            spec['direct'] = _pick(s.get('direct'), DIRECT)
            spec['direct_alt'] = _pick(s.get('direct_alt'), DIRECT)
            spec['adv'] = _pick(s.get('adv'), ADVS)
            spec['oob'] = _pick(s.get('oob'), OOBS)
            spec['oob_port'] = _int(s.get('oob_port'), 0, len(OOB_PORTS) - 1)
            spec['indirect'] = _pick(s.get('indirect'), INDIRECT)
            spec['direct_delay'] = _int(s.get('direct_delay', 2), 1, 20, 2)
            spec['indirect_delay'] = _int(s.get('indirect_delay', 3), 1, 20, 3)
            spec['api'] = _pick(s.get('api'), APIS)
        conns.append(spec)
    if not conns:
        return None
    fault = case.get('fault')
    if isinstance(fault, dict):
        fault = {'conn': _int(fault.get('conn'), 0, 3) % len(conns), 'kind': _pick(fault.get('kind'), FAULTS),
                 'j': _int(fault.get('j'), 0, 400)}
        if fault['kind'] == 'cancel' and conns[fault['conn']]['dir'] != 'out':
            fault['kind'] = 'netdc'
    else:
        fault = None
    server = case.get('server')
    if isinstance(server, dict):
        server = {'kind': _pick(server.get('kind'), ['eof', 'reset']), 'at': _int(server.get('at'), 0, 12)}
    else:
        server = None
    return {
        'mode': _pick(case.get('mode'), ['race', 'fallback']),
        'prefer_obf': bool(case.get('prefer_obf')),
        'conns': conns,
        'fault': fault,
        'server': server,
        'listener_yield': _int(case.get('listener_yield'), 0, 2),
        'listener_dc': ({'state': _pick(case['listener_dc'].get('state'), LDC_STATES),
                         'who': _pick(case['listener_dc'].get('who'), LDC_WHO),
                         'reason': _pick(case['listener_dc'].get('reason'), REASONS)}
                        if isinstance(case.get('listener_dc'), dict) else None),
        'listener_cancel': bool(case.get('listener_cancel')),
        'slow': ({'state': _pick(case['slow'].get('state'), SLOW_STATES), 'iters': _int(case['slow'].get('iters'), 0, 6),
                  'ms': _int(case['slow'].get('ms'), 0, 20)} if isinstance(case.get('slow'), dict) else None),
        'teardown_at_a': bool(case.get('teardown_at_a')),
    }


# ---------------------------------------------------------------------------
# helpers

_THIRD_INIT = {}


def _third_init_class():
    """A decodable init-level message that is neither PeerInit nor PeerPierceFirewall (harness-registered)."""
    if 'cls' not in _THIRD_INIT:
        from dataclasses import dataclass, field
        from aioslsk.protocol import messages as M
        from aioslsk.protocol.primitives import MessageDataclass, uint8, uint32

        @dataclass(order=True)
        class Request(MessageDataclass):
            value: int = field(default=0, metadata={'type': uint32})
        Request.MESSAGE_ID = uint8(0x07)
        Request.__annotations__ = {'value': int}
        holder = type('VerifThirdInit', (M.PeerInitializationMessage,), {'Request': Request})
        _THIRD_INIT['cls'] = holder
    return _THIRD_INIT['cls']


def _connecting_objects(loop, DataConnection):
    """ids of connection objects whose connect() is executing in a live task."""
    out = set()
    for t in asyncio.all_tasks(loop):
        if t.done():
            continue
        coro = t.get_coro()
        depth = 0
        while coro is not None and depth < 50:
            depth += 1
            frame = getattr(coro, 'cr_frame', None)
            if frame is None:
                frame = getattr(coro, 'gi_frame', None)
            if frame is not None and frame.f_code.co_name == 'connect':
                obj = frame.f_locals.get('self')
                if isinstance(obj, DataConnection):
                    out.add(id(obj))
            nxt = getattr(coro, 'cr_await', None)
            if nxt is None:
                nxt = getattr(coro, 'gi_yieldfrom', None)
            coro = nxt
    return out


class _Rec:
    def __init__(self, obj, idx):
        self.obj = obj
        self.idx = idx
        self.states = []        # (state name, reason name, time)
        self.msgs = []          # number of state reports seen when the message was delivered
        self.tr = None
        self.written_at_closed = None
        self.send_after_closed = None
        self.cancelled_in_listener = []
        self.send_data_after_closed = None
        self.entry_violations = []          # registry checks made at the moment a state report is delivered
        self.was_registered = False
        self.listener_dc = None             # ['started'|'returned', state, time] of the listener-initiated disconnect
        self.reporting = []                 # states whose (slow) listener invocation is suspended right now
        self.closed_during_connected_report = False


def run_case(case) -> CaseResult:
    res, _ = _execute(case)
    return res


def _execute(case):
    res = CaseResult()
    stats = {}
    c = _sanitise(case)
    if c is None:
        return res, stats
    from aioslsk.events import ConnectionStateChangedEvent, EventBus, MessageReceivedEvent
    from aioslsk.exceptions import ConnectionWriteError, PeerConnectionError
    from aioslsk.network.connection import (
        CloseReason, ConnectionState, DataConnection, PeerConnection, PeerConnectionState, ServerConnection)
    from aioslsk.network.network import Network, PeerConnectMode
    from aioslsk.protocol import messages as M

    third = _third_init_class()
    conns = c['conns']
    fault = c['fault']
    recs = {}            # id(obj) -> _Rec
    order = []           # recs in order of first sight
    notes = {'outcomes': {}, 'fault_fired': None, 'fault_live': False, 'checkpoints': [], 'overlap': False,
             'attempt_iters': [0] * len(conns), 'exceptions': [], 'hung': [], 'w_snapshots': 0}

    def rec_of(obj):
        r = recs.get(id(obj))
        if r is None:
            r = _Rec(obj, len(order))
            recs[id(obj)] = r
            order.append(r)
        return r

    def traffic_msg(typ, n):
        return M.PeerPlaceInQueueReply.Request('f', n) if typ == 'P' else M.DistributedBranchLevel.Request(n)

    async def main(world: simworld.World):
        loop = world.loop
        net = world.net
        settings = simworld.mk_settings('me')
        settings.network.peer.connect_mode = PeerConnectMode.RACE if c['mode'] == 'race' else PeerConnectMode.FALLBACK
        settings.network.peer.obfuscate = c['prefer_obf']
        if c['server'] is not None:
            settings.network.server.reconnect.auto = True
            settings.network.server.reconnect.timeout = 10
        bus = EventBus()
        network = Network(settings, bus)
        world.clients.append(types.SimpleNamespace(settings=settings))
        ly = c['listener_yield']
        slow = c['slow']
        ldc = c['listener_dc']

        async def on_state(event):
            r = rec_of(event.connection)
            r.states.append((event.state.name, event.close_reason.name, round(loop.time(), 6)))
            conn = event.connection
            if isinstance(conn, PeerConnection):
                w = conn._writer
                if w is not None:
                    r.tr = w.transport
                if event.state == ConnectionState.CLOSED and r.written_at_closed is None and r.tr is not None:
                    r.written_at_closed = r.tr.bytes_written
            if isinstance(conn, PeerConnection):
                registered = conn in network.peer_connections
                if event.state == ConnectionState.CLOSED and registered:
                    r.entry_violations.append('registered-when-closed-reported')
                elif event.state == ConnectionState.CLOSING and r.was_registered and not registered:
                    r.entry_violations.append('unregistered-when-closing-reported')
                r.was_registered = r.was_registered or registered
                # checkpoints inside the window of a slow close / of a slow listener
                delay = None
                if event.state == ConnectionState.CLOSING and getattr(r.tr, '_c10_slow_close', None):
                    delay = r.tr._c10_slow_close / 2.0
                if slow is not None and slow['ms'] and slow['state'] == event.state.name \
                        and event.state in (ConnectionState.CLOSING, ConnectionState.CLOSED):
                    # (not inside a CONNECTING / CONNECTED report: an accepted connection is only registered after
                    # its CONNECTED report, that window is not a quiescent moment)
                    delay = slow['ms'] / 2000.0 if delay is None else delay
                if delay is not None and notes['w_snapshots'] < 6:
                    notes['w_snapshots'] += 1
                    loop.call_later(delay + 0.000137, snapshot, 'W')
            if event.state == ConnectionState.CLOSING and 'CONNECTED' in r.reporting:
                r.closed_during_connected_report = True
            r.reporting.append(event.state.name)
            try:
                for _ in range(ly):
                    await asyncio.sleep(0)
                if slow is not None and slow['state'] == event.state.name and isinstance(conn, PeerConnection):
                    for _ in range(slow['iters']):
                        await asyncio.sleep(0)
                    if slow['ms']:
                        await asyncio.sleep(slow['ms'] / 1000.0)
                if ldc is not None and ldc['state'] == event.state.name and isinstance(conn, PeerConnection) \
                        and r.listener_dc is None and ldc['who'] in ('any', 'in' if conn.incoming else 'out'):
                    # the listener itself closes the connection whose state is being reported (e.g. a block list)
                    r.listener_dc = ['started', event.state.name, round(loop.time(), 6)]
                    try:
                        await conn.disconnect(getattr(CloseReason, ldc['reason']))
                    except asyncio.CancelledError:
                        r.listener_dc[0] = 'cancelled'   # the reporting task was cancelled meanwhile: it did end
                        raise
                    except Exception as exc:   # disconnect is documented not to raise
                        notes['exceptions'].append(('disconnect(in listener)', type(exc).__name__, repr(exc)))
                    r.listener_dc[0] = 'returned'
                if c['listener_cancel'] and event.state == ConnectionState.CLOSED and isinstance(conn, PeerConnection):
                    # a listener that ends with CancelledError although its task is not cancelled: it awaits something
                    # of its own that gets cancelled (EventBus.emit only swallows Exception)
                    own = loop.create_future()
                    loop.call_soon(own.cancel)
                    notes['listener_cancelled'] = True
                    await own
            except asyncio.CancelledError:
                # the task that reports the state was cancelled while this (slow) listener was suspended
                r.cancelled_in_listener.append(event.state.name)
                raise
            finally:
                r.reporting.remove(event.state.name)

        async def on_msg(event):
            r = rec_of(event.connection)
            r.msgs.append(len(r.states))
            r.was_registered = r.was_registered or event.connection in network.peer_connections
        bus.register(ConnectionStateChangedEvent, on_state)
        bus.register(MessageReceivedEvent, on_msg)
        notes['_keep'] = (on_state, on_msg)   # the bus holds its listeners weakly

        # per-iteration hook (keeps virtual time running, unlike a spinning driver)
        it = {'n': 0, 'arm': None, 'fire': None}
        orig_run_once = loop._run_once

        def run_once():
            it['n'] += 1
            if it['arm'] is not None and it['n'] >= it['arm']:
                it['arm'] = None
                it['fire']()
            orig_run_once()
        loop._run_once = run_once

        await network.initialize()
        network.server_connection.start_reader_task()
        await asyncio.sleep(0.01)
        t0 = loop.time()
        background = []

        # scripted peers, one per user index
        peers = {}
        for spec in conns:
            u = spec['user']
            if u not in peers:
                peers[u] = simworld.ScriptedPeer(world, 'u%d' % u, '20.0.0.%d' % (u + 1), port=2234, obf_port=2235)
                world.peers['u%d' % u] = peers[u]

        def configure_peer(spec):
            """Listener behaviour (per port) / advertised ports of the target user for an outgoing attempt.
            -> (clear port, obfuscated port) as advertised (0 = not advertised, may be out of range)"""
            p = peers[spec['user']]
            for port, is_obf in ((p.port, False), (p.obf_port, True)):
                mode = spec['direct'] if is_obf == spec['obf'] else spec['direct_alt']
                lst = net.remote_listeners[(p.ip, port)]
                lst.outcome = mode.split('-')[0]
                lst.delay = spec['direct_delay'] / 1000.0

                def accept(ep, is_obf=is_obf, mode=mode, p=p):
                    link = p._accepted(ep, is_obf)
                    link.via_obf = is_obf
                    tr = ep.link.sides[0]
                    if mode == 'accept-failwrite':
                        tr.fail_writes = OSError('sim: write failed')
                    elif mode == 'accept-block':
                        tr.block_writes = True
                    return link
                lst.accept = accept
            p.indirect = spec['indirect']
            p.indirect_delay = spec['indirect_delay'] / 1000.0
            # adv == 'one': exactly the port selected by 'obf' is advertised (the case decides the obfuscation);
            # adv == 'both': both are advertised and settings.network.peer.obfuscate decides
            both = spec['adv'] == 'both'
            clear = p.port if (both or not spec['obf']) else 0
            obf = p.obf_port if (both or spec['obf']) else 0
            if spec['adv'] == 'none':
                clear = obf = 0
            bad = OOB_PORTS[spec['oob_port']]
            primary_is_obf = spec['obf']
            if spec['oob'] in ('primary', 'both'):
                clear, obf = (clear, bad if obf else 0) if primary_is_obf else (bad if clear else 0, obf)
            if spec['oob'] in ('alt', 'both'):
                clear, obf = (bad if clear else 0, obf) if primary_is_obf else (clear, bad if obf else 0)
            if spec['dir'] == 'out' and obf > 65535:
                # GetPeerAddress.Response carries the obfuscated port as uint16 (ConnectToPeer.Response: uint32)
                obf = p.obf_port
            users = world.server.users['u%d' % spec['user']]
            users['port'] = clear
            users['obf_port'] = obf
            if clear > 65535 or obf > 65535:
                notes['oob'] = True
            return clear, obf

        def fix_link(spec):
            def on_link(link):
                if link.typ is None:
                    link.typ = spec['typ']
                    link.obfuscated = bool(getattr(link, 'via_obf', spec['obf']) and spec['typ'] == 'P' and
                                           link.incoming_to_peer)
            return on_link

        def link_of(conn):
            """The scripted side of a library connection -> (PeerLink | None, endpoint | None, transport | None)."""
            w = conn._writer
            tr = w.transport if w is not None else rec_of(conn).tr
            if tr is None:
                return None, None, None
            ep = tr._link.sides[1 - tr._index]
            for p in peers.values():
                for l in p.links:
                    if l.ep is ep:
                        return l, ep, tr
            return None, ep, tr

        def arm_fault(i, fire):
            if fault is not None and fault['conn'] == i and notes['fault_fired'] is None and it['fire'] is None:
                it['fire'] = fire
                it['arm'] = it['n'] + 1 + fault['j']

        def spawn(coro):
            t = asyncio.ensure_future(coro)
            background.append(t)
            return t

        async def guarded_disconnect(conn, reason, delay_iters=0):
            for _ in range(delay_iters):
                await asyncio.sleep(0)
            try:
                await conn.disconnect(getattr(CloseReason, reason))
            except Exception as exc:   # disconnect is documented not to raise
                notes['exceptions'].append(('disconnect', type(exc).__name__, repr(exc)))

        async def guarded_send(conn, msg):
            try:
                await conn.send_message(msg)
            except ConnectionWriteError:
                pass
            except Exception as exc:
                notes['exceptions'].append(('send_message', type(exc).__name__, repr(exc)))

        async def guarded_netdc():
            try:
                await network.disconnect()
            except Exception as exc:
                notes['exceptions'].append(('network.disconnect', type(exc).__name__, repr(exc)))

        def newest_conn(pred):
            for conn in reversed(network.peer_connections):
                if pred(conn):
                    return conn
            for r in reversed(order):
                if isinstance(r.obj, PeerConnection) and pred(r.obj):
                    return r.obj
            return None

        def make_fire(i, spec, pred, task_ref):
            def fire():
                notes['fault_fired'] = it['n']
                kind = fault['kind']
                task = task_ref.get('task')
                running = task is not None and not task.done()
                if spec['dir'] != 'out':
                    conn = newest_conn(pred)
                    running = conn is None or conn.connection_state == PeerConnectionState.AWAITING_INIT
                notes['fault_live'] = bool(running)
                if kind == 'cancel':
                    if task is not None:
                        task.cancel()
                elif kind == 'disconnect':
                    conn = newest_conn(pred)
                    if conn is not None:
                        spawn(guarded_disconnect(conn, 'REQUESTED'))
                    else:
                        notes['fault_noop'] = True
                else:
                    spawn(guarded_netdc())
            return fire

        async def sleep_until(t):
            d = t - loop.time()
            if d > 0:
                await asyncio.sleep(d)

        # -- what happens on an established connection -------------------------------------------
        def make_slow_close(tr, delay):
            """The close is confirmed late (peer stopped reading with data in the send buffer): is_closing() at once,
            connection_lost / EOF towards the peer after ``delay`` seconds (< DISCONNECT_TIMEOUT)."""
            def close():
                if tr._closing:
                    return
                tr._closing = True

                def finish():
                    if tr._lost:
                        return
                    tr._lost = True
                    tr._protocol.connection_lost(None)
                    tr._link.side_closed(tr._index)
                loop.call_later(delay, finish)
            tr.close = close
            tr._c10_slow_close = delay

        async def established(i, spec, conn):
            link, ep, tr = link_of(conn)
            if spec['slow_close'] and tr is not None and not tr._closing:
                make_slow_close(tr, spec['slow_close'] * 0.5)
                notes['slow_close'] = True
            typ = conn.connection_type if conn.connection_type in ('P', 'D') else spec['typ']

            def peer_send(n):
                if link is not None and not ep.dead:
                    link.send_msg(traffic_msg(typ, n))
            for k in range(spec['pre']):
                peer_send(10 + k)
                await asyncio.sleep(TICK / 5)
            for k in range(spec['local_pre']):
                await bounded(guarded_send(conn, traffic_msg(typ, 20 + k)), 'send_message')
            await asyncio.sleep(spec['end_at'] * TICK + 0.0011)
            ending = spec['ending']
            reasons = spec['reasons']
            if ending == 'local':
                def go():
                    # messages queued (queue_message) and still pending when the disconnect is requested
                    for k in range(spec.get('queued', 0)):
                        try:
                            conn.queue_message(traffic_msg(typ, 40 + k))
                            notes['queued_pending'] = True
                        except Exception as exc:
                            notes['exceptions'].append(('queue_message', type(exc).__name__, repr(exc)))
                    spawn(guarded_disconnect(conn, reasons[0]))
                    if len(reasons) > 1:
                        notes['overlap'] = True
                        spawn(guarded_disconnect(conn, reasons[1], spec['gap']))
                if spec['sync'] == 'idle' or tr is None or link is None or ep.dead or tr.dead:
                    go()
                else:
                    # the disconnect is requested in the very loop iteration in which a segment / EOF / reset of the
                    # peer arrives, right before or right after the transport hands it to the stream reader
                    notes['overlap'] = True
                    before = spec['sync'] == 'before-arrival'
                    attr = {'data': 'deliver', 'eof': 'deliver_eof', 'reset': 'deliver_reset'}[spec['arrival']]
                    orig = getattr(tr, attr)

                    def hooked(*args):
                        setattr(tr, attr, orig)
                        if before:
                            go()
                        orig(*args)
                        if not before:
                            go()
                    setattr(tr, attr, hooked)
                    if spec['arrival'] == 'data':
                        peer_send(30)
                        peer_send(31)
                    elif spec['arrival'] == 'eof':
                        ep.close()
                    else:
                        ep.reset()
            elif ending == 'eof':
                if ep is not None:
                    ep.close()
            elif ending == 'reset':
                if ep is not None:
                    ep.reset()
            elif ending == 'partial-eof':
                if ep is not None and link is not None:
                    data = traffic_msg(typ, 40).serialize()
                    if link.obfuscated:
                        data = wire_ref.obf_encode(data, b'\x01\x02\x03\x04')
                    ep.send(data[:len(data) - 2])
                    ep.close()
            elif ending in ('write-fail', 'write-timeout'):
                if tr is not None:
                    if ending == 'write-fail':
                        tr.fail_writes = OSError('sim: write failed')
                    else:
                        tr.block_writes = True
                for k in range(len(reasons)):
                    spawn(guarded_send(conn, traffic_msg(typ, 50 + k)))
                if len(reasons) > 1:
                    notes['overlap'] = True
            # 'read-timeout' / 'none': silence
            await asyncio.sleep(TICK / 2)
            for k in range(spec['post']):
                peer_send(60 + k)
                await asyncio.sleep(TICK / 5)

        # -- one driver per connection ---------------------------------------------------------
        async def drive(i, spec):
            await sleep_until(t0 + spec['start'] * TICK)
            p = peers[spec['user']]
            name = 'u%d' % spec['user']
            p.on_link = fix_link(spec)
            n_start = it['n']
            conn = None
            if spec['dir'] == 'in':
                port = settings.network.listening.obfuscated_port if spec['obf'] else settings.network.listening.port
                if not net.can_connect_in(port):
                    notes['outcomes'][i] = 'listener-closed'
                    return
                init = spec['init']
                src_port = 50000 + len(p.links)
                pred = (lambda cn, ip=p.ip, sp=src_port: cn.hostname == ip and cn.port == sp)
                arm_fault(i, make_fire(i, spec, pred, {}))
                if init == 'ok':
                    if spec['init_at'] == 0:
                        link = p.connect(spec['typ'], port=port, obfuscated=spec['obf'])
                    else:
                        link = p.connect(spec['typ'], port=port, obfuscated=spec['obf'], init=None)
                        await asyncio.sleep(spec['init_at'] * TICK / 10)
                        link.send_msg(M.PeerInit.Request(name, spec['typ'], 0))
                        link.init = 'sent-init'
                        if spec['typ'] != 'P':
                            link.obfuscated = False
                else:
                    link = p.connect(spec['typ'], port=port, obfuscated=spec['obf'], init=None)
                    link.init = 'sent-' + init
                    await asyncio.sleep(spec['init_at'] * TICK / 10)
                    ep = link.ep
                    if init == 'eof':
                        ep.close()
                    elif init == 'reset':
                        ep.reset()
                    elif init == 'partial-eof':
                        link.send_msg(M.PeerInit.Request(name, spec['typ'], 0).serialize()[:7])
                        ep.close()
                    elif init == 'bad':
                        link.send_msg(struct.pack('<IB', 9, 1) + b'\xff\xff\xff\xff\xff\xff\xff\xff')
                    elif init == 'non-init':
                        link.send_msg(M.PeerPlaceInQueueReply.Request('f', 1))
                    elif init == 'third-class':
                        link.send_msg(third.Request(5))
                    elif init == 'unknown-ticket':
                        link.send_msg(M.PeerPierceFirewall.Request(987654))
                    # 'silence': nothing
                await asyncio.sleep(0.02)
                notes['attempt_iters'][i] = it['n'] - n_start
                conn = newest_conn(pred)
                if conn is None:
                    notes['outcomes'][i] = 'no-connection-object'
                    return
                notes['outcomes'][i] = 'accepted:' + init
                if init != 'ok':
                    # traffic after a failed initialisation must not be delivered either
                    await asyncio.sleep(spec['end_at'] * TICK)
                    for k in range(spec['post']):
                        if not link.ep.dead:
                            link.send_msg(traffic_msg(spec['typ'], 70 + k))
                    return
            elif spec['dir'] == 'out':
                configure_peer(spec)
                api = spec['api']
                if api == 'create_addr':
                    coro = network.create_peer_connection(
                        name, spec['typ'], ip=p.ip, port=p.obf_port if spec['obf'] else p.port, obfuscate=spec['obf'])
                elif api == 'get':
                    coro = network.get_peer_connection(name, spec['typ'])
                else:
                    coro = network.create_peer_connection(name, spec['typ'])
                ref = {}
                task = asyncio.ensure_future(coro)
                ref['task'] = task
                pred = (lambda cn, name=name: cn.username == name and not cn.incoming)
                arm_fault(i, make_fire(i, spec, pred, ref))
                await asyncio.wait({task}, timeout=150.0)
                try:
                    if not task.done():
                        # e.g. waiting for a GetPeerAddress reply on a closed server connection: a still-running
                        # attempt (whether it should end is C11's question)
                        notes['outcomes'][i] = 'attempt-still-running'
                        background.append(task)
                    else:
                        conn = task.result()
                        notes['outcomes'][i] = 'connected'
                except PeerConnectionError:
                    notes['outcomes'][i] = 'failed'
                except asyncio.CancelledError:
                    if not task.cancelled():
                        raise
                    notes['outcomes'][i] = 'cancelled'
                except Exception as exc:
                    notes['outcomes'][i] = 'error:' + type(exc).__name__
                notes['attempt_iters'][i] = it['n'] - n_start
                if conn is None:
                    return
            else:   # ctp: the server relays a ConnectToPeer of the user; the library connects and pierces
                adv_clear, adv_obf = configure_peer(spec)
                pred = (lambda cn, name=name: cn.username == name and not cn.incoming)
                arm_fault(i, make_fire(i, spec, pred, {}))
                known = set(id(cn) for cn in network.peer_connections) | set(recs)
                try:
                    world.server.send(M.ConnectToPeer.Response(
                        username=name, typ=spec['typ'], ip=p.ip, port=adv_clear, ticket=4000 + i,
                        privileged=False, obfuscated_port_amount=1 if adv_obf else 0,
                        obfuscated_port=adv_obf))
                except Exception:
                    notes['outcomes'][i] = 'server-gone'
                    return
                # direct connect timeout is 10 s, the write timeout another 10 s
                used = [spec['direct']] + ([spec['direct_alt']] if spec['adv'] == 'both' else [])
                horizon = 0.05 if all(m in ('accept', 'refuse', 'reset', 'accept-failwrite') for m in used) else 21.0
                await asyncio.sleep(horizon)
                notes['attempt_iters'][i] = it['n'] - n_start
                for r in order:
                    if isinstance(r.obj, PeerConnection) and id(r.obj) not in known and pred(r.obj):
                        conn = r.obj
                        break
                if conn is None or conn.connection_state != PeerConnectionState.ESTABLISHED:
                    notes['outcomes'][i] = 'ctp-not-established'
                    return
                notes['outcomes'][i] = 'ctp-established'
            await established(i, spec, conn)

        drivers = [asyncio.ensure_future(drive(i, spec)) for i, spec in enumerate(conns)]

        if c['server'] is not None:
            def server_fault(kind=c['server']['kind']):
                try:
                    world.server.close_session(-1, kind)
                except Exception:
                    pass
            loop.call_at(t0 + c['server']['at'] * TICK + 0.0007, server_fault)

        async def bounded(coro, api, limit=60.0):
            """Await a library call of the driver, but never for ever (a dead-locked library must end as a violation)."""
            t = asyncio.ensure_future(coro)
            await asyncio.wait({t}, timeout=limit)
            if not t.done():
                notes['hung'].append(api)
                background.append(t)
                return False
            return True

        def snapshot(label):
            live = _connecting_objects(loop, DataConnection)
            reg = list(network.peer_connections)
            for cn in reg:
                rec_of(cn)
            srv_w = network.server_connection._writer
            srv_tr = srv_w.transport if srv_w is not None else None
            open_unowned = []
            for l in net.links:
                for side in l.sides:
                    if not isinstance(side, simnet.MemTransport) or side.dead or side is srv_tr:
                        continue
                    if any(cn._writer is not None and cn._writer.transport is side and
                           cn.state in (ConnectionState.CONNECTED, ConnectionState.CLOSING) for cn in reg):
                        continue
                    owner = next((k for k, r in recs.items() if r.tr is side), None)
                    if owner is not None and recs[owner].states and recs[owner].states[-1][0] == 'CLOSING':
                        # being closed right now (e.g. before it was ever registered); whether a CLOSING connection
                        # has to be registered is decided by 'closing_missing' below
                        continue
                    open_unowned.append((repr(side._extra.get('peername')), owner))
            closed_open, remote_unaware, closing_missing = [], [], []
            for k, r in recs.items():
                if not isinstance(r.obj, PeerConnection) or not r.states:
                    continue
                w = r.obj._writer
                if w is not None:
                    r.tr = w.transport       # also streams installed without any state report
                if r.obj in reg:
                    r.was_registered = True
                elif r.states[-1][0] == 'CLOSING' and r.was_registered and r.tr is not None and not r.tr.dead:
                    closing_missing.append(k)
                if r.states[-1][0] != 'CLOSED' or r.tr is None:
                    continue
                if not r.tr.dead:
                    closed_open.append(k)
                remote = r.tr._link.sides[1 - r.tr._index]
                if loop.time() - r.states[-1][2] >= 1.0 and isinstance(remote, simnet.Endpoint) and \
                        not (remote.closed or remote.got_eof or remote.got_reset):
                    remote_unaware.append(k)
            notes['checkpoints'].append({
                'label': label,
                'time': round(loop.time() - t0, 4),
                'closed_open': closed_open,
                'closing_missing': closing_missing,
                'remote_unaware': remote_unaware,
                'registry': [id(cn) for cn in reg],
                'connecting_live': live,
                'nstates': {k: len(r.states) for k, r in recs.items()},
                'open_unowned': open_unowned,
                'zombies': [id(cn) for cn in reg if cn.state == ConnectionState.CONNECTED and
                            cn.connection_state == PeerConnectionState.AWAITING_INIT and not cn.incoming and
                            id(cn) not in live and not _task_mentions(loop, cn)],
            })

        # checkpoint E: one second after the last start, while slow attempts (connect / write timeouts) still run
        loop.call_at(t0 + max(spec['start'] for spec in conns) * TICK + E_OFFSET, snapshot, 'E')
        await asyncio.gather(*drivers, return_exceptions=False)
        await asyncio.sleep(A_SETTLE)
        snapshot('A')
        if c['teardown_at_a']:
            await bounded(guarded_netdc(), 'network.disconnect')
            await asyncio.sleep(0.0503)
            snapshot('A-teardown')
        await asyncio.sleep(B_SETTLE)
        snapshot('B')
        # explicit send after CLOSED
        for r in list(order):
            if isinstance(r.obj, PeerConnection) and r.states and r.states[-1][0] == 'CLOSED':
                tr = r.tr
                if tr is None and r.obj._writer is not None:
                    tr = r.tr = r.obj._writer.transport
                before = tr.bytes_written if tr is not None else 0
                await bounded(guarded_send(r.obj, traffic_msg('P' if r.obj.connection_type == 'P' else 'D', 99)),
                              'send_message')

                async def send_data(r=r):
                    # send_data has no "is closing" short cut: on a closed connection it has to fail
                    try:
                        await r.obj.send_data(b'sent-after-closed')
                        r.send_data_after_closed = 'returned'
                    except ConnectionWriteError:
                        r.send_data_after_closed = 'raised'
                    except Exception as exc:
                        r.send_data_after_closed = 'raised'
                        notes['exceptions'].append(('send_data', type(exc).__name__, repr(exc)))
                await bounded(send_data(), 'send_data')
                await asyncio.sleep(0.0101)
                r.send_after_closed = (tr.bytes_written - before) if tr is not None else 0
        await bounded(guarded_netdc(), 'network.disconnect')
        await asyncio.sleep(1.0009)
        snapshot('final')
        # CannotConnect requests the server received (answers to relayed ConnectToPeer requests)
        notes['cannot_connect'] = sorted(m.ticket for m in world.server.received(M.CannotConnect.Request))
        for t in background:
            if not t.done():
                t.cancel()
        notes['written_final'] = {k: (r.tr.bytes_written if r.tr is not None else None) for k, r in recs.items()}
        stats['iterations'] = it['n']

    _, loop_errors = simworld.run_world(main)
    stats['attempt_iters'] = notes['attempt_iters']

    # ---- oracle -----------------------------------------------------------------------------
    def direction(r):
        return 'incoming' if getattr(r.obj, 'incoming', False) else 'outgoing'

    def desc(r):
        o = r.obj
        return (f'{direction(r)} {getattr(o, "connection_type", "?")} connection {o.hostname}:{o.port} '
                f'(user {getattr(o, "username", None)!r}, #{r.idx})')

    ctx_txt = f'outcomes={notes["outcomes"]}, fault={fault}'
    # 1. the reported sequence of every connection object
    contaminated = set()   # connections with a reported sequence violation: later observations are consequences
    early = False
    for r in order:
        seq = [s[0] for s in r.states]
        if isinstance(r.obj, ServerConnection):
            for a, b in zip(seq, seq[1:]):
                if RANK[b] <= RANK[a] and not (a == 'CLOSED' and b == 'CONNECTING'):
                    res.violate(f'C10/server-non-monotone:{a}->{b}', f'{seq}')
                    break
            continue
        if not isinstance(r.obj, PeerConnection):
            continue
        d = direction(r)
        if seq and 'CONNECTED' not in seq:
            early = True
        if d == 'incoming' and r.obj.connection_state == PeerConnectionState.AWAITING_INIT and seq:
            early = True
        for pos, (a, b) in enumerate(zip(seq, seq[1:])):
            if RANK[b] <= RANK[a]:
                contaminated.add(id(r.obj))
                if (a, b) == ('CLOSED', 'CONNECTED') and d == 'outgoing' and 'CONNECTED' not in seq[:pos + 1] \
                        and seq[0] == 'CONNECTING':
                    # disconnect() ran while connect() was waiting for the socket; connect() then revived the
                    # closed (and unregistered) connection
                    res.violate('C10/connected-after-closed:disconnect-during-connect',
                                f'{desc(r)} reported {r.states[:pos + 2]} (then {seq[pos + 2:]}): it was '
                                f'disconnected while connecting, connect() completed afterwards and reported CONNECTED '
                                f'on the closed, unregistered connection ({ctx_txt})')
                else:
                    res.violate(f'C10/non-monotone:{a}->{b}:{d}', f'{desc(r)} reported {r.states} ({ctx_txt})')
                break
        if id(r.obj) in contaminated:
            continue
        if seq.count('CLOSED') > 1:
            res.violate(f'C10/closed-reported-twice:{d}', f'{desc(r)} reported {r.states}')
        if 'CLOSED' in seq and 'CLOSING' not in seq[:seq.index('CLOSED')]:
            res.violate(f'C10/closed-without-closing:{d}', f'{desc(r)} reported {seq}')
        if seq and seq[-1] == 'CLOSED' and r.obj.state.name != 'CLOSED':
            res.violate(f'C10/state-differs-from-last-report:{r.obj.state.name}', f'{desc(r)} reported {seq}')
        for n_seen in r.msgs:
            seen = seq[:n_seen]
            if 'CLOSED' in seen:
                res.violate(f'C10/message-after-closed:{d}', f'{desc(r)}: a message was delivered after {seen}')
                break
            if 'CLOSING' in seen:
                res.violate(f'C10/message-while-closing:{d}', f'{desc(r)}: a message was delivered after {seen}')
                break
        final_w = notes.get('written_final', {}).get(id(r.obj))
        if r.written_at_closed is not None and final_w is not None and final_w > r.written_at_closed:
            res.violate(f'C10/bytes-sent-after-closed:{d}',
                        f'{desc(r)}: {final_w - r.written_at_closed} bytes were written after CLOSED was reported '
                        f'(explicit send_message after CLOSED wrote {r.send_after_closed})')

    # 2. the registry at every checkpoint
    explained = set()      # connections whose missing CLOSED is explained by a root cause reported here
    for r in order:
        if isinstance(r.obj, PeerConnection) and r.listener_dc is not None and r.listener_dc[0] == 'started' \
                and id(r.obj) not in contaminated:
            explained.add(id(r.obj))
            res.violate(f'C10/listener-disconnect-never-completes:{r.listener_dc[1]}:{direction(r)}',
                        f'{desc(r)} reported {[s[0] for s in r.states]}: a ConnectionStateChangedEvent listener awaited '
                        f'event.connection.disconnect() while {r.listener_dc[1]} was being reported (virtual time '
                        f'{r.listener_dc[2]}); more than {B_SETTLE:.0f} virtual seconds later the call has not '
                        f'returned, state is {r.obj.state.name} ({ctx_txt})')
    reported = set()

    def once(k, kind, detail):
        """One record per (connection, kind): the first checkpoint that shows it."""
        if (k, kind) not in reported:
            reported.add((k, kind))
            res.violate(kind, detail)
    for r in order:
        if isinstance(r.obj, PeerConnection) and r.states and r.states[-1][0] == 'CLOSING' \
                and 'CLOSING' in r.cancelled_in_listener and id(r.obj) not in contaminated:
            explained.add(id(r.obj))
            res.violate('C10/stuck-in-closing:cancelled-in-state-listener',
                        f'{desc(r)} reported {[s[0] for s in r.states]}: the task running disconnect() was cancelled '
                        f'while a (suspending) ConnectionStateChangedEvent listener handled CLOSING; CLOSED is never '
                        f'reported, the socket is never closed, the connection stays in network.peer_connections and '
                        f'later disconnect() calls return early ({ctx_txt})')
    for cp in notes['checkpoints']:
        label = cp['label']
        reg = cp['registry']
        where = f'checkpoint {label} (t0+{cp["time"]} s)'

        def seq_at(k):
            return [s[0] for s in recs[k].states[:cp['nstates'].get(k, 0)]]

        def stays(k):
            return 'registered at checkpoints ' + '/'.join(x['label'] for x in notes['checkpoints'] if k in x['registry'])
        if len(set(reg)) != len(reg):
            res.violate('C10/registry-duplicate', f'{where}: a connection is registered twice')
        for k in reg:
            r = recs[k]
            if k in contaminated:
                continue
            sq = seq_at(k)
            last = sq[-1] if sq else None
            if last is None:
                once(k, 'C10/registry-residue:never-reported',
                            f'{where}: {desc(r)} is registered but no state was ever reported ({ctx_txt})')
            elif last == 'CLOSED' and direction(r) == 'incoming' and r.closed_during_connected_report:
                explained.add(k)
                once(k, 'C10/registry-residue:closed-connection:accepted-closed-during-connected-report',
                     f'{where}: {desc(r)} reported {sq}: disconnect() was called on the accepted connection (taken from '
                     f'the event) while a suspending listener still handled its CONNECTED report; accept() then went on '
                     f'and registered the closed connection in network.peer_connections, where it stays; {stays(k)} '
                     f'({ctx_txt})')
            elif last == 'CLOSED':
                once(k, 'C10/registry-residue:closed-connection', f'{where}: {desc(r)} reported {sq} ({ctx_txt})')
            elif last == 'CONNECTING' and k not in cp['connecting_live']:
                explained.add(k)
                once(k, 'C10/registry-residue:cancelled-connect',
                            f'{where}: {desc(r)} was reported {sq} and nothing else, it is still in '
                            f'network.peer_connections although no task is executing its connect() any more (attempt cancelled, or '
                            f'ended by an exception that connect() did not turn into a failed connect); '
                            f'{stays(k)} ({ctx_txt})')
            elif last == 'UNINITIALIZED':
                once(k, 'C10/registry-residue:uninitialized', f'{where}: {desc(r)} ({ctx_txt})')
            elif k in cp['zombies']:
                explained.add(k)
                once(k, 'C10/registry-residue:cancelled-connect:connected-never-initialised',
                            f'{where}: {desc(r)} was reported {sq}; the attempt that created it is gone (cancelled '
                            f'while sending the init message), it was never initialised, nobody reads from it and it '
                            f'stays in network.peer_connections; {stays(k)} ({ctx_txt})')
        for k in cp['nstates']:
            r = recs[k]
            if not isinstance(r.obj, PeerConnection) or k in reg or k in contaminated:
                continue
            sq = seq_at(k)
            last = sq[-1] if sq else None
            if label == 'W':
                # a checkpoint in the middle of another connection's CLOSING / CLOSED window: an accepted connection
                # whose CONNECTED report is still being delivered is registered only afterwards (not judged here)
                continue
            if last == 'CONNECTED':
                once(k, f'C10/registry-missing:CONNECTED:{direction(r)}',
                            f'{where}: {desc(r)} reported {sq} but is not in network.peer_connections ({ctx_txt})')
            elif last == 'CONNECTING' and k in cp['connecting_live']:
                once(k, 'C10/registry-missing:CONNECTING', f'{where}: {desc(r)} ({ctx_txt})')
        for k in cp['closing_missing']:
            if k not in contaminated and k not in explained:
                once(k, f'C10/registry-missing:CLOSING:{direction(recs[k])}',
                     f'{where}: {desc(recs[k])} reported {seq_at(k)}: CLOSED has not been reported, the socket is still '
                     f'open, but the connection already left network.peer_connections ({ctx_txt})')
        for k in cp['closed_open']:
            if k not in contaminated and k not in explained:
                once(k, f'C10/closed-but-socket-open:{direction(recs[k])}',
                     f'{where}: {desc(recs[k])} reported {seq_at(k)} but its socket is still open ({ctx_txt})')
        for k in cp['remote_unaware']:
            if k not in contaminated and k not in explained:
                once(k, f'C10/remote-never-sees-close:{direction(recs[k])}',
                     f'{where}: {desc(recs[k])} reported {seq_at(k)} (CLOSED more than 1 s ago) but the remote '
                     f'endpoint has seen neither EOF nor a reset ({ctx_txt})')
        unowned = [name for name, owner in cp['open_unowned'] if owner not in contaminated and owner not in explained]
        if unowned and label != 'W':
            res.violate('C10/open-socket-not-registered',
                        f'{where}: library-side sockets still open that do not belong to a registered CONNECTED '
                        f'connection: {unowned} ({ctx_txt})')
        if label == 'final' and [k for k in reg if k not in contaminated and k not in explained]:
            res.violate('C10/registry-not-empty-after-network-disconnect', f'{[desc(recs[k]) for k in reg]}')

    for r in order:
        if isinstance(r.obj, PeerConnection) and r.send_data_after_closed == 'returned' \
                and id(r.obj) not in contaminated and id(r.obj) not in explained:
            res.violate(f'C10/send-succeeded-after-closed:send_data:{direction(r)}',
                        f'{desc(r)} reported {[s[0] for s in r.states]}; send_data() on it afterwards returned normally '
                        f'({r.send_after_closed} bytes written to the socket) instead of raising ConnectionWriteError '
                        f'({ctx_txt})')

    # 2b. Network.disconnect() "disconnects all current open connections" (its docstring)
    cp_a = next((cp for cp in notes['checkpoints'] if cp['label'] == 'A'), None)
    cp_t = next((cp for cp in notes['checkpoints'] if cp['label'] == 'A-teardown'), None)
    if cp_a is not None and cp_t is not None:
        for k in cp_a['registry']:
            r = recs[k]
            if k in contaminated or k in explained:
                continue
            sq = [s[0] for s in r.states[:cp_t['nstates'].get(k, 0)]]
            sq_a = [s[0] for s in r.states[:cp_a['nstates'].get(k, 0)]]
            if (sq_a and sq_a[-1] == 'CLOSING') or \
                    (sq and sq[-1] == 'CLOSING' and getattr(getattr(r, 'tr', None), '_c10_slow_close', None)):
                # its close was already in progress when network.disconnect() was called (a slowly confirmed close, also
                # one started by an earlier network.disconnect() of the case): disconnect() returns early for such a
                # connection by design; it has to end CLOSED by checkpoint B
                continue
            if not sq or sq[-1] != 'CLOSED':
                res.violate(f'C10/network-disconnect-left-open:{direction(r)}',
                            f'{desc(r)} was registered when network.disconnect() was called; 50 ms after it returned '
                            f'the connection has reported {sq} ({ctx_txt})')

    # 3. everything that was ever reported is CLOSED at checkpoint B
    cp_b = next((cp for cp in notes['checkpoints'] if cp['label'] == 'B'), None)
    for r in order:
        k = id(r.obj)
        if not isinstance(r.obj, PeerConnection) or cp_b is None or k in contaminated or k in explained:
            continue
        sq = [s[0] for s in r.states[:cp_b['nstates'].get(k, 0)]]
        if sq and sq[-1] != 'CLOSED':
            res.violate(f'C10/never-closed:last={sq[-1]}:{direction(r)}',
                        f'{desc(r)} reported {sq}; {B_SETTLE + A_SETTLE:.0f} s after the last scripted event it has '
                        f'not been reported CLOSED ({ctx_txt})')
    for r in order:
        if isinstance(r.obj, PeerConnection) and id(r.obj) not in contaminated:
            for what in sorted(set(r.entry_violations)):
                if what == 'registered-when-closed-reported':
                    res.violate(f'C10/registered-when-closed-reported:{direction(r)}',
                                f'{desc(r)} reported {[s[0] for s in r.states]}: at the moment CLOSED was delivered to '
                                f'the listener the connection was still in network.peer_connections ({ctx_txt})')
                else:
                    res.violate(f'C10/registry-missing:CLOSING:at-report:{direction(r)}',
                                f'{desc(r)} reported {[s[0] for s in r.states]}: at the moment CLOSING was delivered to '
                                f'the listener (socket open, CLOSED not reported) the connection had already left '
                                f'network.peer_connections ({ctx_txt})')
    for api, tname, text in notes['exceptions']:
        res.violate(f'C10/unexpected-exception:{tname}@{api}', text)
    for api in sorted(set(notes['hung'])):
        res.violate(f'C10/call-never-returns:{api}', f'{api} did not return within 60 virtual seconds ({ctx_txt})')
    # a relayed ConnectToPeer that did not lead to a connection is answered with CannotConnect (network.py)
    if fault is None and c['server'] is None and c['listener_dc'] is None and not c['listener_cancel']:
        for i, spec in enumerate(conns):
            if spec['dir'] == 'ctp' and notes['outcomes'].get(i) == 'ctp-not-established' \
                    and sum(1 for x in conns if x['user'] == spec['user']) == 1 \
                    and (4000 + i) not in notes.get('cannot_connect', []):
                res.violate('C10/ctp-failed-without-cannot-connect',
                            f'ConnectToPeer ticket {4000 + i} for user u{spec["user"]} (advertised {spec["adv"]}, '
                            f'direct {spec["direct"]}) did not lead to an established connection, but the server '
                            f'received CannotConnect only for {notes.get("cannot_connect")} ({ctx_txt})')

    # ---- classification ---------------------------------------------------------------------
    fault_live = fault is not None and notes['fault_fired'] is not None and notes['fault_live']
    res.nontrivial = bool(early or fault_live or notes['overlap'])
    if early:
        res.label('ended-before-connected-or-init')
    if notes['overlap']:
        res.label('overlapping-endings')
    if fault is not None:
        res.label('fault:' + fault['kind'] + (':live' if fault_live else ':late-or-noop'))
    for i, spec in enumerate(conns):
        res.label('dir:' + spec['dir'], 'outcome:' + str(notes['outcomes'].get(i)))
        if spec['dir'] == 'in':
            res.label('init:' + spec['init'])
        else:
            res.label('path:%s/%s' % (spec['direct'], spec['indirect']))
            if spec['adv'] == 'both' and spec['api'] != 'create_addr':
                res.label('advertised:both' + (':outcomes-differ' if spec['direct'] != spec['direct_alt'] else ''))
            if spec['oob'] != 'none' and spec['api'] != 'create_addr' and notes.get('oob'):
                res.label('port-out-of-range:' + spec['oob'])
        if notes['outcomes'].get(i) in ('connected', 'ctp-established', 'accepted:ok'):
            res.label('ending:' + spec['ending'])
    reasons = sorted({s[1] for r in order if isinstance(r.obj, PeerConnection) for s in r.states if s[0] == 'CLOSED'})
    for rs in reasons:
        res.label('close-reason:' + rs)
    if any(r.msgs for r in order if isinstance(r.obj, PeerConnection)):
        res.label('messages-delivered')
    if any(cp['label'] == 'A' and cp['registry'] for cp in notes['checkpoints']):
        res.label('registry-nonempty-at-A')
    if any(cp['label'] == 'E' and set(cp['registry']) & cp['connecting_live'] for cp in notes['checkpoints']):
        res.label('registered-connecting-attempt-at-E')
    if c['server'] is not None:
        res.label('server-fault')
    if notes.get('slow_close'):
        res.label('slow-close')
    if notes['w_snapshots']:
        res.label('checkpoint-inside-window')
    if notes.get('listener_cancelled'):
        res.label('listener-ended-with-CancelledError')
    for e in loop_errors:
        res.label('loop-error:' + str(e.get('exc_type')))
    stats['notes'] = notes
    stats['records'] = [(repr(r.obj), r.states, r.msgs) for r in order]
    stats['loop_errors'] = loop_errors
    return res, stats


def _task_mentions(loop, conn):
    """True when a live task's coroutine stack holds ``conn`` in a local variable (someone still owns it)."""
    for t in asyncio.all_tasks(loop):
        if t.done():
            continue
        coro = t.get_coro()
        depth = 0
        while coro is not None and depth < 50:
            depth += 1
            frame = getattr(coro, 'cr_frame', None)
            if frame is None:
                frame = getattr(coro, 'gi_frame', None)
            if frame is not None and frame.f_code.co_filename.endswith(('network.py', 'connection.py')):
                for v in frame.f_locals.values():
                    if v is conn:
                        return True
            nxt = getattr(coro, 'cr_await', None)
            if nxt is None:
                nxt = getattr(coro, 'gi_yieldfrom', None)
            coro = nxt
    return False


def run_shard(ctx):
    ctx.enumerate(enumerated_cases(ctx.tier))
    ctx.enumerate(extra_cases(ctx.tier))
    n = 500 if ctx.tier == 'quick' else 16000
    ctx.explore(case_strategy(), n)


MANIFEST_ENTRY = {
    'technique': 'property-based testing (Hypothesis) + exhaustive fault-position enumeration: generated connection '
                 'scenarios on a virtual-time loop with in-memory TCP; cancellation / disconnect / network shutdown '
                 'injected at every loop iteration of the connecting attempt',
    'level_text': 'Every loop iteration of a connecting attempt (per base shape: direction x mode x api x listener '
                  'outcome x type/port) is enumerated as a fault position for task cancellation, connection.disconnect() '
                  'and Network.disconnect(); endings, timings and traffic are generated. The reported state sequence of '
                  'every connection object is checked against the monotone automaton and the registry is compared '
                  'with the set of open / being-opened connections at three quiescent checkpoints.',
    'level_note': 'Trusted base: virtual loop, in-memory TCP model, the per-iteration hook in checks/c10.py. File (F) '
                  'connections are not generated. Schedules other than the enumerated fault positions are sampled.',
}

# One deterministic case per genuine-defect kind found on the pinned tree (regression replays once fixed).
KNOWN_REPLAYS = {
    # disconnect() on an accepted connection (object taken from the event) while a suspending listener still handles
    # its CONNECTED report: accept() goes on and registers the closed connection
    'C10/registry-residue:closed-connection:accepted-closed-during-connected-report': {
        'mode': 'race', 'conns': [{'dir': 'in', 'typ': 'P', 'init': 'ok', 'init_at': 1, 'ending': 'none'}],
        'fault': {'conn': 0, 'kind': 'disconnect', 'j': 1}, 'slow': {'state': 'CONNECTED', 'iters': 0, 'ms': 3}},
    # default (race) mode: the indirect path wins while the direct attempt still hangs in connect(); the library cancels
    # the direct task, its connection object was reported CONNECTING and stays registered for ever
    'C10/registry-residue:cancelled-connect': {
        'mode': 'race', 'conns': [{'dir': 'out', 'typ': 'P', 'direct': 'hang', 'indirect': 'pierce', 'api': 'create',
                                   'ending': 'none'}]},
    # same, but the direct attempt is cancelled while its PeerInit write is blocked: CONNECTED, never initialised
    'C10/registry-residue:cancelled-connect:connected-never-initialised': {
        'mode': 'race', 'conns': [{'dir': 'out', 'typ': 'P', 'direct': 'accept-block', 'indirect': 'pierce',
                                   'api': 'create', 'ending': 'none'}]},
    # connection.disconnect() while connect() waits for the socket: CONNECTING, CLOSING, CLOSED, CONNECTED, ...
    'C10/connected-after-closed:disconnect-during-connect': {
        'mode': 'fallback', 'conns': [{'dir': 'out', 'typ': 'P', 'direct': 'accept', 'indirect': 'silent',
                                       'direct_delay': 8, 'api': 'create_addr', 'ending': 'none'}],
        'fault': {'conn': 0, 'kind': 'disconnect', 'j': 1}},
    # the connecting task is cancelled while a suspending state listener handles the CLOSING report of the failed
    # connect: CONNECTING, CLOSING and nothing else, registered for ever
    'C10/stuck-in-closing:cancelled-in-state-listener': {
        'mode': 'fallback', 'conns': [{'dir': 'out', 'typ': 'P', 'direct': 'refuse', 'indirect': 'cannot',
                                       'api': 'create_addr', 'ending': 'none'}],
        'fault': {'conn': 0, 'kind': 'cancel', 'j': 4}, 'listener_yield': 1},
}
